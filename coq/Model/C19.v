(* C19 -- HTTPException.prepare / __call__ (src/pyramid/httpexceptions.py) with the
   string.Template, webob.html_escape, json.dumps and UTF-8 encoding it relies on.
   Executable definitions only. *)
From Coq Require Import List NArith ZArith Bool.
Import ListNotations.
Require Import Verif.Lib.Wire Verif.Lib.Utf8 Verif.Model.C19_base Verif.Gen.Facts_C19.
Open Scope N_scope.

(* ------------------------------------------------------------------ prepare *)
Record input := mkInput {
  i_cls : text;
  i_detail : option text;
  i_comment : option text;
  i_expl : option text;            (* instance attribute overriding the class explanation *)
  i_location : text;               (* location= of the redirect classes *)
  i_headers : list (text * text);  (* headers= *)
  i_environ : list (text * text);  (* environ items, str values *)
  i_tmpl : option text;            (* body_template= *)
  i_offers : list text             (* oracle: [o for o, q in accept.acceptable_offers(offers)] *)
}.

(* what prepare() does is fixed by these choices; the model reads them from the regenerated
   facts, the specification fixes them to what the property demands *)
Record policy := mkPolicy {
  p_branches : list branch;
  p_args : list (text * (argsrc * bool));
  p_env_escaped : bool;
  p_hdr_escaped : bool }.

(* constants of the reference model (hand-written; the source's own constants appear in the
   regenerated program, and the equality theorems compare the two) *)
Definition env_skip_prefix : text := [119; 115; 103; 105; 46].       (* 'wsgi.' *)
Definition env_skip_char : N := 46.                                   (* '.' *)
Definition hdr_lower : bool := true.
Definition json_keys : list (text * N) :=
  [([109; 101; 115; 115; 97; 103; 101], 0); ([99; 111; 100; 101], 1); ([116; 105; 116; 108; 101], 2)].
Definition t_json : text := [97; 112; 112; 108; 105; 99; 97; 116; 105; 111; 110; 47; 106; 115; 111; 110].
Definition t_plain : text := [116; 101; 120; 116; 47; 112; 108; 97; 105; 110].
Definition offers : list text := [t_html; t_json].
Definition fallback_type : text := t_plain.
Definition accept_key : text := [72; 84; 84; 80; 95; 65; 67; 67; 69; 80; 84].   (* HTTP_ACCEPT *)
Definition accept_default : text := [].

Fixpoint find_cls (n : text) (l : list cls) : option cls :=
  match l with [] => None | c :: r => if text_eqb n (c_name c) then Some c else find_cls n r end.

Fixpoint pick_branch (m : text) (l : list branch) : option branch :=
  match l with
  | [] => None
  | b :: r => match b_test b with
              | None => Some b
              | Some t => if text_eqb m t then Some b else pick_branch m r
              end
  end.

(* (not k.startswith('wsgi.')) and ('.' in k) *)
Definition env_skipped (k : text) : bool := negb (startswith env_skip_prefix k) && memN env_skip_char k.

Definition maybe_esc (f : escfn) (escaped : bool) (s : text) : text := if escaped then esc_apply f s else s.

Definition status_of (c : cls) : text := c_code c ++ [32] ++ c_title c.

(* headers at the time of the loop, restricted to keys a Template identifier can name:
   Content-Type / Content-Length (always present) lower-case to names containing '-' *)
Definition headers_of (c : cls) (i : input) : list (text * text) :=
  (if c_move c then [([76; 111; 99; 97; 116; 105; 111; 110], i_location i)] else []) ++ i_headers i.

Definition arg_value (b : branch) (expl detail comment html_comment : text) (s : argsrc * bool) : text :=
  let f := b_esc b in
  match s with
  | (ABr, e) => maybe_esc f e (b_br b)
  | (AExplanation, e) => maybe_esc f e expl
  | (ADetail, e) => maybe_esc f e detail
  | (AComment, e) => maybe_esc f e comment
  | (AHtmlComment, e) => maybe_esc f e html_comment
  end.

Definition build_args (P : policy) (b : branch) (c : cls) (i : input) (custom : bool) : env :=
  let f := b_esc b in
  let comment := or_empty (i_comment i) in
  let html_comment :=
    if is_nil comment then []
    else b_cpre b ++ maybe_esc f (b_comment_escaped b) comment ++ b_csuf b in
  let expl := match i_expl i with Some x => x | None => c_expl c end in
  let detail := or_empty (i_detail i) in
  let a0 := fold_left (fun (a : env) (ks : text * (argsrc * bool)) =>
                         aset (fst ks) (arg_value b expl detail comment html_comment (snd ks)) a)
                      (p_args P) [] in
  if custom then
    let a1 := fold_left (fun (a : env) (kv : text * text) =>
                           if env_skipped (fst kv) then a
                           else aset (fst kv) (maybe_esc f (p_env_escaped P) (snd kv)) a)
                        (i_environ i) a0 in
    fold_left (fun (a : env) (kv : text * text) =>
                 aset (if hdr_lower then lower (fst kv) else fst kv) (maybe_esc f (p_hdr_escaped P) (snd kv)) a)
              (headers_of c i) a1
  else a0.

Definition k_status : text := [115; 116; 97; 116; 117; 115].
Definition k_body : text := [98; 111; 100; 121].

Definition json_value (src : N) (body status title : text) : text :=
  if src =? 0 then body else if src =? 1 then status else title.

Definition page_of (b : branch) (c : cls) (body : text) : res text :=
  let status := status_of c in
  match b_page b with
  | PageHtml => substitute html_template [(k_status, status); (k_body, body)]
  | PagePlain => substitute plain_template [(k_status, status); (k_body, body)]
  | PageJson => Ok (json_object (map (fun ks => (fst ks, json_value (snd ks) body status (c_title c))) json_keys))
  end.


(* page text before encoding (the object of most theorems) *)
Definition page_text (P : policy) (b : branch) (c : cls) (i : input) : res text :=
  let tmpl := match i_tmpl i with Some t => t | None => c_tmpl c end in
  let custom := match i_tmpl i with Some _ => true | None => negb (c_default_tmpl c) end in
  rbind (substitute tmpl (build_args P b c i custom)) (fun body => page_of b c body).

Definition chosen_type (i : input) : text := hd fallback_type (i_offers i ++ [fallback_type]).

Definition prepare (P : policy) (i : input) : option (res output) :=
  match find_cls (i_cls i) classes with
  | None => None
  | Some c =>
      if c_empty c then Some (Ok (mkOutput (status_of c) [] [] []))
      else
        match pick_branch (chosen_type i) (p_branches P) with
        | None => None
        | Some b =>
            Some (rbind (page_text P b c i) (fun page =>
                  rmap (fun bytes => mkOutput (status_of c) (b_ctype b)
                                              (if b_charset_none b then [] else cs_utf8) bytes)
                       (utf8_bytes page)))
        end
  end.


(* ------------------------------------------------------------------ the constructor's other keywords
   json_formatter= (the documented hook: in the JSON form the page is json.dumps of what the
   formatter returns; a formatter that raises lets the error propagate) and the WebOb Response
   keywords content_type= / charset= (they set the initial Content-Type header, which prepare()
   overwrites with the negotiated type).  [prepare_x] is [prepare] with these; the core model
   above is the case "no formatter" (Proofs: prepare_x_core). *)
Record xinput := mkX {
  x_in : input;
  x_fmt : option fmt;              (* json_formatter= *)
  x_ctype_kw : option text;        (* content_type= (a type without parameters) *)
  x_charset_kw : option text       (* charset= ('' stands for None as well) *)
}.
Definition kw_of (x : xinput) : list (text * text) :=
  (match x_ctype_kw x with Some v => [(k_content_type, v)] | None => [] end) ++
  (match x_charset_kw x with Some v => [(k_charset, v)] | None => [] end).

Definition page_of_x (f : option fmt) (environ : list (text * text)) (b : branch) (c : cls) (body : text) : res text :=
  match f, b_page b with
  | Some f, PageJson => rmap json_object (apply_fmt f (status_of c) body (c_title c) environ [])
  | _, _ => page_of b c body
  end.

Definition page_text_x (P : policy) (b : branch) (c : cls) (x : xinput) : res text :=
  let i := x_in x in
  let tmpl := match i_tmpl i with Some t => t | None => c_tmpl c end in
  let custom := match i_tmpl i with Some _ => true | None => negb (c_default_tmpl c) end in
  rbind (substitute tmpl (build_args P b c i custom)) (page_of_x (x_fmt x) (i_environ i) b c).

Definition prepare_x (P : policy) (x : xinput) : option (res output) :=
  let i := x_in x in
  match find_cls (i_cls i) classes with
  | None => None
  | Some c =>
      if c_empty c then Some (Ok (mkOutput (status_of c) [] [] []))
      else
        match pick_branch (chosen_type i) (p_branches P) with
        | None => None
        | Some b =>
            Some (rbind (page_text_x P b c x) (fun page =>
                  rmap (fun bytes => mkOutput (status_of c) (b_ctype b)
                                              (if b_charset_none b then [] else cs_utf8) bytes)
                       (utf8_bytes page)))
        end
  end.

(* ------------------------------------------------------------------ specification
   The property's wording as a policy: in the HTML form every supplied text goes through
   html_escape (comment inside an HTML comment), in the JSON and plain forms it is used as
   is; content type per negotiated form. *)
Definition s_br_html : text := [60; 98; 114; 47; 62].
Definition s_cpre : text := [60; 33; 45; 45; 32].
Definition s_csuf : text := [32; 45; 45; 62].
Definition s_k_br : text := [98; 114].
Definition s_k_expl : text := [101; 120; 112; 108; 97; 110; 97; 116; 105; 111; 110].
Definition s_k_detail : text := [100; 101; 116; 97; 105; 108].
Definition s_k_comment : text := [99; 111; 109; 109; 101; 110; 116].
Definition s_k_html_comment : text := [104; 116; 109; 108; 95; 99; 111; 109; 109; 101; 110; 116].

Definition spec_policy : policy :=
  mkPolicy
    [ mkBranch (Some t_html) t_html false EscHtml s_br_html s_cpre s_csuf true PageHtml;
      mkBranch (Some t_json) t_json true EscNone [10] [] [] true PageJson;
      mkBranch None t_plain false EscNone [10] [] [] true PagePlain ]
    [ (s_k_br, (ABr, false)); (s_k_expl, (AExplanation, true)); (s_k_detail, (ADetail, true));
      (s_k_comment, (AComment, true)); (s_k_html_comment, (AHtmlComment, false)) ]
    true true.

Definition spec (i : input) : option (res output) := prepare spec_policy i.
Definition spec_x (x : xinput) : option (res output) := prepare_x spec_policy x.

(* best acceptable of HTML, JSON, plain: the first offer the negotiation kept, else plain *)
Definition spec_type (i : input) : text :=
  match i_offers i with o :: _ => o | [] => t_plain end.

(* ------------------------------------------------------------------ reference JSON reader
   (for the statement "the body is valid JSON whose message is the text"): an object of
   string members, strings with the escapes of RFC 8259, \uD8xx\uDCxx pairs combined. *)
Definition unhex1 (c : N) : option N :=
  if (48 <=? c) && (c <=? 57) then Some (c - 48)
  else if (97 <=? c) && (c <=? 102) then Some (c - 87)
  else if (65 <=? c) && (c <=? 70) then Some (c - 55)
  else None.
Definition unhex4 (a b c d : N) : option N :=
  match unhex1 a, unhex1 b, unhex1 c, unhex1 d with
  | Some x, Some y, Some z, Some w => Some (x * 4096 + y * 256 + z * 16 + w)
  | _, _, _, _ => None
  end.

(* reads the characters of a string after the opening quote; returns (decoded, rest after closing quote) *)
Definition is_hi (c : N) : bool := (55296 <=? c) && (c <=? 56319).
Definition is_lo (c : N) : bool := (56320 <=? c) && (c <=? 57343).
Definition simple_escape (e : N) : option N :=
  if e =? 34 then Some 34 else if e =? 92 then Some 92 else if e =? 47 then Some 47
  else if e =? 110 then Some 10 else if e =? 114 then Some 13 else if e =? 116 then Some 9
  else if e =? 98 then Some 8 else if e =? 102 then Some 12 else None.
(* \uXXXX at the head of [s] *)
Definition read_u (s : text) : option (N * text) :=
  match s with
  | b0 :: u :: a :: b :: c :: d :: r =>
      if (b0 =? 92) && (u =? 117) then
        match unhex4 a b c d with Some n => Some (n, r) | None => None end
      else None
  | _ => None
  end.

Fixpoint json_read_chars (fuel : nat) (s : text) : option (text * text) :=
  match fuel with
  | O => None
  | S f =>
      let put c r := match json_read_chars f r with Some (t, r') => Some (c :: t, r') | None => None end in
      match s with
      | [] => None
      | c :: r =>
          if c =? 34 then Some ([], r)
          else if c =? 92 then
            match r with
            | [] => None
            | e :: r1 =>
                if e =? 117 then
                  match read_u s with
                  | None => None
                  | Some (hi, r2) =>
                      if is_hi hi then
                        match read_u r2 with
                        | Some (lo, r3) =>
                            if is_lo lo then put (65536 + (hi - 55296) * 1024 + (lo - 56320)) r3
                            else put hi r2
                        | None => put hi r2
                        end
                      else put hi r2
                  end
                else match simple_escape e with Some x => put x r1 | None => None end
            end
          else if c <? 32 then None
          else put c r
      end
  end.

Definition json_read_string (s : text) : option (text * text) :=
  match s with 34 :: r => json_read_chars (S (length r)) r | _ => None end.

Fixpoint skip_ws (s : text) : text :=
  match s with c :: r => if (c =? 32) || (c =? 10) || (c =? 13) || (c =? 9) then skip_ws r else s | [] => [] end.

(* members after '{' (at least one) *)
Fixpoint json_read_members (fuel : nat) (s : text) : option (list (text * text)) :=
  match fuel with
  | O => None
  | S f =>
      match json_read_string (skip_ws s) with
      | None => None
      | Some (k, r) =>
          match skip_ws r with
          | 58 :: r1 =>
              match json_read_string (skip_ws r1) with
              | None => None
              | Some (v, r2) =>
                  match skip_ws r2 with
                  | 44 :: r3 => match json_read_members f r3 with Some l => Some ((k, v) :: l) | None => None end
                  | 125 :: r3 => if is_nil (skip_ws r3) then Some [(k, v)] else None
                  | _ => None
                  end
              end
          | _ => None
          end
      end
  end.

Definition json_read_object (s : text) : option (list (text * text)) :=
  match skip_ws s with 123 :: r => json_read_members (S (length r)) r | _ => None end.

(* ------------------------------------------------------------------ wire glue *)
Definition get_pair (v : val) : option (text * text) :=
  match v with VL [VT a; VT b] => Some (a, b) | _ => None end.
Definition get_pairs := get_list_of get_pair.
Definition get_fsrc (v : val) : option fsrc :=
  match v with
  | VL [VI 0%Z] => Some FBody
  | VL [VI 1%Z] => Some FStatus
  | VL [VI 2%Z] => Some FTitle
  | VL [VI 3%Z; VT t] => Some (FConst t)
  | VL [VI 4%Z; VT k] => Some (FEnv k)
  | VL [VI 5%Z; VT k; VT d] => Some (FEnvGet k d)
  | _ => None
  end.
Definition get_member (v : val) : option (text * fsrc) :=
  match v with VL [VT k; s] => olet s := get_fsrc s in Some (k, s) | _ => None end.

Definition put_res (r : option (res output)) : val :=
  match r with
  | None => bad
  | Some (Ok o) => VL [VI 1; VT (o_status o); VT (o_ctype o); VT (o_charset o); VT (o_body o)]
  | Some KeyErr => VL [VI 0; VT [75; 101; 121; 69; 114; 114; 111; 114]]                       (* KeyError *)
  | Some ValErr => VL [VI 0; VT [86; 97; 108; 117; 101; 69; 114; 114; 111; 114]]              (* ValueError *)
  | Some EncErr => VL [VI 0; VT [85; 110; 105; 99; 111; 100; 101; 69; 110; 99; 111; 100; 101; 69; 114; 114; 111; 114]]
  end.

(* ------------------------------------------------------------------ one exception object called several times
   Object state across calls: prepare() renders only while [not self.has_body]; a successful
   render stores the page in body/app_iter and the content type / charset in the headers, and
   every later prepare() is a no-op, so Response.__call__ sends the stored headers and body
   again whatever the new environ says.  A call that raised leaves has_body false (WebOb
   re-adds the default charset when the next branch sets a text content type: validated by the
   correspondence run).  has_body is false for an empty stored body. *)
Definition step := (list (text * text) * list text)%type.     (* environ and negotiation result of one call *)
Definition with_call (i : input) (s : step) : input :=
  mkInput (i_cls i) (i_detail i) (i_comment i) (i_expl i) (i_location i) (i_headers i) (fst s) (i_tmpl i) (snd s).

Definition stored (x : option (res output)) : option output :=
  match x with
  | Some (Ok o) => if is_nil (o_body o) then None else Some o
  | _ => None
  end.

Fixpoint calls (P : policy) (i : input) (done : option output) (l : list step) : list (option (res output)) :=
  match l with
  | [] => []
  | s :: r =>
      match done with
      | Some o => Some (Ok o) :: calls P i done r
      | None => let x := prepare P (with_call i s) in x :: calls P i (stored x) r
      end
  end.

(* the same threading for any single-call function (used with prepare_x) *)
Fixpoint calls_g (prep : step -> option (res output)) (done : option output) (l : list step) : list (option (res output)) :=
  match l with
  | [] => []
  | s :: r =>
      match done with
      | Some o => Some (Ok o) :: calls_g prep done r
      | None => let x := prep s in x :: calls_g prep (stored x) r
      end
  end.
Definition with_call_x (x : xinput) (s : step) : xinput :=
  mkX (with_call (x_in x) s) (x_fmt x) (x_ctype_kw x) (x_charset_kw x).

(* ------------------------------------------------------------------ the REGENERATED program as a model
   The object a constructor call builds (class-level attributes first, then gen_init /
   gen_move_init, then the harness's assignment to .explanation), and calls threaded through
   the object state. *)
Definition obj_class (c : cls) : obj :=
  mkObj (c_code c) (c_title c) (c_expl c) (c_tmpl c) (negb (c_default_tmpl c)) (c_empty c) [] None None [] [] [] [] None.
Definition set_expl (x : option text) (o : obj) : obj :=
  match x with
  | None => o
  | Some e => mkObj (ob_code o) (ob_title o) e (ob_tmpl o) (ob_tmpl_custom o) (ob_empty o) (ob_status o)
                    (ob_detail o) (ob_comment o) (ob_headers o) (ob_ctype o) (ob_charset o) (ob_body o) (ob_formatter o)
  end.
Definition gen_obj_x (c : cls) (x : xinput) : obj :=
  let i := x_in x in
  set_expl (i_expl i)
    (if c_move c then gen_move_init (obj_class c) (i_location i) (i_detail i) (i_headers i) (i_comment i) (i_tmpl i)
                                    (x_fmt x) (kw_of x)
     else if mem_text (c_name c) forbidden_init_classes
     then gen_forbidden_init (obj_class c) (i_detail i) (i_headers i) (i_comment i) (i_tmpl i) (x_fmt x) (kw_of x)
     else gen_init (obj_class c) (i_detail i) (i_headers i) (i_comment i) (i_tmpl i) (x_fmt x) (kw_of x)).
Definition core (i : input) : xinput := mkX i None None None.
Definition gen_obj (c : cls) (i : input) : obj := gen_obj_x c (core i).

Fixpoint gen_calls (o : obj) (l : list step) : list (res output) :=
  match l with
  | [] => []
  | s :: r =>
      match gen_call (fun _ _ => snd s) o (fst s) with
      | Ok (out, o') => Ok out :: gen_calls o' r
      | KeyErr => KeyErr :: gen_calls o r
      | ValErr => ValErr :: gen_calls o r
      | EncErr => EncErr :: gen_calls o r
      end
  end.
(* a call that raised leaves the object as it was, except for what prepare() had already
   assigned (content type / charset), which the next rendering overwrites; see Proofs *)

Definition model_calls_x (x : xinput) (l : list step) : list (option (res output)) :=
  match find_cls (i_cls (x_in x)) classes with
  | None => map (fun _ => None) l
  | Some c => map Some (gen_calls (gen_obj_x c x) l)
  end.
Definition model_x (x : xinput) : option (res output) :=
  match find_cls (i_cls (x_in x)) classes with
  | None => None
  | Some c => Some (rmap fst (gen_call (fun _ _ => i_offers (x_in x)) (gen_obj_x c x) (i_environ (x_in x))))
  end.
Definition model_calls (i : input) (l : list step) : list (option (res output)) := model_calls_x (core i) l.
Definition model (i : input) : option (res output) := model_x (core i).

(* the reference model of a history (hand-written) *)
Definition ref_calls (i : input) (l : list step) := calls spec_policy i None l.
(* what a fresh object would answer to each call on its own *)
Definition spec_singles (i : input) (l : list step) := map (fun s => prepare spec_policy (with_call i s)) l.
Definition ref_calls_x (x : xinput) (l : list step) := calls_g (fun s => prepare_x spec_policy (with_call_x x s)) None l.
Definition spec_singles_x (x : xinput) (l : list step) := map (fun s => prepare_x spec_policy (with_call_x x s)) l.

(* the property on a history, as a check of observed responses [rs] against [spec_singles]:
   every rendered response is, content type, charset and body together, the specified
   rendering of one of the calls made so far; a call may fail only if its own rendering is
   not specified (error) *)
Definition out_eqb (a b : output) : bool :=
  text_eqb (o_status a) (o_status b) && text_eqb (o_ctype a) (o_ctype b) &&
  text_eqb (o_charset a) (o_charset b) && text_eqb (o_body a) (o_body b).
Definition is_ok_out (x : option (res output)) (o : output) : bool :=
  match x with Some (Ok o') => out_eqb o o' | _ => false end.
Fixpoint history_ok_from (seen : list (option (res output))) (rs singles : list (option (res output))) : bool :=
  match rs, singles with
  | [], [] => true
  | r :: rs', s :: singles' =>
      let seen' := s :: seen in
      (match r with
       | Some (Ok o) => existsb (fun x => is_ok_out x o) seen'
       | _ => match s with Some (Ok _) => false | _ => true end
       end) && history_ok_from seen' rs' singles'
  | _, _ => false
  end.
Definition history_ok (rs singles : list (option (res output))) : bool := history_ok_from [] rs singles.

Definition get_step (v : val) : option step :=
  match v with VL [e; o] => olet e := get_pairs e in olet o := get_texts o in Some (e, o) | _ => None end.

(* ------------------------------------------------------------------ raise sites: the reference (hand-written)
   what each site outside httpexceptions.py hands to the exception constructor; the regenerated
   gen_site_* (Gen/Facts_C19.v) are proved equal.  No site passes a body template. *)
Definition n_HTTPNotFound : text := [72; 84; 84; 80; 78; 111; 116; 70; 111; 117; 110; 100].
Definition n_HTTPMovedPermanently : text := [72; 84; 84; 80; 77; 111; 118; 101; 100; 80; 101; 114; 109; 97; 110; 101; 110; 116; 108; 121].
Definition n_HTTPTemporaryRedirect : text := [72; 84; 84; 80; 84; 101; 109; 112; 111; 114; 97; 114; 121; 82; 101; 100; 105; 114; 101; 99; 116].
Definition s_out_of_bounds : text := [79; 117; 116; 32; 111; 102; 32; 98; 111; 117; 110; 100; 115; 58; 32].
Definition with_qs (base qs : text) : text := if is_nil qs then base else base ++ [63] ++ qs.
Definition site_router (r : req) : raised := mkRaised n_HTTPNotFound (Some (r_path_info r)) [] None.
Definition site_static_missing (r : req) : raised := mkRaised n_HTTPNotFound (Some (r_url r)) [] None.
Definition site_static_oob (r : req) : raised := mkRaised n_HTTPNotFound (Some (s_out_of_bounds ++ r_url r)) [] None.
Definition site_static_slash (r : req) : raised :=
  mkRaised n_HTTPMovedPermanently None (with_qs (r_path_url r ++ [47]) (r_query_string r)) None.
Definition site_append_slash (r : req) : raised :=
  mkRaised n_HTTPTemporaryRedirect None (with_qs (r_path r ++ [47]) (r_query_string r)) None.

Definition site_ref (name : text) : option (req -> raised) :=
  if text_eqb name [114; 111; 117; 116; 101; 114] then Some site_router
  else if text_eqb name [115; 116; 97; 116; 105; 99; 95; 109; 105; 115; 115; 105; 110; 103] then Some site_static_missing
  else if text_eqb name [115; 116; 97; 116; 105; 99; 95; 111; 111; 98] then Some site_static_oob
  else if text_eqb name [115; 116; 97; 116; 105; 99; 95; 115; 108; 97; 115; 104] then Some site_static_slash
  else if text_eqb name [97; 112; 112; 101; 110; 100; 95; 115; 108; 97; 115; 104] then Some site_append_slash
  else None.
Definition site_gen (name : text) : option (req -> raised) :=
  if text_eqb name [114; 111; 117; 116; 101; 114] then Some gen_site_router
  else if text_eqb name [115; 116; 97; 116; 105; 99; 95; 109; 105; 115; 115; 105; 110; 103] then Some gen_site_static_missing
  else if text_eqb name [115; 116; 97; 116; 105; 99; 95; 111; 111; 98] then Some gen_site_static_oob
  else if text_eqb name [115; 116; 97; 116; 105; 99; 95; 115; 108; 97; 115; 104] then Some gen_site_static_slash
  else if text_eqb name [97; 112; 112; 101; 110; 100; 95; 115; 108; 97; 115; 104] then Some gen_site_append_slash
  else None.
(* the exception a site raises, called with the environ of the request being answered *)
Definition input_of (ra : raised) (environ : list (text * text)) (ofs : list text) : input :=
  mkInput (ra_cls ra) (ra_detail ra) None None (ra_location ra) [] environ (ra_tmpl ra) ofs.
Definition get_req (v : val) : option req :=
  match v with
  | VL [VT a; VT b; VT c; VT d; VT e] => Some (mkReq a b c d e)
  | _ => None
  end.

(* ------------------------------------------------------------------ raisers whose message is built from configuration
   data or a request header inside a fixed format: PredicateMismatch of a multiview (the view name) and of a
   predicated view ('... %s (%s)' % (function name, predicate texts)), HTTPForbidden of the secured-view deriver,
   BadCSRFOrigin (prefix ++ origin ++ suffix, with its own explanation).  [msite_gen] uses the formats
   regenerated from the source (the fmt_ constants of Gen/Facts_C19.v), [msite_ref] the hand-written ones. *)
Fixpoint format_s (fmt : text) (args : list text) : text :=
  match fmt with
  | 37 :: 115 :: r => match args with a :: rest => a ++ format_s r rest | [] => 37 :: 115 :: format_s r [] end
  | c :: r => c :: format_s r args
  | [] => []
  end.
Definition n_HTTPForbidden : text := [72; 84; 84; 80; 70; 111; 114; 98; 105; 100; 100; 101; 110].
Definition n_HTTPBadRequest : text := [72; 84; 84; 80; 66; 97; 100; 82; 101; 113; 117; 101; 115; 116].
Definition s_fmt_pm : text := [112; 114; 101; 100; 105; 99; 97; 116; 101; 32; 109; 105; 115; 109; 97; 116; 99; 104; 32; 102; 111; 114; 32; 118; 105; 101; 119; 32; 37; 115; 32; 40; 37; 115; 41].
Definition s_fmt_unauthorized : text := [85; 110; 97; 117; 116; 104; 111; 114; 105; 122; 101; 100; 58; 32; 37; 115; 32; 102; 97; 105; 108; 101; 100; 32; 112; 101; 114; 109; 105; 115; 115; 105; 111; 110; 32; 99; 104; 101; 99; 107].
Definition s_csrf_prefix : text := [79; 114; 105; 103; 105; 110; 32; 99; 104; 101; 99; 107; 105; 110; 103; 32; 102; 97; 105; 108; 101; 100; 32; 45; 32].
Definition s_csrf_suffix : text := [32; 100; 111; 101; 115; 32; 110; 111; 116; 32; 109; 97; 116; 99; 104; 32; 97; 110; 121; 32; 116; 114; 117; 115; 116; 101; 100; 32; 111; 114; 105; 103; 105; 110; 115; 46].
Definition s_csrf_explanation : text := [66; 97; 100; 32; 67; 83; 82; 70; 32; 79; 114; 105; 103; 105; 110; 46; 32; 65; 99; 99; 101; 115; 115; 32; 105; 115; 32; 100; 101; 110; 105; 101; 100; 46; 32; 84; 104; 105; 115; 32; 115; 101; 114; 118; 101; 114; 32; 99; 97; 110; 32; 110; 111; 116; 32; 118; 101; 114; 105; 102; 121; 32; 116; 104; 97; 116; 32; 116; 104; 101; 32; 111; 114; 105; 103; 105; 110; 32; 111; 114; 32; 114; 101; 102; 101; 114; 114; 101; 114; 32; 111; 102; 32; 121; 111; 117; 114; 32; 114; 101; 113; 117; 101; 115; 116; 32; 109; 97; 116; 99; 104; 101; 115; 32; 116; 104; 101; 32; 99; 117; 114; 114; 101; 110; 116; 32; 115; 105; 116; 101; 46; 32; 69; 105; 116; 104; 101; 114; 32; 121; 111; 117; 114; 32; 98; 114; 111; 119; 115; 101; 114; 32; 115; 117; 112; 112; 108; 105; 101; 100; 32; 116; 104; 101; 32; 119; 114; 111; 110; 103; 32; 79; 114; 105; 103; 105; 110; 32; 111; 114; 32; 82; 101; 102; 101; 114; 114; 101; 114; 32; 111; 114; 32; 105; 116; 32; 100; 105; 100; 32; 110; 111; 116; 32; 115; 117; 112; 112; 108; 121; 32; 111; 110; 101; 32; 97; 116; 32; 97; 108; 108; 46].
Definition msite_with (pm un pre suf ex : text) (name : text) (args : list text) : option (text * text * option text) :=
  if text_eqb name [112; 109; 95; 109; 117; 108; 116; 105] then match args with [n] => Some (n_HTTPNotFound, n, None) | _ => None end
  else if text_eqb name [112; 109; 95; 115; 105; 110; 103; 108; 101] then match args with [fn; p] => Some (n_HTTPNotFound, format_s pm [fn; p], None) | _ => None end
  else if text_eqb name [102; 111; 114; 98; 105; 100; 100; 101; 110] then match args with [fn] => Some (n_HTTPForbidden, format_s un [fn], None) | _ => None end
  else if text_eqb name [99; 115; 114; 102; 95; 111; 114; 105; 103; 105; 110] then match args with [o] => Some (n_HTTPBadRequest, pre ++ o ++ suf, Some ex) | _ => None end
  else None.
Definition msite_gen := msite_with fmt_predicate_mismatch fmt_unauthorized fmt_csrf_origin_prefix fmt_csrf_origin_suffix
                                   fmt_csrf_origin_explanation.
Definition msite_ref := msite_with s_fmt_pm s_fmt_unauthorized s_csrf_prefix s_csrf_suffix s_csrf_explanation.
Definition input_of_m (m : text * text * option text) (environ : list (text * text)) (ofs : list text) : input :=
  mkInput (fst (fst m)) (Some (snd (fst m))) None (snd m) [] [] environ None ofs.

(* ------------------------------------------------------------------ exception_response(status_code, keywords)
   = status_map[status_code] called with the keywords; the module-level loop fills status_map from the module's globals in
   definition order: public names, classes other than the excluded bases, truthy code; a later class
   with the same code replaces an earlier one *)
Definition status_entry (c : cls) : bool :=
  negb (startswith [95] (c_name c)) && negb (mem_text (c_name c) status_map_excluded) && negb (text_eqb (c_code c) [48]).
Fixpoint status_class_from (code : text) (l : list cls) (acc : option cls) : option cls :=
  match l with
  | [] => acc
  | c :: r => status_class_from code r (if status_entry c && text_eqb (c_code c) code then Some c else acc)
  end.
Definition status_class (code : text) : option cls := status_class_from code classes None.

(* ext = [formatter?; content_type kw?; charset kw?], formatter = [[key; source] ...]
   case = [cls; detail?; comment?; explanation?; location; headers; environ; body_template?; offers; ext]
   answer = [model; spec; spec_type]
   history case = [cls; detail?; comment?; explanation?; location; headers; body_template?; [[environ; offers] ...]; ext]
   answer = [model responses; single-call specifications; model history satisfies history_ok] *)
Definition get_ext (i : input) (v : val) : option xinput :=
  match v with
  | VL [f; ck; cs] =>
      olet f := get_opt (get_list_of get_member) f in olet ck := get_opt get_text ck in
      olet cs := get_opt get_text cs in Some (mkX i f ck cs)
  | _ => None
  end.
Definition run_C19 (v : val) : val :=
  ret_or_bad (
    match v with
    | VL [c; d; cm; ex; loc; hs; en; tm; ofs; ext] =>
        olet c := get_text c in olet d := get_opt get_text d in olet cm := get_opt get_text cm in
        olet ex := get_opt get_text ex in olet loc := get_text loc in olet hs := get_pairs hs in
        olet en := get_pairs en in olet tm := get_opt get_text tm in olet ofs := get_texts ofs in
        let i := mkInput c d cm ex loc hs en tm ofs in
        olet x := get_ext i ext in
        Some (VL [put_res (model_x x); put_res (spec_x x); VT (spec_type i)])
    | VL [code; d; cm; ex; loc; hs; en; tm; ofs; ext; VI 1%Z] =>
        (* factory case: like the direct case, the class chosen by exception_response from the status code *)
        olet code := get_text code in olet c := status_class code in
        olet d := get_opt get_text d in olet cm := get_opt get_text cm in
        olet ex := get_opt get_text ex in olet loc := get_text loc in olet hs := get_pairs hs in
        olet en := get_pairs en in olet tm := get_opt get_text tm in olet ofs := get_texts ofs in
        let i := mkInput (c_name c) d cm ex loc hs en tm ofs in
        olet x := get_ext i ext in
        Some (VL [put_res (model_x x); put_res (spec_x x); VT (spec_type i)])
    | VL [site; rq; en; ofs] =>
        (* site case = [site name; [url; path; path_info; path_url; query_string]; environ; offers] *)
        olet site := get_text site in olet rq := get_req rq in olet en := get_pairs en in olet ofs := get_texts ofs in
        olet g := site_gen site in olet f := site_ref site in
        Some (VL [put_res (model (input_of (g rq) en ofs)); put_res (spec (input_of (f rq) en ofs));
                  VT (spec_type (input_of (f rq) en ofs))])
    | VL [site; args; en; ofs; VI 0%Z] =>
        (* message-site case = [site name; [args]; environ; offers; 0] *)
        olet site := get_text site in olet args := get_texts args in olet en := get_pairs en in olet ofs := get_texts ofs in
        olet g := msite_gen site args in olet f := msite_ref site args in
        Some (VL [put_res (model (input_of_m g en ofs)); put_res (spec (input_of_m f en ofs));
                  VT (spec_type (input_of_m f en ofs))])
    | VL [c; d; cm; ex; loc; hs; tm; steps; ext] =>
        olet c := get_text c in olet d := get_opt get_text d in olet cm := get_opt get_text cm in
        olet ex := get_opt get_text ex in olet loc := get_text loc in olet hs := get_pairs hs in
        olet tm := get_opt get_text tm in olet l := get_list_of get_step steps in
        let i := mkInput c d cm ex loc hs [] tm [] in
        olet x := get_ext i ext in
        Some (VL [VL (map put_res (model_calls_x x l)); VL (map put_res (spec_singles_x x l));
                  vbool (history_ok (model_calls_x x l) (spec_singles_x x l))])
    | _ => None
    end).
