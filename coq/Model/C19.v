(* C19 -- HTTPException.prepare / __call__ (src/pyramid/httpexceptions.py) with the
   string.Template, webob.html_escape, json.dumps and UTF-8 encoding it relies on.
   Executable definitions only. *)
From Coq Require Import List NArith ZArith Bool.
Import ListNotations.
Require Import Verif.Lib.Wire Verif.Lib.Utf8 Verif.Gen.Facts_C19.
Open Scope N_scope.

(* ------------------------------------------------------------------ string.Template
   The pattern (Python 3.12) is: DOLLAR followed by one of
     escaped = DOLLAR | named = ID | braced = LBRACE ID RBRACE | invalid = empty
   with ID = one of [_a-z] then any of [_a-z0-9], ASCII only, under re.IGNORECASE.
   [pattern.sub] scans the template once, left to right; the scanner below is that scan,
   one character per step. *)
Definition is_id_start (c : N) : bool :=
  (c =? 95) || ((65 <=? c) && (c <=? 90)) || ((97 <=? c) && (c <=? 122)).
Definition is_id_char (c : N) : bool := is_id_start c || ((48 <=? c) && (c <=? 57)).

Inductive tok := TChar (c : N) | TDollar | TRef (name : text) | TInvalid.
Inductive mode := MNormal | MDollar | MNamed (acc : text) | MBraced (acc : text).   (* acc reversed *)

Definition is_nil {A} (l : list A) : bool := match l with [] => true | _ => false end.

Fixpoint tokenise_from (m : mode) (s : text) : list tok :=
  match s with
  | [] =>
      match m with
      | MNormal => []
      | MDollar => [TInvalid]
      | MNamed acc => [TRef (rev acc)]
      | MBraced _ => [TInvalid]
      end
  | c :: r =>
      match m with
      | MNormal => if c =? 36 then tokenise_from MDollar r else TChar c :: tokenise_from MNormal r
      | MDollar =>
          if c =? 36 then TDollar :: tokenise_from MNormal r
          else if is_id_start c then tokenise_from (MNamed [c]) r
          else if c =? 123 then tokenise_from (MBraced []) r
          else [TInvalid]
      | MNamed acc =>
          if is_id_char c then tokenise_from (MNamed (c :: acc)) r
          else TRef (rev acc) ::
               (if c =? 36 then tokenise_from MDollar r else TChar c :: tokenise_from MNormal r)
      | MBraced acc =>
          if (if is_nil acc then is_id_start c else is_id_char c) then tokenise_from (MBraced (c :: acc)) r
          else if (c =? 125) && negb (is_nil acc) then TRef (rev acc) :: tokenise_from MNormal r
          else [TInvalid]
      end
  end.
Definition tokenise := tokenise_from MNormal.

Inductive res (A : Type) := Ok (a : A) | KeyErr | ValErr | EncErr.
Arguments Ok {A} a. Arguments KeyErr {A}. Arguments ValErr {A}. Arguments EncErr {A}.
Definition rmap {A B} (f : A -> B) (r : res A) : res B :=
  match r with Ok a => Ok (f a) | KeyErr => KeyErr | ValErr => ValErr | EncErr => EncErr end.
Definition rbind {A B} (r : res A) (f : A -> res B) : res B :=
  match r with Ok a => f a | KeyErr => KeyErr | ValErr => ValErr | EncErr => EncErr end.

(* Python dict with str keys: lookup / assignment (replace in place, else append) *)
Definition env := list (text * text).
Fixpoint lookup (k : text) (e : env) : option text :=
  match e with [] => None | (k', v) :: r => if text_eqb k k' then Some v else lookup k r end.
Fixpoint aset (k v : text) (e : env) : env :=
  match e with
  | [] => [(k, v)]
  | (k', v') :: r => if text_eqb k k' then (k', v) :: r else (k', v') :: aset k v r
  end.

(* convert(mo) for each match, in order; the first failing match raises *)
Fixpoint render (ts : list tok) (e : env) : res text :=
  match ts with
  | [] => Ok []
  | TChar c :: r => rmap (cons c) (render r e)
  | TDollar :: r => rmap (cons 36) (render r e)
  | TRef n :: r => match lookup n e with Some v => rmap (app v) (render r e) | None => KeyErr end
  | TInvalid :: _ => ValErr
  end.
Definition substitute (tmpl : text) (e : env) : res text := render (tokenise tmpl) e.

(* ------------------------------------------------------------------ webob.html_escape on a str:
   html.escape(s, quote=True) then .encode('ascii', 'xmlcharrefreplace') *)
Fixpoint dec_aux (fuel : nat) (n : N) (acc : text) : text :=
  match fuel with
  | O => acc
  | S f => let acc' := (48 + n mod 10) :: acc in
           if n / 10 =? 0 then acc' else dec_aux f (n / 10) acc'
  end.
Definition dec (n : N) : text := dec_aux (S (N.size_nat n)) n [].

Definition ent_amp : text := [38; 97; 109; 112; 59].          (* &amp; *)
Definition ent_lt : text := [38; 108; 116; 59].               (* &lt; *)
Definition ent_gt : text := [38; 103; 116; 59].               (* &gt; *)
Definition ent_quot : text := [38; 113; 117; 111; 116; 59].   (* &quot; *)
Definition ent_apos : text := [38; 35; 120; 50; 55; 59].      (* &#x27; *)
Definition html_escape1 (c : N) : text :=
  if c =? 38 then ent_amp
  else if c =? 60 then ent_lt
  else if c =? 62 then ent_gt
  else if c =? 34 then ent_quot
  else if c =? 39 then ent_apos
  else if c <? 128 then [c]
  else [38; 35] ++ dec c ++ [59].                             (* &#NNN; *)
Definition html_escape (s : text) : text := flat_map html_escape1 s.

Definition esc_apply (f : escfn) (s : text) : text :=
  match f with EscHtml => html_escape s | EscNone => s | EscUnknown => s end.

(* ------------------------------------------------------------------ json.dumps (ensure_ascii) *)
Definition hex1 (d : N) : N := if d <? 10 then 48 + d else 87 + d.
Definition uesc (c : N) : text :=
  [92; 117; hex1 ((c / 4096) mod 16); hex1 ((c / 256) mod 16); hex1 ((c / 16) mod 16); hex1 (c mod 16)].
Definition json_char (c : N) : text :=
  if c =? 34 then [92; 34]
  else if c =? 92 then [92; 92]
  else if c =? 10 then [92; 110]
  else if c =? 13 then [92; 114]
  else if c =? 9 then [92; 116]
  else if c =? 8 then [92; 98]
  else if c =? 12 then [92; 102]
  else if (32 <=? c) && (c <=? 126) then [c]
  else if c <? 65536 then uesc c
  else let n := c - 65536 in uesc (55296 + (n / 1024) mod 1024) ++ uesc (56320 + n mod 1024).
Definition json_string (s : text) : text := 34 :: flat_map json_char s ++ [34].
Definition json_member (kv : text * text) : text := json_string (fst kv) ++ [58; 32] ++ json_string (snd kv).
Fixpoint json_members (l : list (text * text)) : text :=
  match l with
  | [] => []
  | [kv] => json_member kv
  | kv :: r => json_member kv ++ [44; 32] ++ json_members r
  end.
Definition json_object (l : list (text * text)) : text := [123] ++ json_members l ++ [125].

(* ------------------------------------------------------------------ str.encode('UTF-8') *)
Definition utf8_bytes (s : text) : res text :=
  if forallb valid_scalar s then Ok (Utf8.encode s) else EncErr.

(* ------------------------------------------------------------------ prepare *)
Record input := mkInput {
  i_cls : text;
  i_detail : option text;
  i_comment : option text;
  i_expl : option text;            (* instance attribute overriding the class explanation *)
  i_location : text;               (* location= of the redirect classes *)
  i_headers : list (text * text);  (* headers= *)
  i_environ : list (text * text);  (* environ items, str values *)
  i_tmpl : option text;            (* body_template= *)
  i_offers : list text             (* oracle: [o for o, q in accept.acceptable_offers(offers)] *)
}.

(* what prepare() does is fixed by these choices; the model reads them from the regenerated
   facts, the specification fixes them to what the property demands *)
Record policy := mkPolicy {
  p_branches : list branch;
  p_args : list (text * (argsrc * bool));
  p_env_escaped : bool;
  p_hdr_escaped : bool }.

Definition facts_policy : policy := mkPolicy branches args_spec env_escaped hdr_escaped.

Fixpoint find_cls (n : text) (l : list cls) : option cls :=
  match l with [] => None | c :: r => if text_eqb n (c_name c) then Some c else find_cls n r end.

Definition or_empty (o : option text) : text := match o with Some t => t | None => [] end.

Fixpoint pick_branch (m : text) (l : list branch) : option branch :=
  match l with
  | [] => None
  | b :: r => match b_test b with
              | None => Some b
              | Some t => if text_eqb m t then Some b else pick_branch m r
              end
  end.

Definition lower1 (c : N) : N := if (65 <=? c) && (c <=? 90) then c + 32 else c.
Definition lower (s : text) : text := map lower1 s.

Fixpoint startswith (p s : text) : bool :=
  match p, s with
  | [], _ => true
  | x :: p', y :: s' => (x =? y) && startswith p' s'
  | _ :: _, [] => false
  end.

(* (not k.startswith('wsgi.')) and ('.' in k) *)
Definition env_skipped (k : text) : bool := negb (startswith env_skip_prefix k) && memN env_skip_char k.

Definition maybe_esc (f : escfn) (escaped : bool) (s : text) : text := if escaped then esc_apply f s else s.

Definition status_of (c : cls) : text := c_code c ++ [32] ++ c_title c.

(* headers at the time of the loop, restricted to keys a Template identifier can name:
   Content-Type / Content-Length (always present) lower-case to names containing '-' *)
Definition headers_of (c : cls) (i : input) : list (text * text) :=
  (if c_move c then [([76; 111; 99; 97; 116; 105; 111; 110], i_location i)] else []) ++ i_headers i.

Definition arg_value (b : branch) (expl detail comment html_comment : text) (s : argsrc * bool) : text :=
  let f := b_esc b in
  match s with
  | (ABr, e) => maybe_esc f e (b_br b)
  | (AExplanation, e) => maybe_esc f e expl
  | (ADetail, e) => maybe_esc f e detail
  | (AComment, e) => maybe_esc f e comment
  | (AHtmlComment, e) => maybe_esc f e html_comment
  end.

Definition build_args (P : policy) (b : branch) (c : cls) (i : input) (custom : bool) : env :=
  let f := b_esc b in
  let comment := or_empty (i_comment i) in
  let html_comment :=
    if is_nil comment then []
    else b_cpre b ++ maybe_esc f (b_comment_escaped b) comment ++ b_csuf b in
  let expl := match i_expl i with Some x => x | None => c_expl c end in
  let detail := or_empty (i_detail i) in
  let a0 := fold_left (fun (a : env) (ks : text * (argsrc * bool)) =>
                         aset (fst ks) (arg_value b expl detail comment html_comment (snd ks)) a)
                      (p_args P) [] in
  if custom then
    let a1 := fold_left (fun (a : env) (kv : text * text) =>
                           if env_skipped (fst kv) then a
                           else aset (fst kv) (maybe_esc f (p_env_escaped P) (snd kv)) a)
                        (i_environ i) a0 in
    fold_left (fun (a : env) (kv : text * text) =>
                 aset (if hdr_lower then lower (fst kv) else fst kv) (maybe_esc f (p_hdr_escaped P) (snd kv)) a)
              (headers_of c i) a1
  else a0.

Definition k_status : text := [115; 116; 97; 116; 117; 115].
Definition k_body : text := [98; 111; 100; 121].
Definition cs_utf8 : text := [85; 84; 70; 45; 56].

Definition json_value (src : N) (body status title : text) : text :=
  if src =? 0 then body else if src =? 1 then status else title.

Definition page_of (b : branch) (c : cls) (body : text) : res text :=
  let status := status_of c in
  match b_page b with
  | PageHtml => substitute html_template [(k_status, status); (k_body, body)]
  | PagePlain => substitute plain_template [(k_status, status); (k_body, body)]
  | PageJson => Ok (json_object (map (fun ks => (fst ks, json_value (snd ks) body status (c_title c))) json_keys))
  end.

Record output := mkOutput { o_status : text; o_ctype : text; o_charset : text; o_body : text }.

(* page text before encoding (the object of most theorems) *)
Definition page_text (P : policy) (b : branch) (c : cls) (i : input) : res text :=
  let tmpl := match i_tmpl i with Some t => t | None => c_tmpl c end in
  let custom := match i_tmpl i with Some _ => true | None => negb (c_default_tmpl c) end in
  rbind (substitute tmpl (build_args P b c i custom)) (fun body => page_of b c body).

Definition chosen_type (i : input) : text := hd fallback_type (i_offers i ++ [fallback_type]).

Definition prepare (P : policy) (i : input) : option (res output) :=
  match find_cls (i_cls i) classes with
  | None => None
  | Some c =>
      if c_empty c then Some (Ok (mkOutput (status_of c) [] [] []))
      else
        match pick_branch (chosen_type i) (p_branches P) with
        | None => None
        | Some b =>
            Some (rbind (page_text P b c i) (fun page =>
                  rmap (fun bytes => mkOutput (status_of c) (b_ctype b)
                                              (if b_charset_none b then [] else cs_utf8) bytes)
                       (utf8_bytes page)))
        end
  end.

Definition model (i : input) : option (res output) := prepare facts_policy i.

(* ------------------------------------------------------------------ specification
   The property's wording as a policy: in the HTML form every supplied text goes through
   html_escape (comment inside an HTML comment), in the JSON and plain forms it is used as
   is; content type per negotiated form. *)
Definition t_html : text := [116; 101; 120; 116; 47; 104; 116; 109; 108].
Definition t_json : text := [97; 112; 112; 108; 105; 99; 97; 116; 105; 111; 110; 47; 106; 115; 111; 110].
Definition t_plain : text := [116; 101; 120; 116; 47; 112; 108; 97; 105; 110].
Definition s_br_html : text := [60; 98; 114; 47; 62].
Definition s_cpre : text := [60; 33; 45; 45; 32].
Definition s_csuf : text := [32; 45; 45; 62].
Definition s_k_br : text := [98; 114].
Definition s_k_expl : text := [101; 120; 112; 108; 97; 110; 97; 116; 105; 111; 110].
Definition s_k_detail : text := [100; 101; 116; 97; 105; 108].
Definition s_k_comment : text := [99; 111; 109; 109; 101; 110; 116].
Definition s_k_html_comment : text := [104; 116; 109; 108; 95; 99; 111; 109; 109; 101; 110; 116].

Definition spec_policy : policy :=
  mkPolicy
    [ mkBranch (Some t_html) t_html false EscHtml s_br_html s_cpre s_csuf true PageHtml;
      mkBranch (Some t_json) t_json true EscNone [10] [] [] true PageJson;
      mkBranch None t_plain false EscNone [10] [] [] true PagePlain ]
    [ (s_k_br, (ABr, false)); (s_k_expl, (AExplanation, true)); (s_k_detail, (ADetail, true));
      (s_k_comment, (AComment, true)); (s_k_html_comment, (AHtmlComment, false)) ]
    true true.

Definition spec (i : input) : option (res output) := prepare spec_policy i.

(* best acceptable of HTML, JSON, plain: the first offer the negotiation kept, else plain *)
Definition spec_type (i : input) : text :=
  match i_offers i with o :: _ => o | [] => t_plain end.

(* ------------------------------------------------------------------ reference JSON reader
   (for the statement "the body is valid JSON whose message is the text"): an object of
   string members, strings with the escapes of RFC 8259, \uD8xx\uDCxx pairs combined. *)
Definition unhex1 (c : N) : option N :=
  if (48 <=? c) && (c <=? 57) then Some (c - 48)
  else if (97 <=? c) && (c <=? 102) then Some (c - 87)
  else if (65 <=? c) && (c <=? 70) then Some (c - 55)
  else None.
Definition unhex4 (a b c d : N) : option N :=
  match unhex1 a, unhex1 b, unhex1 c, unhex1 d with
  | Some x, Some y, Some z, Some w => Some (x * 4096 + y * 256 + z * 16 + w)
  | _, _, _, _ => None
  end.

(* reads the characters of a string after the opening quote; returns (decoded, rest after closing quote) *)
Definition is_hi (c : N) : bool := (55296 <=? c) && (c <=? 56319).
Definition is_lo (c : N) : bool := (56320 <=? c) && (c <=? 57343).
Definition simple_escape (e : N) : option N :=
  if e =? 34 then Some 34 else if e =? 92 then Some 92 else if e =? 47 then Some 47
  else if e =? 110 then Some 10 else if e =? 114 then Some 13 else if e =? 116 then Some 9
  else if e =? 98 then Some 8 else if e =? 102 then Some 12 else None.
(* \uXXXX at the head of [s] *)
Definition read_u (s : text) : option (N * text) :=
  match s with
  | b0 :: u :: a :: b :: c :: d :: r =>
      if (b0 =? 92) && (u =? 117) then
        match unhex4 a b c d with Some n => Some (n, r) | None => None end
      else None
  | _ => None
  end.

Fixpoint json_read_chars (fuel : nat) (s : text) : option (text * text) :=
  match fuel with
  | O => None
  | S f =>
      let put c r := match json_read_chars f r with Some (t, r') => Some (c :: t, r') | None => None end in
      match s with
      | [] => None
      | c :: r =>
          if c =? 34 then Some ([], r)
          else if c =? 92 then
            match r with
            | [] => None
            | e :: r1 =>
                if e =? 117 then
                  match read_u s with
                  | None => None
                  | Some (hi, r2) =>
                      if is_hi hi then
                        match read_u r2 with
                        | Some (lo, r3) =>
                            if is_lo lo then put (65536 + (hi - 55296) * 1024 + (lo - 56320)) r3
                            else put hi r2
                        | None => put hi r2
                        end
                      else put hi r2
                  end
                else match simple_escape e with Some x => put x r1 | None => None end
            end
          else if c <? 32 then None
          else put c r
      end
  end.

Definition json_read_string (s : text) : option (text * text) :=
  match s with 34 :: r => json_read_chars (S (length r)) r | _ => None end.

Fixpoint skip_ws (s : text) : text :=
  match s with c :: r => if (c =? 32) || (c =? 10) || (c =? 13) || (c =? 9) then skip_ws r else s | [] => [] end.

(* members after '{' (at least one) *)
Fixpoint json_read_members (fuel : nat) (s : text) : option (list (text * text)) :=
  match fuel with
  | O => None
  | S f =>
      match json_read_string (skip_ws s) with
      | None => None
      | Some (k, r) =>
          match skip_ws r with
          | 58 :: r1 =>
              match json_read_string (skip_ws r1) with
              | None => None
              | Some (v, r2) =>
                  match skip_ws r2 with
                  | 44 :: r3 => match json_read_members f r3 with Some l => Some ((k, v) :: l) | None => None end
                  | 125 :: r3 => if is_nil (skip_ws r3) then Some [(k, v)] else None
                  | _ => None
                  end
              end
          | _ => None
          end
      end
  end.

Definition json_read_object (s : text) : option (list (text * text)) :=
  match skip_ws s with 123 :: r => json_read_members (S (length r)) r | _ => None end.

(* ------------------------------------------------------------------ wire glue *)
Definition get_pair (v : val) : option (text * text) :=
  match v with VL [VT a; VT b] => Some (a, b) | _ => None end.
Definition get_pairs := get_list_of get_pair.

Definition put_res (r : option (res output)) : val :=
  match r with
  | None => bad
  | Some (Ok o) => VL [VI 1; VT (o_status o); VT (o_ctype o); VT (o_charset o); VT (o_body o)]
  | Some KeyErr => VL [VI 0; VT [75; 101; 121; 69; 114; 114; 111; 114]]                       (* KeyError *)
  | Some ValErr => VL [VI 0; VT [86; 97; 108; 117; 101; 69; 114; 114; 111; 114]]              (* ValueError *)
  | Some EncErr => VL [VI 0; VT [85; 110; 105; 99; 111; 100; 101; 69; 110; 99; 111; 100; 101; 69; 114; 114; 111; 114]]
  end.

(* ------------------------------------------------------------------ one exception object called several times
   Object state across calls: prepare() renders only while [not self.has_body]; a successful
   render stores the page in body/app_iter and the content type / charset in the headers, and
   every later prepare() is a no-op, so Response.__call__ sends the stored headers and body
   again whatever the new environ says.  A call that raised leaves has_body false (WebOb
   re-adds the default charset when the next branch sets a text content type: validated by the
   correspondence run).  has_body is false for an empty stored body. *)
Definition step := (list (text * text) * list text)%type.     (* environ and negotiation result of one call *)
Definition with_call (i : input) (s : step) : input :=
  mkInput (i_cls i) (i_detail i) (i_comment i) (i_expl i) (i_location i) (i_headers i) (fst s) (i_tmpl i) (snd s).

Definition stored (x : option (res output)) : option output :=
  match x with
  | Some (Ok o) => if is_nil (o_body o) then None else Some o
  | _ => None
  end.

Fixpoint calls (P : policy) (i : input) (done : option output) (l : list step) : list (option (res output)) :=
  match l with
  | [] => []
  | s :: r =>
      match done with
      | Some o => Some (Ok o) :: calls P i done r
      | None => let x := prepare P (with_call i s) in x :: calls P i (stored x) r
      end
  end.

Definition model_calls (i : input) (l : list step) := calls facts_policy i None l.
(* what a fresh object would answer to each call on its own *)
Definition spec_singles (i : input) (l : list step) := map (fun s => prepare spec_policy (with_call i s)) l.

(* the property on a history, as a check of observed responses [rs] against [spec_singles]:
   every rendered response is, content type, charset and body together, the specified
   rendering of one of the calls made so far; a call may fail only if its own rendering is
   not specified (error) *)
Definition out_eqb (a b : output) : bool :=
  text_eqb (o_status a) (o_status b) && text_eqb (o_ctype a) (o_ctype b) &&
  text_eqb (o_charset a) (o_charset b) && text_eqb (o_body a) (o_body b).
Definition is_ok_out (x : option (res output)) (o : output) : bool :=
  match x with Some (Ok o') => out_eqb o o' | _ => false end.
Fixpoint history_ok_from (seen : list (option (res output))) (rs singles : list (option (res output))) : bool :=
  match rs, singles with
  | [], [] => true
  | r :: rs', s :: singles' =>
      let seen' := s :: seen in
      (match r with
       | Some (Ok o) => existsb (fun x => is_ok_out x o) seen'
       | _ => match s with Some (Ok _) => false | _ => true end
       end) && history_ok_from seen' rs' singles'
  | _, _ => false
  end.
Definition history_ok (rs singles : list (option (res output))) : bool := history_ok_from [] rs singles.

Definition get_step (v : val) : option step :=
  match v with VL [e; o] => olet e := get_pairs e in olet o := get_texts o in Some (e, o) | _ => None end.

(* case = [cls; detail?; comment?; explanation?; location; headers; environ; body_template?; offers]
   answer = [model; spec; spec_type]
   history case = [cls; detail?; comment?; explanation?; location; headers; body_template?; [[environ; offers] ...]]
   answer = [model responses; single-call specifications; model history satisfies history_ok] *)
Definition run_C19 (v : val) : val :=
  ret_or_bad (
    match v with
    | VL [c; d; cm; ex; loc; hs; en; tm; ofs] =>
        olet c := get_text c in olet d := get_opt get_text d in olet cm := get_opt get_text cm in
        olet ex := get_opt get_text ex in olet loc := get_text loc in olet hs := get_pairs hs in
        olet en := get_pairs en in olet tm := get_opt get_text tm in olet ofs := get_texts ofs in
        let i := mkInput c d cm ex loc hs en tm ofs in
        Some (VL [put_res (model i); put_res (spec i); VT (spec_type i)])
    | VL [c; d; cm; ex; loc; hs; tm; steps] =>
        olet c := get_text c in olet d := get_opt get_text d in olet cm := get_opt get_text cm in
        olet ex := get_opt get_text ex in olet loc := get_text loc in olet hs := get_pairs hs in
        olet tm := get_opt get_text tm in olet l := get_list_of get_step steps in
        let i := mkInput c d cm ex loc hs [] tm [] in
        Some (VL [VL (map put_res (model_calls i l)); VL (map put_res (spec_singles i l));
                  vbool (history_ok (model_calls i l) (spec_singles i l))])
    | _ => None
    end).
