Require Import Verif.Model.C17 Verif.Model.C17_glue.
Require Extraction.
Require Import ExtrOcamlBasic.
Definition run := run_C17x.
Extraction "C17_model.ml" run.
