Require Import Verif.Model.C17.
Require Extraction.
Require Import ExtrOcamlBasic.
Definition run := run_C17.
Extraction "C17_model.ml" run.
