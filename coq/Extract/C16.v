Require Import Verif.Model.C16.
Require Extraction.
Require Import ExtrOcamlBasic.
Definition run := run_C16.
Extraction "C16_model.ml" run.
