Require Import Verif.Model.C13.
Require Extraction.
Require Import ExtrOcamlBasic.
Definition run := run_C13.
Extraction "C13_model.ml" run.
