Require Import Verif.Model.C20.
Require Extraction.
Require Import ExtrOcamlBasic.
Definition run := run_C20.
Extraction "C20_model.ml" run.
