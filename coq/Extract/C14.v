Require Import Verif.Model.C14.
Require Extraction.
Require Import ExtrOcamlBasic.
Definition run := run_C14.
Extraction "C14_model.ml" run.
