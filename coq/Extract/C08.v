Require Import Verif.Model.C08.
Require Extraction.
Require Import ExtrOcamlBasic.
Definition run := run_C08.
Extraction "C08_model.ml" run.
