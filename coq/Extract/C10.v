Require Import Verif.Model.C10.
Require Extraction.
Require Import ExtrOcamlBasic.
Definition run := run_C10.
Extraction "C10_model.ml" run.
