Require Import Verif.Model.C06.
Require Extraction.
Require Import ExtrOcamlBasic.
Definition run := run_C06.
Extraction "C06_model.ml" run.
