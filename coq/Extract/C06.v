Require Import Verif.Model.C06 Verif.Gen.Code_C06.
Require Extraction.
Require Import ExtrOcamlBasic.
(* the history stream is answered by the generator translated from the source (= the reference model:
   Proofs/C06_gen.v, run_generated_is_model) *)
Definition run := run_C06_g gen_generator.
Extraction "C06_model.ml" run.
