Require Import Verif.Model.C05.
Require Extraction.
Require Import ExtrOcamlBasic.
Definition run := run_C05.
Extraction "C05_model.ml" run.
