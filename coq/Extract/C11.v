Require Import Verif.Model.C11.
Require Extraction.
Require Import ExtrOcamlBasic.
Definition run := run_C11.
Extraction "C11_model.ml" run.
