Require Import Verif.Model.C07.
Require Extraction.
Require Import ExtrOcamlBasic.
Definition run := run_C07.
Extraction "C07_model.ml" run.
