Require Import Verif.Model.C02.
Require Extraction.
Require Import ExtrOcamlBasic.
Definition run := run_C02.
Extraction "C02_model.ml" run.
