Require Import Verif.Model.C01.
Require Extraction.
Require Import ExtrOcamlBasic.
Definition run := run_C01.
Extraction "C01_model.ml" run.
