Require Import Verif.Model.C01 Verif.Gen.Prog_C01.
Require Extraction.
Require Import ExtrOcamlBasic.
(* the runner answers with the program REGENERATED from the source on this run *)
Definition run := run_C01_y (mkPcalls gen_param_call gen_header_call gen_xhr_call gen_method_call) gen_connect gen_call gen_nest_prefix gen_prefix_pattern gen_legacy_pattern gen_get_routes gen_has_routes gen_get_route.
Extraction "C01_model.ml" run.
