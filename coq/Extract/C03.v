Require Import Verif.Model.C03.
Require Extraction.
Require Import ExtrOcamlBasic.
Definition run := run_C03i.
Extraction "C03_model.ml" run.
