Require Import Verif.Model.C03_run.
Require Extraction.
Require Import ExtrOcamlBasic.
Definition run := run_C03g.
Extraction "C03_model.ml" run.
