Require Import Verif.Model.C12.
Require Extraction.
Require Import ExtrOcamlBasic.
Definition run := run_C12.
Extraction "C12_model.ml" run.
