Require Import Verif.Model.C09.
Require Extraction.
Require Import ExtrOcamlBasic.
Definition run := run_C09.
Extraction "C09_model.ml" run.
