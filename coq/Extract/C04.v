Require Import Verif.Model.C04.
Require Extraction.
Require Import ExtrOcamlBasic.
Definition run := run_C04.
Extraction "C04_model.ml" run.
