Require Import Verif.Model.C19.
Require Extraction.
Require Import ExtrOcamlBasic.
Definition run := run_C19.
Extraction "C19_model.ml" run.
