Require Import Verif.Model.C18.
Require Extraction.
Require Import ExtrOcamlBasic.
Definition run := run_C18.
Extraction "C18_model.ml" run.
