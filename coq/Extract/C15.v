Require Import Verif.Model.C15.
Require Extraction.
Require Import ExtrOcamlBasic.
Definition run := run_C15.
Extraction "C15_model.ml" run.
