(* C09 -- property theorems only. *)
From Coq Require Import List NArith ZArith Bool.
Import ListNotations.
Require Import Verif.Lib.Wire Verif.Lib.C09Base Verif.Gen.Facts_C09 Verif.Model.C09 Verif.Proofs.C09.

Theorem C09_forget_deletes : forall c r st,
  step (fun _ _ => []) (fun _ => O) (fun _ => 63%N) c r st OForget
  = (mkSt (reissued st) true (callbacks st), OutHdr (Some (get_cookies c r None None))).
Proof. exact forget_deletes. Qed.
Print Assumptions C09_forget_deletes.
