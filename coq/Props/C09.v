(* C09 -- property theorems only.  Each is closed by [exact] of a lemma proved in
   Proofs/C09*.v; Print Assumptions beneath each.  H (hexdigest), dsz (digest size) and
   uni (Unicode digit/space map of int()) are universally quantified oracles. *)
From Coq Require Import List NArith ZArith Bool.
Import ListNotations.
Require Import Verif.Lib.Wire Verif.Lib.Text Verif.Lib.Utf8 Verif.Lib.C09Base Verif.Gen.Facts_C09 Verif.Model.C09 Verif.Proofs.C09 Verif.Proofs.C09_rt Verif.Proofs.C09_more Verif.Proofs.C09_gen Verif.Proofs.C09_w5 Verif.Lib.Percent Verif.Lib.C09Scalar Verif.Proofs.C09_w6 Verif.Proofs.C09_cb.

(* "no cookie at all is accepted unless its digest field is exactly the keyed digest of its
   other fields": for EVERY cookie text, configuration, address and clock *)
Theorem C09_accept_implies_digest : forall H dsz uni c r ck0 ts u toks ud,
  (forall a x, forallb valid_scalar (H a x) = true) -> forallb valid_scalar ck0 = true ->
  cookie r = Some ck0 ->
  identify_pre H dsz uni c r = ISome ts u toks ud ->
  digest_ok H dsz uni c r ck0 = true.
Proof. exact accept_implies_digest. Qed.
Print Assumptions C09_accept_implies_digest.

(* an accepted identity is read off the cookie's own fields (same-fields-same-identity, and any
   other identity needs the keyed digest of other fields), inside the timeout window *)
Theorem C09_accept_fields : forall H dsz uni c r ck0 ts u toks ud,
  cookie r = Some ck0 ->
  identify_pre H dsz uni c r = ISome ts u toks ud ->
  exists ip d uid tk,
    eff_ip c r = Some ip /\ parse_fields dsz uni (hashalg c) ck0 = FOk d ts uid tk ud
    /\ toks = Text.split_on comma tk
    /\ encode d = encode (calculate_digest H (hashalg c) ip ts (secret c) uid tk ud)
    /\ decode_userid uni (Text.split_on pipe ud) (VStr uid) = Some u
    /\ timed_out c ts (now2 r) = false.
Proof. exact accept_fields. Qed.
Print Assumptions C09_accept_fields.

(* "identification never raises and yields nothing" for every cookie that is not validly signed
   (edited, truncated, other secret / algorithm / address, garbage), in any request state *)
Theorem C09_identify_total : forall H dsz uni c r st ck0,
  (forall a x, forallb valid_scalar (H a x) = true) -> forallb valid_scalar ck0 = true ->
  cookie r = Some ck0 -> digest_ok H dsz uni c r ck0 = false ->
  snd (identify H dsz uni c r st) = INone /\ fst (identify H dsz uni c r st) = st.
Proof. exact identify_total. Qed.
Print Assumptions C09_identify_total.

Theorem C09_identify_no_cookie : forall H dsz uni c r st,
  cookie r = None -> identify H dsz uni c r st = (st, INone).
Proof. exact identify_no_cookie. Qed.
Print Assumptions C09_identify_no_cookie.

(* reissue: over every sequence of identify / remember / forget in one request *)
Theorem C09_reissue_once : forall H dsz uni c r ops,
  response_cookies (fst (run_ops H dsz uni c r st0 ops)) = spec_response H dsz uni c r ops.
Proof. exact reissue_once. Qed.
Print Assumptions C09_reissue_once.

Theorem C09_reissued_ticket_is_fresh : forall H dsz uni c r hs,
  spec_reissue_ticket H dsz uni c r = Some hs ->
  exists ts u tk ud rt, identify_pre H dsz uni c r = ISome ts u tk ud /\ reissue_time c = Some rt
    /\ cmp_eval reissue_cmp (now2 r - 2 * ts) (2 * rt) = true
    /\ remember H c (later r) u (max_age c) (filter nonempty tk) = Some hs.
Proof. exact reissued_ticket_is_fresh. Qed.
Print Assumptions C09_reissued_ticket_is_fresh.

(* issued cookies carry the configured name, path, domain variant, max-age, Secure, HttpOnly, SameSite *)
Theorem C09_cookie_attributes_remember : forall H c r u ma toks hs k,
  remember H c r u ma toks = Some hs -> In k hs ->
  attrs_ok c r ma k = true /\ exists v, ck_value k = Some v.
Proof. exact cookie_attributes_remember. Qed.
Print Assumptions C09_cookie_attributes_remember.

Theorem C09_cookie_attributes_forget : forall H dsz uni c r st k hs,
  snd (step H dsz uni c r st OForget) = OutHdr (Some hs) -> In k hs ->
  attrs_ok c r None k = true /\ ck_value k = None.
Proof. exact cookie_attributes_forget. Qed.
Print Assumptions C09_cookie_attributes_forget.

(* what was issued parses back: for every encoded user id (ASCII, as all three encoders produce), valid
   token list, address, secret, algorithm and issue time below 2^32.  Premises on the hash oracle:
   its output has the digest length and does not start with the quote character (it is hex). *)
Theorem C09_ticket_roundtrip : forall H dsz uni alg ip t sec enc toks ud,
  (forall a x, length (H a x) = (dsz a * digest_mult)%nat) ->
  (forall a x, exists c r, H a x = c :: r /\ c <> strip_ch) ->
  (t < 4294967296)%N -> is_ascii enc = true ->
  Forall (fun tk => valid_token tk = true) toks ->
  ud <> [] -> ~ In bang ud -> last ud 0%N <> strip_ch ->
  parse_ticket H dsz uni sec (cookie_value H alg ip t sec enc toks ud) ip alg
  = POk (Z.of_N t) enc (match toks with [] => [[]] | _ => toks end) ud.
Proof. exact ticket_roundtrip. Qed.
Print Assumptions C09_ticket_roundtrip.

(* a ticket issued by remember() and presented to a helper with the same secret, algorithm and effective
   address yields exactly the issued identity -- user-id TYPE preserved (int / text / bytes) -- iff
   now' <= issue + timeout (or no timeout is configured), and nothing afterwards *)
Theorem C09_identify_roundtrip : forall H dsz uni c r r' u ma toks hs k v,
  (forall a x, length (H a x) = (dsz a * digest_mult)%nat) ->
  (forall a x, exists c r, H a x = c :: r /\ c <> strip_ch) ->
  (0 <= now r < 4294967296)%Z -> uval_ok u ->
  remember H c r u ma toks = Some hs -> In k hs -> ck_value k = Some v ->
  cookie r' = Some v -> eff_ip c r' = eff_ip c r ->
  identify_pre H dsz uni c r' =
  match spec_issued_identity c (Z.to_N (now r)) u (match toks with [] => [[]] | _ => toks end) (now2 r') with
  | Some (ts, u', tk) => ISome ts u' tk (userid_typename ++ tag_of u)
  | None => INone
  end.
Proof. exact identify_roundtrip. Qed.
Print Assumptions C09_identify_roundtrip.

(* clock arguments are twice the clock value: accepted at issue + timeout, rejected at + 0.5 and + 1 *)
Theorem C09_identify_boundary : forall c t0 u toks t,
  timeout c = Some t -> (0 < t)%Z ->
  spec_issued_identity c t0 u toks (2 * (Z.of_N t0 + t)) = Some (Z.of_N t0, u, toks)
  /\ spec_issued_identity c t0 u toks (2 * (Z.of_N t0 + t) + 1) = None
  /\ spec_issued_identity c t0 u toks (2 * (Z.of_N t0 + t + 1)) = None.
Proof. exact identify_boundary. Qed.
Print Assumptions C09_identify_boundary.

(* an edit that leaves the parsed fields unchanged (re-cased timestamp digits, %41 for A, added quotes,
   lenient timestamp spellings) yields the same answer; any other accepted cookie carries the keyed digest
   of its own fields *)
Theorem C09_edit_same_or_nothing : forall H dsz uni c r ck ck',
  (parse_fields dsz uni (hashalg c) ck' = parse_fields dsz uni (hashalg c) ck ->
   identify_pre H dsz uni c (with_cookie r ck') = identify_pre H dsz uni c (with_cookie r ck))
  /\ ((forall a x, forallb valid_scalar (H a x) = true) -> forallb valid_scalar ck' = true ->
      identify_pre H dsz uni c (with_cookie r ck') <> INone ->
      digest_ok H dsz uni c (with_cookie r ck') ck' = true).
Proof. exact edit_same_or_nothing. Qed.
Print Assumptions C09_edit_same_or_nothing.

(* issued under another secret, algorithm (same digest length) or address: accepted only on a collision
   of the keyed digests of the same fields *)
Theorem C09_wrong_secret_alg_ip : forall H dsz uni alg ip sec alg' ip' sec' t enc toks ud,
  (forall a x, length (H a x) = (dsz a * digest_mult)%nat) ->
  (forall a x, exists c r, H a x = c :: r /\ c <> strip_ch) ->
  (forall a x, forallb valid_scalar (H a x) = true) ->
  (t < 4294967296)%N -> is_ascii enc = true ->
  Forall (fun tk => valid_token tk = true) toks ->
  ud <> [] -> ~ In bang ud -> last ud 0%N <> strip_ch ->
  dsz alg' = dsz alg ->
  parse_ticket H dsz uni sec' (cookie_value H alg ip t sec enc toks ud) ip' alg' <> PBad ->
  calculate_digest H alg' ip' (Z.of_N t) sec' enc (joined toks) ud
  = calculate_digest H alg ip (Z.of_N t) sec enc (joined toks) ud.
Proof. exact wrong_secret_alg_ip. Qed.
Print Assumptions C09_wrong_secret_alg_ip.

(* the image of remember(): no ticket this helper issues, for any caller-supplied user id / tokens /
   max_age, can make identify() raise -- in any request state, at any later clock *)
Theorem C09_issued_ticket_never_raises : forall H dsz uni c r r' u ma toks hs k v st,
  (forall a x, length (H a x) = (dsz a * digest_mult)%nat) ->
  (forall a x, exists c r, H a x = c :: r /\ c <> strip_ch) ->
  (0 <= now r < 4294967296)%Z -> wf_uval u ->
  remember H c r u ma toks = Some hs -> In k hs -> ck_value k = Some v ->
  cookie r' = Some v -> eff_ip c r' = eff_ip c r ->
  snd (identify H dsz uni c r' st) <> IRaise.
Proof. exact issued_ticket_never_raises. Qed.
Print Assumptions C09_issued_ticket_never_raises.

(* the hash-oracle protocol of the correspondence run: run_ops (and identify_pre, used for the fed-back
   cookies) consult H only at the queries listed through msgs_op / msgs_identify *)
Theorem C09_oracle_complete : forall H H' dsz uni c r ops st,
  (forall m, In m (flat_map (msgs_op H dsz uni c r) ops) ->
   forall q, In q (queries_of H (hashalg c) (secret c) m) -> H (fst q) (snd q) = H' (fst q) (snd q)) ->
  run_ops H dsz uni c r st ops = run_ops H' dsz uni c r st ops.
Proof. exact oracle_complete. Qed.
Print Assumptions C09_oracle_complete.

Theorem C09_oracle_complete_identify : forall H H' dsz uni c r,
  (forall m, In m (msgs_identify dsz uni c r) ->
   forall q, In q (queries_of H (hashalg c) (secret c) m) -> H (fst q) (snd q) = H' (fst q) (snd q)) ->
  identify_pre H dsz uni c r = identify_pre H' dsz uni c r.
Proof. exact identify_pre_agree. Qed.
Print Assumptions C09_oracle_complete_identify.

(* ======================================================================================================
   The program REGENERATED from src/pyramid/authentication.py on this run (Gen/Facts_C09.v, written by
   harness/c09/translate.py) is the reference model, function by function, for all inputs. *)
Theorem C09_generated_encode_ip_timestamp_is_model : forall ip ts,
  gen_encode_ip_timestamp ip ts = ip4_parts ip ++ ts_bytes ts.
Proof. exact gen_encode_ip_timestamp_is_model. Qed.
Print Assumptions C09_generated_encode_ip_timestamp_is_model.

Theorem C09_generated_calculate_digest_is_model : forall H ip ts sec u tk ud alg,
  gen_calculate_digest H ip ts sec u tk ud alg = calculate_digest H alg ip ts sec u tk ud.
Proof. exact gen_calculate_digest_is_model. Qed.
Print Assumptions C09_generated_calculate_digest_is_model.

Theorem C09_generated_cookie_value_is_model : forall H alg ip t sec u toks ud,
  gen_ticket_cookie_value H alg ip t sec u toks ud = cookie_value H alg ip t sec u toks ud.
Proof. exact gen_cookie_value_is_model. Qed.
Print Assumptions C09_generated_cookie_value_is_model.

Theorem C09_generated_parse_ticket_is_model : forall H dsz uni sec ticket ip alg,
  gen_parse_ticket H dsz uni sec ticket ip alg = parse_ticket H dsz uni sec ticket ip alg.
Proof. exact gen_parse_ticket_is_model. Qed.
Print Assumptions C09_generated_parse_ticket_is_model.

Theorem C09_generated_get_cookies_is_model : forall c r value ma,
  gen_get_cookies c r value ma = get_cookies c r value ma.
Proof. exact gen_get_cookies_is_model. Qed.
Print Assumptions C09_generated_get_cookies_is_model.

(* remember() may be handed an object of any type: a str / int / bytes (UKnown) goes through its table entry, anything
   else (UOther: bool, float, None, SUBCLASSES of str / int / bytes -- the lookup is by exact type) is str()-converted
   and stored as text; uarg_val is that conversion *)
Theorem C09_generated_remember_is_model : forall H c r st a ma toks,
  gen_remember H c r st a ma toks = remember_result st (remember H c r (uarg_val a) ma toks).
Proof. exact gen_remember_is_model. Qed.
Print Assumptions C09_generated_remember_is_model.

Theorem C09_generated_identify_is_model : forall H dsz uni c r st,
  gen_identify H dsz uni c r st = identify H dsz uni c r st.
Proof. exact gen_identify_is_model. Qed.
Print Assumptions C09_generated_identify_is_model.

Theorem C09_generated_run_is_model : forall H dsz uni c r ops st,
  gen_run_ops H dsz uni c r st ops = run_ops H dsz uni c r st (map op_of ops).
Proof. exact gen_run_ops_is_model. Qed.
Print Assumptions C09_generated_run_is_model.

(* the property theorems, literally about the regenerated program *)
Theorem C09_accept_implies_digest_generated : forall H dsz uni c r st ck0 ts u toks ud,
  (forall a x, forallb valid_scalar (H a x) = true) -> forallb valid_scalar ck0 = true ->
  cookie r = Some ck0 ->
  snd (gen_identify H dsz uni c r st) = ISome ts u toks ud ->
  digest_ok H dsz uni c r ck0 = true.
Proof. exact gen_accept_implies_digest. Qed.
Print Assumptions C09_accept_implies_digest_generated.

Theorem C09_identify_total_generated : forall H dsz uni c r st ck0,
  (forall a x, forallb valid_scalar (H a x) = true) -> forallb valid_scalar ck0 = true ->
  cookie r = Some ck0 -> digest_ok H dsz uni c r ck0 = false ->
  gen_identify H dsz uni c r st = (st, INone).
Proof. exact gen_identify_total. Qed.
Print Assumptions C09_identify_total_generated.

Theorem C09_reissue_once_generated : forall H dsz uni c r ops,
  response_cookies (fst (gen_run_ops H dsz uni c r st0 ops)) = spec_response H dsz uni c r (map op_of ops).
Proof. exact gen_reissue_once. Qed.
Print Assumptions C09_reissue_once_generated.

Theorem C09_ticket_roundtrip_generated : forall H dsz uni alg ip t sec enc toks ud,
  (forall a x, length (H a x) = (dsz a * digest_mult)%nat) ->
  (forall a x, exists c r, H a x = c :: r /\ c <> strip_ch) ->
  (t < 4294967296)%N -> is_ascii enc = true ->
  Forall (fun tk => valid_token tk = true) toks ->
  ud <> [] -> ~ In bang ud -> last ud 0%N <> strip_ch ->
  gen_parse_ticket H dsz uni sec (gen_ticket_cookie_value H alg ip t sec enc toks ud) ip alg
  = POk (Z.of_N t) enc (match toks with [] => [[]] | _ => toks end) ud.
Proof. exact gen_ticket_roundtrip. Qed.
Print Assumptions C09_ticket_roundtrip_generated.

Theorem C09_issued_ticket_never_raises_generated : forall H dsz uni c r r' a ma toks st1 st1' hs k v st,
  (forall a x, length (H a x) = (dsz a * digest_mult)%nat) ->
  (forall a x, exists c r, H a x = c :: r /\ c <> strip_ch) ->
  (0 <= now r < 4294967296)%Z -> wf_uval (uarg_val a) ->
  gen_remember H c r st1 a ma toks = (st1', Some hs) -> In k hs -> ck_value k = Some v ->
  cookie r' = Some v -> eff_ip c r' = eff_ip c r ->
  snd (gen_identify H dsz uni c r' st) <> IRaise.
Proof. exact gen_issued_ticket_never_raises. Qed.
Print Assumptions C09_issued_ticket_never_raises_generated.

Theorem C09_cookie_attributes_generated : forall H c r st a ma toks st' hs k,
  gen_remember H c r st a ma toks = (st', Some hs) -> In k hs ->
  attrs_ok c r ma k = true /\ exists v, ck_value k = Some v.
Proof. exact gen_cookie_attributes. Qed.
Print Assumptions C09_cookie_attributes_generated.

(* two helpers (different secret / algorithm / address binding / cookie name) consulted for ONE request, any
   interleaving of their identify / remember / forget calls: a helper accepts only what carries ITS keyed digest.
   History independence of acceptance -- no answer of one helper can be reused by the other. *)
Theorem C09_two_helpers_accept_implies_digest : forall H dsz uni c0 r0 c1 r1 ops st,
  (forall a x, forallb valid_scalar (H a x) = true) ->
  (forall ck0, cookie r0 = Some ck0 -> forallb valid_scalar ck0 = true) ->
  (forall ck0, cookie r1 = Some ck0 -> forallb valid_scalar ck0 = true) ->
  Forall2 (fun (bo : bool * op) x => if fst bo then answer_ok H dsz uni c1 r1 x else answer_ok H dsz uni c0 r0 x)
          ops (snd (run_ops2 H dsz uni c0 r0 c1 r1 st ops)).
Proof. exact (fun H dsz uni c0 r0 c1 r1 ops st => two_helpers_accept_implies_digest H dsz uni c0 r0 c1 r1 ops st). Qed.
Print Assumptions C09_two_helpers_accept_implies_digest.

Theorem C09_two_helpers_accept_implies_digest_generated : forall H dsz uni pol c0 r0 c1 r1 ops st,
  (forall a x, forallb valid_scalar (H a x) = true) ->
  (forall ck0, cookie r0 = Some ck0 -> forallb valid_scalar ck0 = true) ->
  (forall ck0, cookie r1 = Some ck0 -> forallb valid_scalar ck0 = true) ->
  Forall2 (fun (bo : bool * op) x => if fst bo then answer_ok H dsz uni c1 r1 x else answer_ok H dsz uni c0 r0 x)
          (map op2_of ops) (snd (gen_run_ops2 H dsz uni pol c0 r0 c1 r1 st ops)).
Proof. exact gen_two_helpers_accept_implies_digest. Qed.
Print Assumptions C09_two_helpers_accept_implies_digest_generated.

Theorem C09_run_ops2_single : forall H dsz uni c0 r0 c1 r1 ops st,
  run_ops2 H dsz uni c0 r0 c1 r1 st (map (fun o => (false, o)) ops) = run_ops H dsz uni c0 r0 st ops.
Proof. exact (fun H dsz uni c0 r0 c1 r1 ops st => run_ops2_single H dsz uni c0 r0 c1 r1 ops st). Qed.
Print Assumptions C09_run_ops2_single.

(* [pol]: the first helper is driven through AuthTktAuthenticationPolicy (its remember / forget) -- no difference *)
Theorem C09_generated_run2_is_model : forall H dsz uni pol c0 r0 c1 r1 ops st,
  gen_run_ops2 H dsz uni pol c0 r0 c1 r1 st ops = run_ops2 H dsz uni c0 r0 c1 r1 st (map op2_of ops).
Proof. exact gen_run_ops2_is_model. Qed.
Print Assumptions C09_generated_run2_is_model.

Theorem C09_oracle_complete2 : forall H H' dsz uni c0 r0 c1 r1 ops st,
  agree_all H H' c0 (flat_map (fun bo : bool * op => if fst bo then [] else msgs_op H dsz uni c0 r0 (snd bo)) ops) ->
  agree_all H H' c1 (flat_map (fun bo : bool * op => if fst bo then msgs_op H dsz uni c1 r1 (snd bo) else []) ops) ->
  run_ops2 H dsz uni c0 r0 c1 r1 st ops = run_ops2 H' dsz uni c0 r0 c1 r1 st ops.
Proof. exact (fun H H' dsz uni c0 r0 c1 r1 ops st => oracle_complete2 H H' dsz uni c0 r0 c1 r1 ops st). Qed.
Print Assumptions C09_oracle_complete2.

(* ======================================================================================================
   Fifth round.  (1) "one fresh, VALID ticket": the ticket the automatic reissue attaches identifies, at any later request
   of the same client, as the identity the reissuing request was identified as (user-id type preserved, empty tokens
   dropped), stamped by the later clock reading, as long as now <= that stamp + timeout. *)
Theorem C09_reissued_ticket_valid : forall H dsz uni c r r2 hs k v,
  (forall a x, length (H a x) = (dsz a * digest_mult)%nat) ->
  (forall a x, exists c r, H a x = c :: r /\ c <> strip_ch) ->
  spec_reissue_ticket H dsz uni c r = Some hs -> In k hs -> ck_value k = Some v ->
  (0 <= now (later r) < 4294967296)%Z ->
  cookie r2 = Some v -> eff_ip c r2 = eff_ip c r ->
  exists ts u tk ud,
    identify_pre H dsz uni c r = ISome ts u tk ud /\
    (uval_ok u ->
     identify_pre H dsz uni c r2 =
     match spec_issued_identity c (Z.to_N (now (later r))) u (shown_tokens (filter nonempty tk)) (now2 r2) with
     | Some (ts', u', tk') => ISome ts' u' tk' (userid_typename ++ tag_of u)
     | None => INone
     end).
Proof. exact reissued_ticket_valid. Qed.
Print Assumptions C09_reissued_ticket_valid.

(* the whole chain for a ticket this helper issued: remember -> presented when older than reissue_time -> the attached
   ticket presented again: the same user id (type preserved) and tokens, timestamp = the later clock reading *)
Theorem C09_issued_reissue_chain : forall H dsz uni c r0 u ma toks hs0 k0 v0 r1 hs1 k1 v1 r2,
  (forall a x, length (H a x) = (dsz a * digest_mult)%nat) ->
  (forall a x, exists c r, H a x = c :: r /\ c <> strip_ch) ->
  (0 <= now r0 < 4294967296)%Z -> wf_uval u ->
  remember H c r0 u ma toks = Some hs0 -> In k0 hs0 -> ck_value k0 = Some v0 ->
  cookie r1 = Some v0 -> eff_ip c r1 = eff_ip c r0 ->
  spec_reissue_ticket H dsz uni c r1 = Some hs1 -> In k1 hs1 -> ck_value k1 = Some v1 ->
  (0 <= now (later r1) < 4294967296)%Z ->
  cookie r2 = Some v1 -> eff_ip c r2 = eff_ip c r1 ->
  identify_pre H dsz uni c r2 =
  match spec_issued_identity c (Z.to_N (now (later r1))) u (shown_tokens toks) (now2 r2) with
  | Some (ts', u', tk') => ISome ts' u' tk' (userid_typename ++ tag_of u)
  | None => INone
  end.
Proof. exact issued_reissue_chain. Qed.
Print Assumptions C09_issued_reissue_chain.

(* (2) construction, regenerated from AuthTktCookieHelper.__init__ / AuthTktAuthenticationPolicy.__init__: every keyword
   reaches the attribute of its name, the CookieProfile gets (name, secure, max_age, httponly, path, samesite), the policy
   hands every keyword to the helper, and the literal defaults of both signatures are the documented ones *)
Theorem C09_generated_helper_init_is_model : forall s n se ii to ri ma ho pa wd al pd dm ss,
  gen_helper_init s n se ii to ri ma ho pa wd al pd dm ss
  = (helper_cfg s n se ii to ri ma ho pa wd al pd dm ss, profile_of (helper_cfg s n se ii to ri ma ho pa wd al pd dm ss)).
Proof. exact gen_helper_init_is_model. Qed.
Print Assumptions C09_generated_helper_init_is_model.

Theorem C09_generated_policy_init_is_model : forall s n se ii to ri ma pa ho wd al pd dm ss,
  gen_policy_init s n se ii to ri ma pa ho wd al pd dm ss
  = (helper_cfg s n se ii to ri ma ho pa wd al pd dm ss, profile_of (helper_cfg s n se ii to ri ma ho pa wd al pd dm ss)).
Proof. exact gen_policy_init_is_model. Qed.
Print Assumptions C09_generated_policy_init_is_model.

Theorem C09_generated_defaults_are_documented : forall s,
  gen_helper_defaults s = (default_cfg s, profile_of (default_cfg s))
  /\ gen_policy_defaults s = (default_cfg s, profile_of (default_cfg s)).
Proof. exact gen_defaults_are_documented. Qed.
Print Assumptions C09_generated_defaults_are_documented.

(* the helper a caller ends up with: the configuration asked for, omitted keywords = documented defaults; in particular
   omitting a keyword whose value is the documented default changes nothing *)
Theorem C09_construct_is_model : forall pol omit c,
  construct pol omit c = pick omit c (default_cfg (secret c)).
Proof. exact construct_is_model. Qed.
Print Assumptions C09_construct_is_model.

Theorem C09_construct_omitting_defaults : forall pol omit c,
  mask_ok omit (default_eqs c) = true -> construct pol omit c = c.
Proof. exact construct_omitting_defaults. Qed.
Print Assumptions C09_construct_omitting_defaults.

(* (3) the policy wrapper, regenerated: unauthenticated_userid is the user id of the helper's identify (same request
   state change), remember / forget are the helper's *)
Theorem C09_generated_policy_userid_is_model : forall H dsz uni c r st,
  gen_policy_userid H dsz uni c r st = (fst (identify H dsz uni c r st), ures_of (snd (identify H dsz uni c r st))).
Proof. exact gen_policy_userid_is_model. Qed.
Print Assumptions C09_generated_policy_userid_is_model.

Theorem C09_generated_policy_remember_forget : forall H c r st a ma toks,
  gen_policy_remember H c r st a ma toks = gen_remember H c r st a ma toks
  /\ gen_policy_forget c r st = gen_forget c r st.
Proof. exact (fun H c r st a ma toks => conj (gen_policy_remember_is_helper H c r st a ma toks) (gen_policy_forget_is_helper c r st)). Qed.
Print Assumptions C09_generated_policy_remember_forget.

Theorem C09_policy_accept_implies_digest : forall H dsz uni c r st ck0 u,
  (forall a x, forallb valid_scalar (H a x) = true) -> forallb valid_scalar ck0 = true ->
  cookie r = Some ck0 ->
  snd (gen_policy_userid H dsz uni c r st) = USome u ->
  digest_ok H dsz uni c r ck0 = true.
Proof. exact gen_policy_accept_implies_digest. Qed.
Print Assumptions C09_policy_accept_implies_digest.

Theorem C09_policy_total : forall H dsz uni c r st ck0,
  (forall a x, forallb valid_scalar (H a x) = true) -> forallb valid_scalar ck0 = true ->
  cookie r = Some ck0 -> digest_ok H dsz uni c r ck0 = false ->
  gen_policy_userid H dsz uni c r st = (st, UNone).
Proof. exact gen_policy_total. Qed.
Print Assumptions C09_policy_total.

(* ======================================================================================================
   Sixth round.  (1) The identity of EVERY accepted cookie -- also one signed through AuthTicket directly with foreign
   contents -- is well formed (text of Unicode scalar values, bytes below 256): the decoders cannot produce anything else. *)
Theorem C09_accepted_identity_wellformed : forall H dsz uni c r ck0 ts u tk ud,
  forallb valid_scalar ck0 = true -> cookie r = Some ck0 ->
  identify_pre H dsz uni c r = ISome ts u tk ud -> uval_ok u.
Proof. exact accepted_identity_wellformed. Qed.
Print Assumptions C09_accepted_identity_wellformed.

(* hence "one fresh, VALID ticket" with no premise on the identity (the fifth round's statement carried uval_ok u) *)
Theorem C09_reissued_ticket_valid_any : forall H dsz uni c r ck0 r2 hs k v,
  (forall a x, length (H a x) = (dsz a * digest_mult)%nat) ->
  (forall a x, exists c r, H a x = c :: r /\ c <> strip_ch) ->
  forallb valid_scalar ck0 = true -> cookie r = Some ck0 ->
  spec_reissue_ticket H dsz uni c r = Some hs -> In k hs -> ck_value k = Some v ->
  (0 <= now (later r) < 4294967296)%Z ->
  cookie r2 = Some v -> eff_ip c r2 = eff_ip c r ->
  exists ts u tk ud,
    identify_pre H dsz uni c r = ISome ts u tk ud /\
    identify_pre H dsz uni c r2 =
    match spec_issued_identity c (Z.to_N (now (later r))) u (shown_tokens (filter nonempty tk)) (now2 r2) with
    | Some (ts', u', tk') => ISome ts' u' tk' (userid_typename ++ tag_of u)
    | None => INone
    end.
Proof. exact reissued_ticket_valid_any. Qed.
Print Assumptions C09_reissued_ticket_valid_any.

(* (2) urllib's unquote(quote(s)) = s for EVERY str of scalar values, and with it the ticket round trip for every user-id
   text (AuthTicket used directly with a non-ASCII user id), not only for the ASCII the three encoders emit *)
Theorem C09_unquote_quote_scalar : forall safe s,
  is_ascii safe = true -> is_safe safe 37 = false -> forallb valid_scalar s = true ->
  unquote_str (quote_str safe s) = s.
Proof. exact unquote_quote_str_scalar. Qed.
Print Assumptions C09_unquote_quote_scalar.

Theorem C09_ticket_roundtrip_scalar : forall H dsz uni alg ip t sec enc toks ud,
  (forall a x, length (H a x) = (dsz a * digest_mult)%nat) ->
  (forall a x, exists c r, H a x = c :: r /\ c <> strip_ch) ->
  (t < 4294967296)%N -> forallb valid_scalar enc = true ->
  Forall (fun tk => valid_token tk = true) toks ->
  ud <> [] -> ~ In bang ud -> last ud 0%N <> strip_ch ->
  parse_ticket H dsz uni sec (cookie_value H alg ip t sec enc toks ud) ip alg
  = POk (Z.of_N t) enc (shown_tokens toks) ud.
Proof. exact ticket_roundtrip_scalar. Qed.
Print Assumptions C09_ticket_roundtrip_scalar.

(* (3) over the REGENERATED VALID_TOKEN classes: no token remember() accepts contains the separator ',' or '!' (or is
   empty), so the joined token field splits back into exactly the issued tokens and cannot end the field early *)
Theorem C09_valid_token_no_separator : forall t,
  valid_token t = true -> ~ In comma t /\ ~ In bang t /\ t <> [].
Proof. exact valid_token_no_separator. Qed.
Print Assumptions C09_valid_token_no_separator.

Theorem C09_tokens_split_back : forall toks,
  toks <> [] -> Forall (fun tk => valid_token tk = true) toks ->
  Text.split_on comma (Text.join [comma] toks) = toks /\ ~ In bang (Text.join [comma] toks).
Proof. exact tokens_split_back. Qed.
Print Assumptions C09_tokens_split_back.

(* (4) forget() / remember() issued from APPLICATION response callbacks.  Pyramid runs response callbacks in registration
   order, so that is the order of the Set-Cookie headers.  run_cbs is _process_response_callbacks over identify's reissue
   callbacks (CbReissue) and application callbacks (CbApp); run_ops3 is a request with operations and registrations. *)
Theorem C09_generated_callbacks_is_model : forall H dsz uni pol c0 r0 c1 r1 ops st cbs,
  gen_run_ops3 H dsz uni pol c0 r0 c1 r1 st cbs ops = run_ops3 H dsz uni c0 r0 c1 r1 st cbs ops
  /\ gen_run_cbs H dsz uni pol c0 r0 st cbs = run_cbs H dsz uni c0 r0 st cbs.
Proof. exact (fun H dsz uni pol c0 r0 c1 r1 ops st cbs =>
  conj (gen_run_ops3_is_model H dsz uni pol c0 r0 c1 r1 ops st cbs) (gen_run_cbs_is_model H dsz uni pol c0 r0 cbs st)). Qed.
Print Assumptions C09_generated_callbacks_is_model.

(* "until forget": when an application callback forgets the user (or re-remembers one and the call goes through), its
   headers are the LAST ones on the response -- whatever ran before, whatever reissue callbacks follow, in any request state *)
Theorem C09_explicit_callback_is_final : forall H dsz uni c r o pre post st,
  is_explicit H c r (op_of o) = true -> forallb is_reissue_cb post = true ->
  run_cbs H dsz uni c r st (pre ++ CbApp o :: post)
  = run_cbs H dsz uni c r st pre ++ hdrs_of (snd (step H dsz uni c r st0 (op_of o))).
Proof. exact explicit_callback_is_final. Qed.
Print Assumptions C09_explicit_callback_is_final.

Theorem C09_forget_callback_first_suppresses_reissue : forall H dsz uni c r st post,
  forallb is_reissue_cb post = true ->
  run_cbs H dsz uni c r st (CbApp GForget :: post) = get_cookies c r None None.
Proof. exact forget_callback_first_suppresses_reissue. Qed.
Print Assumptions C09_forget_callback_first_suppresses_reissue.

(* without application callbacks the new runner gives the response of C09_reissue_once *)
Theorem C09_response_no_registration : forall H dsz uni c r ops,
  let gops := map (fun o => (false, XOp (match o with OIdentify => GIdentify
                                         | ORemember u ma toks => GRemember (UKnown u) ma toks | OForget => GForget end))) ops in
  let '(st, cbs, _) := run_ops3 H dsz uni c r c r st0 [] gops in
  run_cbs H dsz uni c r st cbs = spec_response H dsz uni c r ops.
Proof. exact response_no_registration. Qed.
Print Assumptions C09_response_no_registration.

(* Seventh round: LEGACY tickets ('userid_type:unicode', what earlier releases of this helper issued for text user ids and
   what the decoder table keeps an entry for).  spec_legacy_unicode is what the property demands of a validly signed one: the
   text user id inside the timeout window, nothing after.  What identify() does depends on the regenerated decoder table:
   with the original entry `lambda x: utf_8_decode(x)[0]` (DUtf8) it RAISES -- the property is refuted on that tree --,
   with the repaired entry `lambda x: x if isinstance(x, str) else utf_8_decode(x)[0]` (DUtf8Text) it meets the spec. *)
Theorem C09_legacy_unicode_identify : forall H dsz uni c r x,
  spec_legacy_unicode H dsz uni c r = Some x ->
  match lookup_text unicode_tag decoders with
  | Some DUtf8Text => identify_pre H dsz uni c r = x
  | Some DUtf8 => identify_pre H dsz uni c r = match x with INone => INone | _ => IRaise end
  | _ => True
  end.
Proof. exact legacy_unicode_identify. Qed.
Print Assumptions C09_legacy_unicode_identify.

(* ======================================================================================================
   Proof-only round: end-to-end compositions. *)
Require Import Verif.Proofs.C09_e2e Verif.Proofs.C09_forge.

(* through the public entry points: a helper / policy CONSTRUCTED from keyword arguments (omitted ones equal to the documented
   defaults), remember() through the policy (any object as user id), the cookie presented later from the same effective
   address, unauthenticated_userid() through the policy, in ANY state of the presenting request (automatic reissue included):
   exactly the remembered user id (type preserved; str(x) for an object outside the table) while now <= issue + timeout,
   None afterwards, never a raise.  Composition of C09_construct_omitting_defaults, C09_generated_policy_*,
   C09_identify_roundtrip and C09_issued_ticket_never_raises. *)
Theorem C09_policy_end_to_end : forall H dsz uni pol omit c r r' a ma toks st st' hs k v st2,
  (forall a x, length (H a x) = (dsz a * digest_mult)%nat) ->
  (forall a x, exists c r, H a x = c :: r /\ c <> strip_ch) ->
  mask_ok omit (default_eqs c) = true ->
  (0 <= now r < 4294967296)%Z -> wf_uval (uarg_val a) ->
  gen_policy_remember H (construct pol omit c) r st a ma toks = (st', Some hs) -> In k hs -> ck_value k = Some v ->
  cookie r' = Some v -> eff_ip c r' = eff_ip c r ->
  snd (gen_policy_userid H dsz uni (construct pol omit c) r' st2) =
  match spec_issued_identity c (Z.to_N (now r)) (uarg_val a) (shown_tokens toks) (now2 r') with
  | Some _ => USome (uarg_val a)
  | None => UNone
  end.
Proof. exact policy_end_to_end. Qed.
Print Assumptions C09_policy_end_to_end.

(* "never a different user id or token set", without any cryptographic assumption: a cookie the helper ACCEPTS that carries the
   digest field of a ticket the helper ISSUED is that ticket as far as identification can see (timestamp, typed user id, tokens,
   user_data), or else it exhibits a COLLISION of the keyed double digest on two different field tuples *)
Theorem C09_accepted_is_issued_or_collision : forall H dsz uni c r0 u0 ma toks hs k v r ck' ts u tk ud,
  (forall a x, length (H a x) = (dsz a * digest_mult)%nat) ->
  (forall a x, exists c r, H a x = c :: r /\ c <> strip_ch) ->
  (forall a x, forallb valid_scalar (H a x) = true) ->
  (0 <= now r0 < 4294967296)%Z -> wf_uval u0 ->
  remember H c r0 u0 ma toks = Some hs -> In k hs -> ck_value k = Some v ->
  cookie r = Some ck' -> forallb valid_scalar ck' = true -> eff_ip c r = eff_ip c r0 ->
  identify_pre H dsz uni c r = ISome ts u tk ud ->
  digest_field dsz uni (hashalg c) ck' = digest_field dsz uni (hashalg c) v ->
  (ts = now r0 /\ u = u0 /\ tk = shown_tokens toks /\ ud = userid_typename ++ tag_of u0)
  \/ exists ip enc uid tkf,
       eff_ip c r = Some ip /\ encode_userid u0 = Some (tag_of u0, enc) /\
       (ts, uid, tkf, ud) <> (now r0, enc, joined toks, userid_typename ++ tag_of u0) /\
       calculate_digest H (hashalg c) ip ts (secret c) uid tkf ud
       = calculate_digest H (hashalg c) ip (now r0) (secret c) enc (joined toks) (userid_typename ++ tag_of u0).
Proof. exact accepted_is_issued_or_collision. Qed.
Print Assumptions C09_accepted_is_issued_or_collision.

(* ======================================================================================================
   Third proof-only round: the cookie-attribute clause end to end, from the constructor keywords (helper or policy, omitted
   keywords equal to the documented defaults) to EVERY Set-Cookie of the request. *)
Require Import Verif.Proofs.C09_attrs.

(* the headers remember() / forget() return, called on the helper or through the policy, in any request state: the configured
   name, path, domain variant, Secure, HttpOnly, SameSite; Max-Age = the call's max_age or else the configured one; a value for
   remember, the deletion (no value) for forget *)
Theorem C09_returned_headers_attrs : forall H dsz uni pol omit c r st o hs k,
  mask_ok omit (default_eqs c) = true ->
  snd (any_step H dsz uni pol (construct pol omit c) r st o) = OutHdr (Some hs) ->
  In k hs ->
  attrs_ok c r (call_max_age o) k = true
  /\ (match o with GForget => ck_value k = None | _ => exists v, ck_value k = Some v end).
Proof. exact returned_headers_attrs. Qed.
Print Assumptions C09_returned_headers_attrs.

(* the ticket the automatic reissue attaches to the response, after any sequence of operations: same attributes, the
   configured max_age, and it carries a value *)
Theorem C09_reissued_cookie_attrs : forall H dsz uni pol omit c r ops k,
  mask_ok omit (default_eqs c) = true ->
  In k (response_cookies (fst (gen_run_ops H dsz uni (construct pol omit c) r st0 ops))) ->
  attrs_ok c r (max_age c) k = true /\ exists v, ck_value k = Some v.
Proof. exact reissued_cookie_attrs. Qed.
Print Assumptions C09_reissued_cookie_attrs.
