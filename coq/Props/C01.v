(* C01 -- property theorems only.  Each is closed by [exact] of a lemma proved
   in Proofs/C01.v; Print Assumptions beneath each.  [match_pat], [dispatch],
   [parse_pattern] are instantiated with the facts regenerated from the current
   source (anchor suffix, remainder group, default placeholder regex). *)
From Coq Require Import List NArith Bool Permutation Sorting.Sorted.
Import ListNotations.
Require Import Verif.Lib.Wire Verif.Lib.Text Verif.Lib.PathNorm Verif.Lib.Utf8 Verif.Gen.Facts_C01 Verif.Model.C01 Verif.Proofs.C01
  Verif.Proofs.C01_b Verif.Gen.Prog_C01 Verif.Proofs.C01_gen Verif.Proofs.C01_x.
Local Close Scope N_scope.
Local Open Scope nat_scope.

(* the regenerated literals are the ones the model and the theorems were written for:
   module regexes, named-group format, no re flags, anchor \Z, remainder (?s:.*?), default [^/]+ *)
Theorem C01_facts_ok : facts_ok = true.
Proof. exact facts_ok_true. Qed.
Print Assumptions C01_facts_ok.

(* the compiled matcher (greedy backtracking over the placeholders, lazy remainder,
   anchor) is the head of the longest-first enumeration of all decompositions of the
   WHOLE path: this is the executable specification the implementation is judged by *)
Theorem C01_match_spec : forall O p s, match_pat O p s = spec_match O p s.
Proof. exact match_spec. Qed.
Print Assumptions C01_match_spec.

(* what the enumeration contains: exactly the capture lists whose rendering is the
   whole text and whose captures lie in their placeholder's language *)
Theorem C01_all_decs_char : forall O st its s caps,
  In caps (all_decs O st its s) <-> s = render its caps /\ caps_ok O st its caps = true.
Proof. exact all_decs_char. Qed.
Print Assumptions C01_all_decs_char.

(* a match covers the whole decoded path, every capture is in its language, and the
   dictionary is built from exactly those captures *)
Theorem C01_match_whole : forall O p s d,
  match_pat O p s = Some d ->
  exists caps, d = mk_dict (items p) (star p) caps /\ s = render (items p) caps
               /\ caps_ok O (star p) (items p) caps = true.
Proof. exact match_whole. Qed.
Print Assumptions C01_match_whole.

(* every text that can be cut along the pattern is matched *)
Theorem C01_match_complete : forall O p caps,
  caps_ok O (star p) (items p) caps = true -> match_pat O p (render (items p) caps) <> None.
Proof. exact match_complete. Qed.
Print Assumptions C01_match_complete.

(* greedy placeholder splitting: among all decompositions of the path the one returned
   is the longest-first one (lexicographic in the capture lengths, pattern order) *)
Theorem C01_match_greedy : forall O p s caps caps',
  mi (kend the_anchor the_dotall (star p)) O (items p) s = Some caps ->
  s = render (items p) caps' -> caps_ok O (star p) (items p) caps' = true -> lex_ge caps caps'.
Proof. exact match_greedy. Qed.
Print Assumptions C01_match_greedy.

(* whatever the anchor and the remainder group are ('$' and '.*?' in the unrepaired
   source): on newline-free paths the matcher is the strict one.  The full statement
   C01_match_whole is refuted for '$' by Example match_whole_refuted (Proofs/C01.v). *)
Theorem C01_match_whole_partial : forall a b O p s,
  ~ In c_nl s -> match_pat_with a b O p s = match_pat_with EndZ true O p s.
Proof. exact match_whole_partial. Qed.
Print Assumptions C01_match_whole_partial.

(* the default placeholder regex of the current source means: one non-empty run without '/' *)
Theorem C01_default_hole_one_segment : forall O v,
  (exists h, parse_reg default_hole_regex = Some h /\ hole_ok O h v = true) <-> v <> [] /\ ~ In 47%N v.
Proof. exact default_hole_one_segment. Qed.
Print Assumptions C01_default_hole_one_segment.

(* keys = placeholder names in order (+ remainder name); values = the captured text,
   the remainder as normalised segments *)
Theorem C01_matchdict_exact : forall O st its caps,
  caps_ok O st its caps = true ->
  map fst (mk_dict its st caps) = hole_names its ++ match st with Some n => [n] | None => [] end
  /\ map snd (mk_dict its st caps) = dict_vals st caps.
Proof. exact mk_dict_char. Qed.
Print Assumptions C01_matchdict_exact.

(* RoutesMapper.__call__: the first route in list order whose pattern matches and whose
   predicates all hold (for any matcher, any route list) *)
Theorem C01_dispatch_first : forall mt method rs path r d,
  fst (dispatch_with mt method rs path) = Some (r, d) <->
  exists pre post, rs = pre ++ r :: post
    /\ Forall (fun r' => qual mt method path r' = false) pre
    /\ mt (r_pat r) path = Some d /\ forallb (pred_ok method d) (r_preds r) = true.
Proof. exact dispatch_first. Qed.
Print Assumptions C01_dispatch_first.

Theorem C01_dispatch_none : forall mt method rs path,
  fst (dispatch_with mt method rs path) = None <-> Forall (fun r => qual mt method path r = false) rs.
Proof. exact dispatch_none. Qed.
Print Assumptions C01_dispatch_none.

Theorem C01_dispatch_spec : forall O method rs path,
  fst (dispatch O method rs path) = spec_dispatch O method rs path.
Proof. exact dispatch_spec. Qed.
Print Assumptions C01_dispatch_spec.

Theorem C01_trace_only_matched : forall mt method rs path i n,
  In (i, n) (snd (dispatch_with mt method rs path)) ->
  exists r, In r rs /\ r_id r = i /\ mt (r_pat r) path <> None.
Proof. exact trace_only_matched. Qed.
Print Assumptions C01_trace_only_matched.

Theorem C01_invalid_utf8_refused : forall O m method raw,
  Utf8.decode raw = None -> dispatch_request O m method (Some raw) = (ODecodeError, []).
Proof. exact invalid_utf8_refused. Qed.
Print Assumptions C01_invalid_utf8_refused.

Theorem C01_valid_path_dispatched : forall O m method raw t,
  Utf8.decode raw = Some t ->
  fst (dispatch_request O m method (Some raw)) =
  match spec_dispatch O method (routelist m) (match t with [] => path_default | _ => t end) with
  | Some (r, d) => OMatch r d
  | None => ONone
  end.
Proof. exact valid_path_dispatched. Qed.
Print Assumptions C01_valid_path_dispatched.

(* a literal piece of a pattern matches only itself *)
Theorem C01_lit_is_literal : forall O l s, match_pat O (mkPat [Lit l] None) s = Some [] <-> s = l.
Proof. exact lit_is_literal. Qed.
Print Assumptions C01_lit_is_literal.

(* RoutesMapper.connect folded over declarations that all compile: every connect succeeds and
   routelist is "the last declaration of each name, at its (later) place, static ones left out" *)
Theorem C01_connect_last_wins : forall O ds m sts,
  Forall (parses O) ds -> connect_all O empty_mapper 0 ds = (m, sts) ->
  Forall (fun s => s = Ok tt) sts
  /\ routelist m = map (mkr O) (filter nonstatic (last_wins (number 0 ds))).
Proof. exact connect_last_wins. Qed.
Print Assumptions C01_connect_last_wins.

(* end to end: declarations (all compiling) + raw PATH_INFO: the mapper's answer is the one
   the declarative specification gives (first qualifying route in declaration order with
   last-wins names, none, or decode error) *)
Theorem C01_request_spec : forall O ds method raw m sts,
  all_ok O ds = true -> connect_all O empty_mapper 0 ds = (m, sts) ->
  Forall (fun s => s = Ok tt) sts
  /\ spec_request O ds method raw =
     match fst (dispatch_request O m method raw) with
     | ODecodeError => SDecodeError
     | OMatch r d => SMatch r d
     | ONone => SNone
     | OConfigError => SNothing
     end.
Proof. exact request_spec. Qed.
Print Assumptions C01_request_spec.

(* ---- second round *)
(* RoutesMapper.connect folded over ANY declarations, for any parse function: a connect call
   answers Ok exactly when its pattern compiles, and routelist holds, in order, the routes of
   the declarations that compile, are not static and are the last declaration of their name
   (a later declaration of the name removes the route even when it does not compile) *)
Theorem C01_connect_last_wins_general : forall parse ds m sts,
  connect_all_with parse empty_mapper 0 ds = (m, sts) ->
  map is_ok sts = map (parses_b parse) (number 0 ds)
  /\ routelist m = map (mkr_w parse) (filter (good parse) (last_wins (number 0 ds))).
Proof. exact connect_last_wins_general. Qed.
Print Assumptions C01_connect_last_wins_general.

(* end to end without "every declaration compiles" (only: none is outside the sublanguage) *)
Theorem C01_request_spec_general : forall O ds method raw m sts,
  sup_with (parse_core O (Some spec_default_hole)) ds = true ->
  connect_all O empty_mapper 0 ds = (m, sts) ->
  spec_request_g O ds method raw =
  match fst (dispatch_request O m method raw) with
  | ODecodeError => SDecodeError
  | OMatch r d => SMatch r d
  | ONone => SNone
  | OConfigError => SNothing
  end.
Proof. exact request_spec_general. Qed.
Print Assumptions C01_request_spec_general.

(* multi-atom placeholder regexes: the matcher (per-atom greedy backtracking, entries of one
   placeholder concatenated) is the head of the longest-first enumeration over the atoms *)
Theorem C01_match_spec_m : forall O p s, match_pat_m O p s = spec_match_m O p s.
Proof. exact match_spec_m. Qed.
Print Assumptions C01_match_spec_m.

(* what ./check runs: multi-atom parser + mapper = the declarative specification *)
Theorem C01_request_spec_m : forall O ds method raw m sts,
  sup_with (spec_parse_m O) ds = true ->
  connect_all_with (parse_pattern_m O) empty_mapper 0 ds = (m, sts) ->
  spec_request_m O ds method raw =
  match fst (dispatch_request_with (match_pat_m O) m method raw) with
  | ODecodeError => SDecodeError
  | OMatch r d => SMatch r d
  | ONone => SNone
  | OConfigError => SNothing
  end.
Proof. exact request_spec_m. Qed.
Print Assumptions C01_request_spec_m.

(* route_re finds something exactly when the text contains a well-formed {..} placeholder *)
Theorem C01_has_brace_iff : forall s,
  has_brace s = true <->
  exists pre body rest, s = pre ++ c_lbrace :: body ++ c_rbrace :: rest /\ body_ok body = true.
Proof. exact has_brace_iff. Qed.
Print Assumptions C01_has_brace_iff.

(* parser soundness: what a successfully parsed pattern denotes *)
Theorem C01_parse_core_sound : forall O dflt src p,
  parse_core O dflt src = Ok p ->
  exists r3 rem pieces,
    ((normalise O src = r3 /\ rem = [])
     \/ (normalise O src = r3 ++ c_star :: rem /\ ~ In c_star rem /\ word_then_end O rem = true))
    /\ star p = match rem with [] => None | _ => Some rem end
    /\ match rem with [] => True | _ => name_check rem = Ok tt end
    /\ flat_map piece_src pieces = r3 /\ Forall piece_wf pieces
    /\ pieces_items dflt pieces (items p)
    /\ has_dup (pat_names p) = false.
Proof. exact parse_core_sound. Qed.
Print Assumptions C01_parse_core_sound.

(* printing round trip for canonical patterns *)
Theorem C01_print_parse_roundtrip : forall O p,
  canonical p -> parse_core O (Some spec_default_hole) (print_pat p) = Ok p.
Proof. exact print_parse_roundtrip. Qed.
Print Assumptions C01_print_parse_roundtrip.

(* ---- third round: histories *)
(* matcher() returns a freshly built dictionary (regenerated fact), hence the model of a history
   of dispatches is the pointwise stateless dispatch: no dispatch depends on earlier ones *)
Theorem C01_history_independent : forall mt m pre1 pre2 s l1 l2,
  hist_outcomes mt m (pre1 ++ [s]) = Some l1 -> hist_outcomes mt m (pre2 ++ [s]) = Some l2 ->
  last l1 ONone = last l2 ONone
  /\ last l1 ONone = fst (dispatch_request_with mt m (snd s) (fst s)).
Proof. exact history_independent. Qed.
Print Assumptions C01_history_independent.

Theorem C01_history_spec_m : forall O ds steps m sts l,
  sup_with (spec_parse_m O) ds = true ->
  connect_all_with (parse_pattern_m O) empty_mapper 0 ds = (m, sts) ->
  hist_outcomes (match_pat_m O) m steps = Some l ->
  spec_hist (spec_parse_m O) (spec_match_m O) ds steps =
  map (fun o => match o with
                | ODecodeError => SDecodeError | OMatch r d => SMatch r d
                | ONone => SNone | OConfigError => SNothing end) l.
Proof. exact history_spec_m. Qed.
Print Assumptions C01_history_spec_m.

(* ---- fourth round: the program REGENERATED from the source on THIS run (Gen/Prog_C01.v, written by
   harness/c01/translate.py) is the reference model; every theorem with suffix _generated is
   literally about the regenerated program *)
Theorem C01_generated_call_is_model : forall mt m method raw,
  obs_call (gen_call mt m method raw) = obs_call (dispatch_request_with mt m method raw).
Proof. exact gen_call_is_model. Qed.
Print Assumptions C01_generated_call_is_model.

Theorem C01_generated_connect_is_model : forall parse m id d,
  gen_connect parse m id d = connect_with parse m id d.
Proof. exact gen_connect_is_model. Qed.
Print Assumptions C01_generated_connect_is_model.

Theorem C01_generated_route_init_is_model : forall parse id name pattern preds,
  gen_route_init parse id name pattern preds = route_init_model parse id name pattern preds.
Proof. exact gen_route_init_is_model. Qed.
Print Assumptions C01_generated_route_init_is_model.

Theorem C01_generated_split_path_info_is_model : forall p, gen_split_path_info p = split_path_info p.
Proof. exact gen_split_path_info_is_model. Qed.
Print Assumptions C01_generated_split_path_info_is_model.

(* the matcher closure of _compile_route: every call builds its own dictionary from the items
   of m.groupdict(), the remainder split into normalised segments (a function of its arguments:
   no state survives a call) *)
Theorem C01_generated_matcher_is_model : forall groups rem path,
  gen_matcher groups rem path = matcher_model groups rem path.
Proof. exact gen_matcher_is_model. Qed.
Print Assumptions C01_generated_matcher_is_model.

Theorem C01_generated_decode_path_info_is_model : forall p, gen_decode_path_info p = decode_path_info_model p.
Proof. exact gen_decode_path_info_is_model. Qed.
Print Assumptions C01_generated_decode_path_info_is_model.

Theorem C01_request_spec_generated : forall O ds method raw m sts,
  sup_with (spec_parse_m O) ds = true ->
  connect_all_f (gen_connect (parse_pattern_m O)) empty_mapper 0 ds = (m, sts) ->
  spec_request_m O ds method raw = spec_of_outcome (fst (gen_call (match_pat_m O) m method raw)).
Proof. exact gen_request_spec_m. Qed.
Print Assumptions C01_request_spec_generated.

Theorem C01_dispatch_first_generated : forall mt m method raw r d,
  fst (gen_call mt m method raw) = OMatch r d ->
  exists path pre post, request_path raw = RPath path /\ routelist m = pre ++ r :: post
    /\ Forall (fun r' => qual mt method path r' = false) pre
    /\ mt (r_pat r) path = Some d /\ forallb (pred_ok method d) (r_preds r) = true.
Proof. exact gen_dispatch_first. Qed.
Print Assumptions C01_dispatch_first_generated.

Theorem C01_connect_last_wins_generated : forall parse ds m sts,
  connect_all_f (gen_connect parse) empty_mapper 0 ds = (m, sts) ->
  map is_ok sts = map (parses_b parse) (number 0 ds)
  /\ routelist m = map (mkr_w parse) (filter (good parse) (last_wins (number 0 ds))).
Proof. exact gen_connect_last_wins. Qed.
Print Assumptions C01_connect_last_wins_generated.

Theorem C01_invalid_utf8_refused_generated : forall mt m method raw,
  Utf8.decode raw = None -> obs_call (gen_call mt m method (Some raw)) = (ODecodeError, []).
Proof. exact gen_invalid_utf8_refused. Qed.
Print Assumptions C01_invalid_utf8_refused_generated.

Theorem C01_history_spec_generated : forall O ds steps m sts,
  sup_with (spec_parse_m O) ds = true ->
  connect_all_f (gen_connect (parse_pattern_m O)) empty_mapper 0 ds = (m, sts) ->
  spec_hist (spec_parse_m O) (spec_match_m O) ds steps =
  map (fun s => spec_of_outcome (fst (gen_call (match_pat_m O) m (snd s) (fst s)))) steps.
Proof. exact gen_history_spec_m. Qed.
Print Assumptions C01_history_spec_generated.

Theorem C01_split_normal_generated : forall p, Forall normal_seg (gen_split_path_info p).
Proof. exact gen_split_normal. Qed.
Print Assumptions C01_split_normal_generated.

(* ---- fifth round: Configurator.add_route under a route prefix (fragments of config/routes.py) *)
Theorem C01_generated_nest_prefix_is_model : forall old new, gen_nest_prefix old new = nest_prefix_model old new.
Proof. exact gen_nest_prefix_is_model. Qed.
Print Assumptions C01_generated_nest_prefix_is_model.

Theorem C01_generated_prefix_pattern_is_model : forall prefix inherit pattern,
  gen_prefix_pattern prefix inherit pattern = prefix_pattern_model prefix inherit pattern.
Proof. exact gen_prefix_pattern_is_model. Qed.
Print Assumptions C01_generated_prefix_pattern_is_model.

Theorem C01_prefix_keeps_pattern_end_generated : forall pf pattern inherit,
  l_is_nil pf = false -> pattern <> [] ->
  gen_prefix_pattern (Some pf) inherit pattern = rstrip_char 47%N pf ++ 47%N :: lstrip_char 47%N pattern.
Proof. exact prefix_keeps_pattern_end. Qed.
Print Assumptions C01_prefix_keeps_pattern_end_generated.

(* ---- sixth round: the listings of a RoutesMapper are functions of its attributes (the regenerated
   program has no way to change the mapper: it is not threaded through them), so a dispatch
   after any number of listings is the dispatch on the same mapper *)
Theorem C01_generated_get_routes_is_model : forall m b, gen_get_routes m b = get_routes_model m b.
Proof. exact gen_get_routes_is_model. Qed.
Print Assumptions C01_generated_get_routes_is_model.

Theorem C01_generated_has_routes_is_model : forall m, gen_has_routes m = has_routes_model m.
Proof. exact gen_has_routes_is_model. Qed.
Print Assumptions C01_generated_has_routes_is_model.

Theorem C01_generated_get_route_is_model : forall m n, gen_get_route m n = get_route_model m n.
Proof. exact gen_get_route_is_model. Qed.
Print Assumptions C01_generated_get_route_is_model.

(* ---- seventh round: route predicates that are functions of the request (pyramid/predicates.py) *)
(* RequestParamPredicate.__call__ regenerated from the source equals the reference *)
Theorem C01_generated_param_call_is_model : forall reqs ps, gen_param_call reqs ps = param_call_model reqs ps.
Proof. exact gen_param_call_is_model. Qed.
Print Assumptions C01_generated_param_call_is_model.

(* request.params.get(k): the value of the LAST occurrence of the key *)
Theorem C01_params_get_last : forall ps k v,
  params_get ps k = Some v <->
  exists pre post, ps = pre ++ (k, v) :: post /\ Forall (fun kv => fst kv <> k) post.
Proof. exact params_get_last. Qed.
Print Assumptions C01_params_get_last.

(* the predicate holds iff every required key is present and every required value -- the empty
   one included -- is the parameter's value *)
Theorem C01_param_call_spec : forall reqs ps,
  gen_param_call reqs ps = true <->
  Forall (fun kv => exists a, params_get ps (fst kv) = Some a /\ (snd kv = None \/ snd kv = Some a)) reqs.
Proof. exact gen_param_call_spec. Qed.
Print Assumptions C01_param_call_spec.

(* how RequestParamPredicate.__init__ reads one value *)
Theorem C01_param_parse_bare : forall p, ~ In c_eq p -> param_parse p = (p, None).
Proof. exact param_parse_bare. Qed.
Print Assumptions C01_param_parse_bare.

Theorem C01_param_parse_kv : forall k v, k <> [] -> ~ In c_eq k ->
  param_parse (k ++ c_eq :: v) = (strip_ws k, Some (strip_ws v)).
Proof. exact param_parse_kv. Qed.
Print Assumptions C01_param_parse_kv.

Theorem C01_param_parse_eq_key : forall k v, ~ In c_eq k ->
  param_parse (c_eq :: k ++ c_eq :: v) = (strip_ws (c_eq :: k), Some (strip_ws v)).
Proof. exact param_parse_eq_key. Qed.
Print Assumptions C01_param_parse_eq_key.

(* request_param='k=': present AND empty *)
Theorem C01_param_empty_value_required : forall k ps,
  k <> [] -> ~ In c_eq k -> strip_ws k = k ->
  (gen_param_call (param_init_model [k ++ [c_eq]]) ps = true <-> params_get ps k = Some []).
Proof. exact gen_param_empty_value_required. Qed.
Print Assumptions C01_param_empty_value_required.

(* resolving a request predicate against the request gives a predicate with the declarative outcome *)
Theorem C01_xresolve_holds : forall e method d x,
  pred_ok method d (xresolve gen_param_call e x) = xpred_holds e method d x.
Proof. exact gen_xresolve_holds. Qed.
Print Assumptions C01_xresolve_holds.

Theorem C01_xparam_holds_iff : forall e method d neg vs,
  xpred_holds e method d (XParam neg vs) = true <->
  (if neg then ~ Forall (fun kv => exists a, params_get (e_params e) (fst kv) = Some a /\ (snd kv = None \/ snd kv = Some a)) (map param_parse vs)
   else Forall (fun kv => exists a, params_get (e_params e) (fst kv) = Some a /\ (snd kv = None \/ snd kv = Some a)) (map param_parse vs)).
Proof. exact xparam_holds_iff. Qed.
Print Assumptions C01_xparam_holds_iff.

(* end to end with request predicates: declarations resolved on the request, connected and
   dispatched by the REGENERATED program (connect, __call__, the route-prefix fragments,
   RequestParamPredicate.__call__) = the declarative specification on the reference resolution *)
Theorem C01_request_spec_x_generated : forall O e xs method raw m sts,
  let ds := xbuild gen_param_call gen_nest_prefix gen_prefix_pattern xs e in
  sup_with (spec_parse_m O) ds = true ->
  connect_all_f (gen_connect (parse_pattern_m O)) empty_mapper 0 ds = (m, sts) ->
  spec_request_m O (xbuild param_call_model nest_prefix_model prefix_pattern_model xs e) method raw
  = spec_of_outcome (fst (gen_call (match_pat_m O) m method raw)).
Proof. exact gen_request_spec_x. Qed.
Print Assumptions C01_request_spec_x_generated.

Theorem C01_dispatch_first_x_generated : forall O e method raw m r d xps,
  fst (gen_call (match_pat_m O) m method raw) = OMatch r d ->
  r_preds r = map (xresolve param_call_model e) xps ->
  forallb (xpred_holds e method d) xps = true.
Proof. exact gen_dispatch_first_x. Qed.
Print Assumptions C01_dispatch_first_x_generated.

(* traverse= (hybrid routes): the outcome the model reports for such a route is the specified one:
   every captured entry is kept, the key 'traverse' is added only when no placeholder has that name *)
Theorem C01_traverse_fix_is_spec : forall xs o,
  spec_of_outcome (traverse_fix xs o) = spec_traverse_fix xs (spec_of_outcome o).
Proof. exact traverse_fix_is_spec. Qed.
Print Assumptions C01_traverse_fix_is_spec.

Theorem C01_traverse_fix_keeps_captures : forall xs r d r' d' k,
  traverse_fix xs (OMatch r d) = OMatch r' d' ->
  r' = r /\ (forall v, dict_get d k = Some v -> dict_get d' k = Some v).
Proof. exact traverse_fix_keeps_captures. Qed.
Print Assumptions C01_traverse_fix_keeps_captures.

(* ---- eighth round: header= predicates (HeaderPredicate), also given a SEQUENCE of requirements *)
Theorem C01_header_call_spec : forall O reqs hs,
  header_call_model O reqs hs = true <->
  Forall (fun q => exists value, hdr_get hs (fst (fst q)) = Some value /\
            match snd (fst q) with None => True | Some atoms => re_match O atoms value = true end) reqs.
Proof. exact header_call_spec. Qed.
Print Assumptions C01_header_call_spec.

Theorem C01_header_call_order_irrelevant : forall O reqs reqs' hs,
  Permutation reqs reqs' -> header_call_model O reqs hs = header_call_model O reqs' hs.
Proof. exact header_call_order_irrelevant. Qed.
Print Assumptions C01_header_call_order_irrelevant.

Theorem C01_param_call_order_irrelevant : forall reqs reqs' ps,
  Permutation reqs reqs' -> param_call_model reqs ps = param_call_model reqs' ps.
Proof. exact param_call_order_irrelevant. Qed.
Print Assumptions C01_param_call_order_irrelevant.

Theorem C01_header_call_all_required : forall O pre q post hs,
  header_req_ok O hs q = false -> header_call_model O (pre ++ q :: post) hs = false.
Proof. exact header_call_all_required. Qed.
Print Assumptions C01_header_call_all_required.

Theorem C01_hdr_get_key_only : forall hs n n', hdr_key n = hdr_key n' -> hdr_get hs n = hdr_get hs n'.
Proof. exact hdr_get_key_only. Qed.
Print Assumptions C01_hdr_get_key_only.

(* only the mapper's matcher closure and TraversePredicate.__call__ touch the live match dictionary
   (fail-closed scan of the whole package on this run) *)
Theorem C01_matchdict_single_writer : (matchdict_single_writer =? 1)%N = true.
Proof. exact matchdict_single_writer_true. Qed.
Print Assumptions C01_matchdict_single_writer.

Theorem C01_generated_header_call_is_model : forall O reqs hs, gen_header_call O reqs hs = header_call_model O reqs hs.
Proof. exact gen_header_call_is_model. Qed.
Print Assumptions C01_generated_header_call_is_model.

Theorem C01_generated_xhr_call_is_model : forall val xhr, gen_xhr_call val xhr = xhr_call_model val xhr.
Proof. exact gen_xhr_call_is_model. Qed.
Print Assumptions C01_generated_xhr_call_is_model.

Theorem C01_xheader_holds_iff : forall e method d neg vs reqs,
  header_init_model vs = Some reqs ->
  (xpred_holds e method d (XHeader neg vs) = true <->
   (if neg then ~ Forall (fun q => exists value, hdr_get (e_headers e) (fst (fst q)) = Some value /\
            match snd (fst q) with None => True | Some atoms => re_match (e_orc e) atoms value = true end) reqs
    else Forall (fun q => exists value, hdr_get (e_headers e) (fst (fst q)) = Some value /\
            match snd (fst q) with None => True | Some atoms => re_match (e_orc e) atoms value = true end) reqs)).
Proof. exact xheader_holds_iff. Qed.
Print Assumptions C01_xheader_holds_iff.

(* end to end with request_param / header / xhr predicates: declarations resolved on the request
   by the REGENERATED predicate calls, connected and dispatched by the regenerated program = the
   declarative specification on the reference resolution *)
Theorem C01_request_spec_y_generated : forall O e xs method raw m sts,
  let ds := xbuild_h (mkPcalls gen_param_call gen_header_call gen_xhr_call gen_method_call) gen_nest_prefix gen_prefix_pattern xs e in
  sup_with (spec_parse_m O) ds = true ->
  connect_all_f (gen_connect (parse_pattern_m O)) empty_mapper 0 ds = (m, sts) ->
  spec_request_m O (xbuild param_call_model nest_prefix_model prefix_pattern_model xs e) method raw
  = spec_of_outcome (fst (gen_call (match_pat_m O) m method raw)).
Proof. exact gen_request_spec_y. Qed.
Print Assumptions C01_request_spec_y_generated.

(* request_method= (RequestMethodPredicate): __call__ regenerated; GET implies HEAD, nothing else is added *)
Theorem C01_generated_method_call_is_model : forall val method, gen_method_call val method = method_call_model val method.
Proof. exact gen_method_call_is_model. Qed.
Print Assumptions C01_generated_method_call_is_model.

Theorem C01_method_get_implies_head : forall vals,
  mem_text t_GET vals = true -> gen_method_call (method_init_model vals) t_HEAD = true.
Proof. exact method_get_implies_head. Qed.
Print Assumptions C01_method_get_implies_head.

Theorem C01_method_init_only_adds_head : forall vals m,
  m <> t_HEAD -> gen_method_call (method_init_model vals) m = mem_text m vals.
Proof. exact method_init_only_adds_head. Qed.
Print Assumptions C01_method_init_only_adds_head.

Theorem C01_method_no_get_no_head : forall vals,
  mem_text t_GET vals = false -> gen_method_call (method_init_model vals) t_HEAD = mem_text t_HEAD vals.
Proof. exact method_no_get_no_head. Qed.
Print Assumptions C01_method_no_get_no_head.

(* ---- ninth round: the legacy path= argument; a route name declared by an include and re-declared by
   the including configurator *)
Theorem C01_generated_legacy_pattern_is_model : forall pattern path,
  gen_legacy_pattern pattern path = legacy_pattern_model pattern path.
Proof. exact gen_legacy_pattern_is_model. Qed.
Print Assumptions C01_generated_legacy_pattern_is_model.

Theorem C01_legacy_pattern_wins : forall p path, legacy_pattern_model (Some p) path = Some p.
Proof. exact legacy_pattern_wins. Qed.
Print Assumptions C01_legacy_pattern_wins.

Theorem C01_legacy_path_alone : forall path, legacy_pattern_model None path = path.
Proof. exact legacy_path_alone. Qed.
Print Assumptions C01_legacy_path_alone.

(* the declarations that survive the commit are exactly those whose verdict is "stands", each with the
   index of its own declaration, in declaration order *)
Theorem C01_resolve_overrides_char : forall xs surv, resolve_overrides xs = Some surv ->
  StronglySorted lt (map fst surv)
  /\ forall j x, In (j, x) surv <-> nth_error xs j = Some x /\ override_verdict xs x = Some true.
Proof. exact resolve_overrides_char. Qed.
Print Assumptions C01_resolve_overrides_char.

Theorem C01_override_survivor_is_top : forall xs x y,
  override_verdict xs x = Some true -> In y xs -> x_same x y = true -> y <> x -> In x xs -> x_top x = true.
Proof. exact override_survivor_is_top. Qed.
Print Assumptions C01_override_survivor_is_top.

Theorem C01_generated_call_commutes_with_renaming : forall mt f m method raw,
  fst (gen_call mt (ren_mapper f m) method raw) = ren_outcome f (fst (gen_call mt m method raw)).
Proof. exact gen_call_ren. Qed.
Print Assumptions C01_generated_call_commutes_with_renaming.

Theorem C01_request_spec_survivors_generated : forall O f ds method raw m sts,
  sup_with (spec_parse_m O) ds = true ->
  connect_all_f (gen_connect (parse_pattern_m O)) empty_mapper 0 ds = (m, sts) ->
  ren_spec f (spec_request_m O ds method raw)
  = spec_of_outcome (fst (gen_call (match_pat_m O) (ren_mapper f m) method raw)).
Proof. exact gen_request_spec_survivors. Qed.
Print Assumptions C01_request_spec_survivors_generated.

(* ---- proof-only round: soundness of the compiled matcher for ANY end of the compiled regex, and the
   "render ++ newline" form for the '$' anchor (Proofs/C01_dollar.v) *)
Require Import Verif.Proofs.C01_dollar.

(* whatever the end continuation accepts: the captures of the placeholders are in their languages, their
   rendering is a prefix of the text and the continuation accepted exactly what is left *)
Theorem C01_mi_sound_any : forall ek O its s caps,
  mi ek O its s = Some caps ->
  exists hc ec rest,
    caps = hc ++ ec /\ ek rest = Some ec /\ s = render its hc ++ rest
    /\ (forall e, render its (hc ++ e) = render its hc ++ render [] e)
    /\ (forall st e, caps_ok O st [] e = true -> caps_ok O st its (hc ++ e) = true).
Proof. exact mi_sound_any. Qed.
Print Assumptions C01_mi_sound_any.

(* the '$' anchor (with or without DOTALL): a match is a decomposition of the whole path, or of the path
   without ONE final newline -- the full extent of the C01-dollar-newline defect *)
Theorem C01_match_sound_dollar : forall b O p s d,
  match_pat_with Dollar b O p s = Some d ->
  exists caps, d = mk_dict (items p) (star p) caps
    /\ caps_ok O (star p) (items p) caps = true
    /\ (s = render (items p) caps \/ s = render (items p) caps ++ [c_nl]).
Proof. exact match_sound_dollar. Qed.
Print Assumptions C01_match_sound_dollar.

(* any anchor, any DOTALL flag: only the '$' anchor can leave something over, and only one newline *)
Theorem C01_match_sound_prefix : forall a b O p s d,
  match_pat_with a b O p s = Some d ->
  exists caps rest, d = mk_dict (items p) (star p) caps /\ caps_ok O (star p) (items p) caps = true
    /\ s = render (items p) caps ++ rest
    /\ (rest = [] \/ (a = Dollar /\ rest = [c_nl])).
Proof. exact match_sound_prefix. Qed.
Print Assumptions C01_match_sound_prefix.

(* ---- third proof-only round: end-to-end composition (Proofs/C01_e2e.v) *)
Require Import Verif.Proofs.C01_e2e.

Theorem C01_match_m_whole : forall O p s d,
  match_pat_m O p s = Some d ->
  exists caps, d = merge_dict (mk_dict (items p) (star p) caps) /\ s = render (items p) caps
               /\ caps_ok O (star p) (items p) caps = true.
Proof. exact match_m_whole. Qed.
Print Assumptions C01_match_m_whole.

(* what the program regenerated from RoutesMapper.__call__ hands out (multi-atom matcher, facts of the
   current source): the selected route's pattern decomposes the WHOLE decoded path, the dictionary is the
   merged dictionary of that decomposition, its predicates hold, no earlier route qualifies *)
Theorem C01_selected_route_whole_path_generated : forall O m method raw r d,
  fst (gen_call (match_pat_m O) m method raw) = OMatch r d ->
  exists path pre post caps,
    request_path raw = RPath path
    /\ routelist m = pre ++ r :: post
    /\ Forall (fun r' => qual (match_pat_m O) method path r' = false) pre
    /\ path = render (items (r_pat r)) caps
    /\ caps_ok O (star (r_pat r)) (items (r_pat r)) caps = true
    /\ d = merge_dict (mk_dict (items (r_pat r)) (star (r_pat r)) caps)
    /\ forallb (pred_ok method d) (r_preds r) = true.
Proof. exact gen_selected_route_whole_path. Qed.
Print Assumptions C01_selected_route_whole_path_generated.

Theorem C01_none_selected_iff_generated : forall O m method raw path,
  request_path raw = RPath path ->
  (fst (gen_call (match_pat_m O) m method raw) = ONone <->
   Forall (fun r' => qual (match_pat_m O) method path r' = false) (routelist m)).
Proof. exact gen_none_selected_iff. Qed.
Print Assumptions C01_none_selected_iff_generated.
