(* C01 -- property theorems only.  Each is closed by [exact] of a lemma proved
   in Proofs/C01.v; Print Assumptions beneath each.  [match_pat], [dispatch],
   [parse_pattern] are instantiated with the facts regenerated from the current
   source (anchor suffix, remainder group, default placeholder regex). *)
From Coq Require Import List NArith Bool.
Import ListNotations.
Require Import Verif.Lib.Wire Verif.Lib.PathNorm Verif.Lib.Utf8 Verif.Gen.Facts_C01 Verif.Model.C01 Verif.Proofs.C01.
Local Close Scope N_scope.
Local Open Scope nat_scope.

(* the regenerated literals are the ones the model and the theorems were written for:
   module regexes, named-group format, no re flags, anchor \Z, remainder (?s:.*?), default [^/]+ *)
Theorem C01_facts_ok : facts_ok = true.
Proof. exact facts_ok_true. Qed.
Print Assumptions C01_facts_ok.

(* the compiled matcher (greedy backtracking over the placeholders, lazy remainder,
   anchor) is the head of the longest-first enumeration of all decompositions of the
   WHOLE path: this is the executable specification the implementation is judged by *)
Theorem C01_match_spec : forall O p s, match_pat O p s = spec_match O p s.
Proof. exact match_spec. Qed.
Print Assumptions C01_match_spec.

(* what the enumeration contains: exactly the capture lists whose rendering is the
   whole text and whose captures lie in their placeholder's language *)
Theorem C01_all_decs_char : forall O st its s caps,
  In caps (all_decs O st its s) <-> s = render its caps /\ caps_ok O st its caps = true.
Proof. exact all_decs_char. Qed.
Print Assumptions C01_all_decs_char.

(* a match covers the whole decoded path, every capture is in its language, and the
   dictionary is built from exactly those captures *)
Theorem C01_match_whole : forall O p s d,
  match_pat O p s = Some d ->
  exists caps, d = mk_dict (items p) (star p) caps /\ s = render (items p) caps
               /\ caps_ok O (star p) (items p) caps = true.
Proof. exact match_whole. Qed.
Print Assumptions C01_match_whole.

(* every text that can be cut along the pattern is matched *)
Theorem C01_match_complete : forall O p caps,
  caps_ok O (star p) (items p) caps = true -> match_pat O p (render (items p) caps) <> None.
Proof. exact match_complete. Qed.
Print Assumptions C01_match_complete.

(* greedy placeholder splitting: among all decompositions of the path the one returned
   is the longest-first one (lexicographic in the capture lengths, pattern order) *)
Theorem C01_match_greedy : forall O p s caps caps',
  mi (kend the_anchor the_dotall (star p)) O (items p) s = Some caps ->
  s = render (items p) caps' -> caps_ok O (star p) (items p) caps' = true -> lex_ge caps caps'.
Proof. exact match_greedy. Qed.
Print Assumptions C01_match_greedy.

(* whatever the anchor and the remainder group are ('$' and '.*?' in the unrepaired
   source): on newline-free paths the matcher is the strict one.  The full statement
   C01_match_whole is refuted for '$' by Example match_whole_refuted (Proofs/C01.v). *)
Theorem C01_match_whole_partial : forall a b O p s,
  ~ In c_nl s -> match_pat_with a b O p s = match_pat_with EndZ true O p s.
Proof. exact match_whole_partial. Qed.
Print Assumptions C01_match_whole_partial.

(* the default placeholder regex of the current source means: one non-empty run without '/' *)
Theorem C01_default_hole_one_segment : forall O v,
  (exists h, parse_reg default_hole_regex = Some h /\ hole_ok O h v = true) <-> v <> [] /\ ~ In 47%N v.
Proof. exact default_hole_one_segment. Qed.
Print Assumptions C01_default_hole_one_segment.

(* keys = placeholder names in order (+ remainder name); values = the captured text,
   the remainder as normalised segments *)
Theorem C01_matchdict_exact : forall O st its caps,
  caps_ok O st its caps = true ->
  map fst (mk_dict its st caps) = hole_names its ++ match st with Some n => [n] | None => [] end
  /\ map snd (mk_dict its st caps) = dict_vals st caps.
Proof. exact mk_dict_char. Qed.
Print Assumptions C01_matchdict_exact.

(* RoutesMapper.__call__: the first route in list order whose pattern matches and whose
   predicates all hold (for any matcher, any route list) *)
Theorem C01_dispatch_first : forall mt method rs path r d,
  fst (dispatch_with mt method rs path) = Some (r, d) <->
  exists pre post, rs = pre ++ r :: post
    /\ Forall (fun r' => qual mt method path r' = false) pre
    /\ mt (r_pat r) path = Some d /\ forallb (pred_ok method d) (r_preds r) = true.
Proof. exact dispatch_first. Qed.
Print Assumptions C01_dispatch_first.

Theorem C01_dispatch_none : forall mt method rs path,
  fst (dispatch_with mt method rs path) = None <-> Forall (fun r => qual mt method path r = false) rs.
Proof. exact dispatch_none. Qed.
Print Assumptions C01_dispatch_none.

Theorem C01_dispatch_spec : forall O method rs path,
  fst (dispatch O method rs path) = spec_dispatch O method rs path.
Proof. exact dispatch_spec. Qed.
Print Assumptions C01_dispatch_spec.

Theorem C01_trace_only_matched : forall mt method rs path i n,
  In (i, n) (snd (dispatch_with mt method rs path)) ->
  exists r, In r rs /\ r_id r = i /\ mt (r_pat r) path <> None.
Proof. exact trace_only_matched. Qed.
Print Assumptions C01_trace_only_matched.

Theorem C01_invalid_utf8_refused : forall O m method raw,
  Utf8.decode raw = None -> dispatch_request O m method (Some raw) = (ODecodeError, []).
Proof. exact invalid_utf8_refused. Qed.
Print Assumptions C01_invalid_utf8_refused.

Theorem C01_valid_path_dispatched : forall O m method raw t,
  Utf8.decode raw = Some t ->
  fst (dispatch_request O m method (Some raw)) =
  match spec_dispatch O method (routelist m) (match t with [] => path_default | _ => t end) with
  | Some (r, d) => OMatch r d
  | None => ONone
  end.
Proof. exact valid_path_dispatched. Qed.
Print Assumptions C01_valid_path_dispatched.

(* a literal piece of a pattern matches only itself *)
Theorem C01_lit_is_literal : forall O l s, match_pat O (mkPat [Lit l] None) s = Some [] <-> s = l.
Proof. exact lit_is_literal. Qed.
Print Assumptions C01_lit_is_literal.

(* RoutesMapper.connect folded over declarations that all compile: every connect succeeds and
   routelist is "the last declaration of each name, at its (later) place, static ones left out" *)
Theorem C01_connect_last_wins : forall O ds m sts,
  Forall (parses O) ds -> connect_all O empty_mapper 0 ds = (m, sts) ->
  Forall (fun s => s = Ok tt) sts
  /\ routelist m = map (mkr O) (filter nonstatic (last_wins (number 0 ds))).
Proof. exact connect_last_wins. Qed.
Print Assumptions C01_connect_last_wins.

(* end to end: declarations (all compiling) + raw PATH_INFO: the mapper's answer is the one
   the declarative specification gives (first qualifying route in declaration order with
   last-wins names, none, or decode error) *)
Theorem C01_request_spec : forall O ds method raw m sts,
  all_ok O ds = true -> connect_all O empty_mapper 0 ds = (m, sts) ->
  Forall (fun s => s = Ok tt) sts
  /\ spec_request O ds method raw =
     match fst (dispatch_request O m method raw) with
     | ODecodeError => SDecodeError
     | OMatch r d => SMatch r d
     | ONone => SNone
     | OConfigError => SNothing
     end.
Proof. exact request_spec. Qed.
Print Assumptions C01_request_spec.
