(* C14 -- property theorems only. *)
From Coq Require Import List NArith ZArith Bool.
Import ListNotations.
Require Import Verif.Lib.Wire Verif.Gen.Facts_C03 Verif.Model.C03 Verif.Proofs.C03 Verif.Gen.Facts_C14 Verif.Model.C14 Verif.Proofs.C14.

(* the regenerated constants of the anchored code are the ones the property speaks about *)
Theorem C14_facts_ok : code_params = spec_params.
Proof. exact facts_ok. Qed.
Print Assumptions C14_facts_ok.
