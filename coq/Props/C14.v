(* C14 -- property theorems only.  Each is closed by [exact] of a lemma proved in Proofs/C14.v or
   Proofs/C14_b.v; Print Assumptions beneath each.  [spec_params] are the constants the property speaks about,
   [code_params] the ones regenerated from the source; C14_facts_ok identifies them. *)
From Coq Require Import List NArith ZArith Bool.
Import ListNotations.
Require Import Verif.Lib.Wire Verif.Gen.Facts_C03 Verif.Model.C03 Verif.Proofs.C03 Verif.Gen.Facts_C14 Verif.Model.C14
               Verif.Proofs.C14 Verif.Proofs.C14_b Verif.Proofs.C14_c Verif.Proofs.C14_d Verif.Proofs.C14_gen Verif.Proofs.C03_ov Verif.Proofs.C03_med.

(* the regenerated constants of the anchored code (hidden attribute names, what is assigned inside and after
   the with-block, request_iface.combined, the classes caught by the tween / _error_handler /
   invoke_exception_view, the contexts of the default exception-response view, the contexts and exception_only
   flags of add_notfound_view / add_forbidden_view / add_exception_view) are the ones the property speaks about *)
(* ... up to one flag: whether _call_view(secure=False) checks the predicates of a single secured view.  The
   property's value is true; the code's value is regenerated (false in the text with finding
   C14-permissive-skips-predicates, true after its repair), and the theorems below are stated for both. *)
Theorem C14_facts_ok : code_params = spec_params_b permissive_checks_predicates.
Proof. exact facts_ok. Qed.
Print Assumptions C14_facts_ok.

(* hide_attrs_restores.  Full-strength statement (every attribute map and EVERY name list) is false of the
   faithful model, see C14_hide_attrs_restores_refuted: a name listed twice loses its value.  Partial: name
   lists without repetitions; any attribute map, any body (returning or raising). *)
Theorem C14_hide_attrs_restores_partial : forall (A : Type) (names : list text) (body : amap -> A * amap) (m : amap) k,
  NoDup names -> In k names -> aget k (snd (hide_attrs names body m)) = aget k m.
Proof. exact @hide_attrs_restores. Qed.
Print Assumptions C14_hide_attrs_restores_partial.

Theorem C14_hide_attrs_restores_refuted :
  exists (names : list text) (m : amap) k,
    In k names /\ ~ NoDup names /\
    aget k (snd (hide_attrs names (fun a => (tt, a)) m)) <> aget k m.
Proof. exact hide_attrs_restores_dup_refuted. Qed.
Print Assumptions C14_hide_attrs_restores_refuted.

Theorem C14_hide_attrs_frame : forall (A : Type) (names : list text) (body : amap -> A * amap) (m : amap) k,
  ~ In k names ->
  aget k (snd (hide_attrs names body m)) = aget k (snd (body (fst (hide_pop names m [])))).
Proof. exact @hide_attrs_frame. Qed.
Print Assumptions C14_hide_attrs_frame.

(* exception_only_split: a declaration whose predicates are accepted is found under the ordinary classifier
   iff it is not exception_only and under the exception classifier iff its context is an exception type;
   exception_only on a non-exception context registers nothing *)
Theorem C14_exception_only_split : forall P names nm d c xonly isexc,
  effective_ctx P nm d = (c, xonly, isexc) ->
  make names (args_kw (with_ctx (forwarded_args P (d_dir d) (d_args d)) c)) <> None ->
  let regs := regs_of_decl P names nm d in
  under_cls view_classifier regs = negb xonly
  /\ under_cls exc_classifier_id regs = isexc && negb (xonly && negb isexc)
  /\ (xonly = true -> isexc = false -> regs = []).
Proof. exact exception_only_split. Qed.
Print Assumptions C14_exception_only_split.

(* no_view_propagates_same_object: the exception-view lookup ends in Not Found (nothing registered for any
   class of the object, or every predicate mismatched) => the SAME object propagates out of the excview
   tween, no view body runs, and response / exc_info / exception are what they were before *)
Theorem C14_no_view_propagates_same_object : forall P W ri e st,
  NoDup (p_hidden P) -> p_handler_reraises P = true -> fresh_ok P W site_tween ->
  not_found (call_view (w_reg W) exc_classifier_id (exc_request P W ri e)) ->
  let r := excview_tween P W ri (Raise e) st in
  fst r = Raise e
  /\ st_log (snd r) = st_log st
  /\ forall k, In k (p_hidden P) -> aget k (st_attrs (snd r)) = aget k (st_attrs st).
Proof. exact no_view_propagates. Qed.
Print Assumptions C14_no_view_propagates_same_object.

(* the same for a direct request.invoke_exception_view(reraise=rr): attributes restored, no body ran, and
   what is raised is the original (reraise) or the framework's HTTPNotFound / PredicateMismatch *)
Theorem C14_invoke_exception_view_no_view : forall P W ri site rr sec e st,
  NoDup (p_hidden P) ->
  not_found (call_view_sec P (w_reg W) sec exc_classifier_id (exc_request P W ri e)) ->
  let r := iev P W ri site rr sec e st in
  st_log (snd r) = st_log st
  /\ (forall k, In k (p_hidden P) -> aget k (st_attrs (snd r)) = aget k (st_attrs st))
  /\ (fst r = Raise (if rr then e else fresh_of_class (p_none_raises P) site)
      \/ fst r = Raise (if rr && isa W (p_iev_catches P) (fresh_pme site) then e else fresh_pme site)).
Proof. exact iev_not_found. Qed.
Print Assumptions C14_invoke_exception_view_no_view.

(* excview_sees_exception: the view the lookup selects runs exactly once; it sees the raised object as its
   context, as request.exception and in request.exc_info, and no request.response; a response (a new one, or
   the exception itself through the default view) leaves exception / exc_info set to the raised object and
   request.response as before; a view that fails leaves all three as before and its own exception propagates
   (except an HTTPNotFound, which _error_handler takes for "no view") *)
Theorem C14_excview_sees_exception : forall b W ri e st t,
  isa W cn_Exception e = true ->
  call_view (w_reg W) exc_classifier_id (exc_request (spec_params_b b) W ri e) = Ran t ->
  b_perm (body_of (w_bodies W) t) && ri_deny ri = false ->
  let r := excview_tween (spec_params_b b) W ri (Raise e) st in
  st_log (snd r) = st_log st ++ [EBody t e (seen_snapshot e)]
  /\ rendered W None t e (snap (st_attrs st)) (fst r) (snap (st_attrs (snd r))).
Proof. exact excview_view_runs. Qed.
Print Assumptions C14_excview_sees_exception.

(* excview_nearest_class: which view -- C03's lookup theorem instantiated with the exception classifier, the
   resolution order of the raised OBJECT as context order and request_iface.combined as request order.
   Partial in the same way as C03_lookup_winner_partial (no accept=). *)
Theorem C14_excview_nearest_class_partial : forall ao regs P W ri e,
  Forall reg_wf regs -> NoDup (map key regs) -> no_accept regs -> order_respects regs ->
  NoDup (q_req_sro (exc_request P W ri e)) -> NoDup (x_sro (find_exc (w_excs W) e)) ->
  spec_ok exc_classifier_id regs (exc_request P W ri e)
          (call_view (register_all ao regs) exc_classifier_id (exc_request P W ri e)) = true.
Proof. exact excview_nearest_class. Qed.
Print Assumptions C14_excview_nearest_class_partial.

(* a secured exception view that the policy refuses: its body does not run, the attributes are as before, and
   the refusal (the framework's HTTPForbidden) propagates -- it does not enter 403 handling *)
Theorem C14_excview_refused : forall b W ri e st t,
  isa W cn_Exception e = true ->
  isa W cn_HTTPNotFound (fresh_forb site_tween) = false ->
  call_view (w_reg W) exc_classifier_id (exc_request (spec_params_b b) W ri e) = Ran t ->
  b_perm (body_of (w_bodies W) t) && ri_deny ri = true ->
  let r := excview_tween (spec_params_b b) W ri (Raise e) st in
  fst r = Raise (fresh_forb site_tween) /\ st_log (snd r) = st_log st
  /\ snap (st_attrs (snd r)) = snap (st_attrs st).
Proof. exact excview_refused. Qed.
Print Assumptions C14_excview_refused.

(* a permissive call (secure=False) is the ordinary lookup when it checks predicates *)
Theorem C14_permissive_lookup : forall P R sec cls rq,
  sec = true \/ p_perm_checks P = true -> call_view_sec P R sec cls rq = call_view R cls rq.
Proof. exact call_view_sec_eq. Qed.
Print Assumptions C14_permissive_lookup.

(* http_exception_is_response: an HTTP exception for which the declarative order allows only default
   exception-response views is itself the response and stays request.exception *)
Theorem C14_http_exception_is_response : forall b ao regs W ri e st,
  w_reg W = register_all ao regs ->
  spec_ok exc_classifier_id regs (exc_request (spec_params_b b) W ri e)
          (call_view (register_all ao regs) exc_classifier_id (exc_request (spec_params_b b) W ri e)) = true ->
  isa W cn_Exception e = true -> status_of W e <> 0%N ->
  spec_winners exc_classifier_id regs (exc_request (spec_params_b b) W ri e) <> [] ->
  (forall w, In w (spec_winners exc_classifier_id regs (exc_request (spec_params_b b) W ri e)) ->
             body_of (w_bodies W) (r_tag w) = mkBody false ARetCtx false) ->
  let r := excview_tween (spec_params_b b) W ri (Raise e) st in
  fst r = Resp (RExc e)
  /\ aget hn_exception (st_attrs (snd r)) = Some e /\ aget hn_exc_info (st_attrs (snd r)) = Some e
  /\ aget hn_response (st_attrs (snd r)) = aget hn_response (st_attrs st).
Proof. exact http_exception_is_response. Qed.
Print Assumptions C14_http_exception_is_response.

Theorem C14_unmatched_url_raises_notfound : forall P W ri st,
  ri_root_raise ri = None ->
  not_found (call_view (w_reg W) view_classifier (ri_req ri)) ->
  main_handler P W ri false st = (Raise id_h_nf, st) \/ main_handler P W ri false st = (Raise id_h_pme, st).
Proof. exact unmatched_url_raises_notfound. Qed.
Print Assumptions C14_unmatched_url_raises_notfound.

Theorem C14_refused_permission_raises_forbidden : forall P W ri st t,
  ri_root_raise ri = None ->
  call_view (w_reg W) view_classifier (ri_req ri) = Ran t ->
  b_perm (body_of (w_bodies W) t) = true -> ri_deny ri = true ->
  main_handler P W ri false st = (Raise id_h_forb, st).
Proof. exact refused_permission_raises_forbidden. Qed.
Print Assumptions C14_refused_permission_raises_forbidden.

(* what the tween does not catch, and responses, pass through untouched *)
Theorem C14_not_caught_passes : forall P W ri e st,
  isa W (p_tween_catches P) e = false -> excview_tween P W ri (Raise e) st = (Raise e, st).
Proof. exact not_caught_passes. Qed.
Print Assumptions C14_not_caught_passes.

Theorem C14_response_passes : forall P W ri r st, excview_tween P W ri (Resp r) st = (Resp r, st).
Proof. exact response_passes. Qed.
Print Assumptions C14_response_passes.

(* The executable judge of the property (Model/C14.v [judge]: the function the check applies to the
   IMPLEMENTATION's event trace) accepts the trace of the model for every request: whatever reaches the excview
   tween -- and whatever a tween below hands to request.invoke_exception_view(reraise=, secure=) -- is rendered by
   a view the declarative order [spec_winners] allows (resolution order of the raised object, combined request
   interface, predicates); that view saw the object as context / request.exception / exc_info and no
   request.response; the attributes afterwards are as the property says; a secured view that the policy refuses
   does not run and its HTTPForbidden propagates; with no winner the same object propagates and the attributes
   are restored.
   Full-strength statement: for every request.  It holds when permissive calls check predicates (b = true, the
   repaired text); of the code as it is (b = false) it is false -- C14_judge_accepts_model_refuted -- and holds
   for the requests whose tween does not call invoke_exception_view(secure=False).
   Other hypotheses: [spec_ok] of the exception-view lookups (C14_lookup_ok_partial + C14_regs_upto_hyps discharge
   it for registries built from the directives, except overriding declarations); the isinstance table says of the
   framework-made objects what they are.  Non-vacuity: Proofs/C14_c.v
   [judge_accepts_model_nonvacuous]. *)
Theorem C14_judge_accepts_model_partial : forall b regs W ri,
  b = true \/ sec_of (ri_under ri) = true ->
  (forall e, spec_ok exc_classifier_id regs (exc_request (spec_params_b b) W ri e)
               (call_view (w_reg W) exc_classifier_id (exc_request (spec_params_b b) W ri e)) = true) ->
  isa W cn_Exception ctx_resource = false ->
  (forall site, In site [site_under; site_tween] ->
     isa W cn_HTTPNotFound (fresh_nf site) = true /\ isa W cn_HTTPNotFound (fresh_pme site) = true
     /\ isa W cn_Exception (fresh_pme site) = true
     /\ isa W cn_HTTPForbidden (fresh_forb site) = true /\ isa W cn_Exception (fresh_forb site) = true
     /\ isa W cn_HTTPNotFound (fresh_forb site) = false) ->
  judge regs W ri (run_request (spec_params_b b) W ri) = true.
Proof. exact judge_accepts_model. Qed.
Print Assumptions C14_judge_accepts_model_partial.

(* the lookup premise, for a registry built by register_all from registrations satisfying C03's hypotheses
   (partial as C03_lookup_winner_partial: no accept=, no two registrations with equal slot and phash) ... *)
Theorem C14_lookup_ok_partial : forall b ao regs W ri,
  w_reg W = register_all ao regs ->
  Forall reg_wf regs -> NoDup (map key regs) -> no_accept regs -> order_respects regs ->
  (forall e, NoDup (q_req_sro (exc_request (spec_params_b b) W ri e))) ->
  (forall e, NoDup (x_sro (find_exc (w_excs W) e))) ->
  forall e, spec_ok exc_classifier_id regs (exc_request (spec_params_b b) W ri e)
              (call_view (w_reg W) exc_classifier_id (exc_request (spec_params_b b) W ri e)) = true.
Proof. exact lookup_ok_register_all. Qed.
Print Assumptions C14_lookup_ok_partial.

(* the same WITHOUT distinct keys (overriding declarations allowed; C03's override-tolerant lookup theorem):
   registrations with equal slot and phash must have equal order and predicate texts -- [key_ok_b], an executable
   check (sound for C03's key_order / key_faithful), evaluated on every generated world by the check *)
Theorem C14_lookup_ok_overrides_partial : forall b ao regs W ri,
  w_reg W = register_all ao regs ->
  Forall reg_wf regs -> key_ok_b regs = true -> no_accept regs -> order_respects regs ->
  (forall e, NoDup (q_req_sro (exc_request (spec_params_b b) W ri e))) ->
  (forall e, NoDup (x_sro (find_exc (w_excs W) e))) ->
  forall e, spec_ok exc_classifier_id regs (exc_request (spec_params_b b) W ri e)
              (call_view (w_reg W) exc_classifier_id (exc_request (spec_params_b b) W ri e)) = true.
Proof. exact lookup_ok_overrides. Qed.
Print Assumptions C14_lookup_ok_overrides_partial.

Theorem C14_key_ok_sound : forall regs, key_ok_b regs = true -> key_order regs /\ key_faithful regs.
Proof. exact key_ok_sound. Qed.
Print Assumptions C14_key_ok_sound.

(* for the registrations the directives produce only the computable key check, the size bounds and the oracle
   resolution orders remain as premises *)
Theorem C14_lookup_ok_regs_upto_partial : forall b ao P names nm user ph W ri,
  w_reg W = register_all ao (regs_upto P names nm user ph) ->
  (length names <= 20)%nat ->
  Forall (fun d => a_accept (d_args d) = None) user ->
  Forall (fun v => (n_preds v <= 400)%nat) (regs_upto P names nm user ph) ->
  key_ok_b (regs_upto P names nm user ph) = true ->
  (forall e, NoDup (q_req_sro (exc_request (spec_params_b b) W ri e))) ->
  (forall e, NoDup (x_sro (find_exc (w_excs W) e))) ->
  forall e, spec_ok exc_classifier_id (regs_upto P names nm user ph) (exc_request (spec_params_b b) W ri e)
              (call_view (w_reg W) exc_classifier_id (exc_request (spec_params_b b) W ri e)) = true.
Proof. exact lookup_ok_regs_upto. Qed.
Print Assumptions C14_lookup_ok_regs_upto_partial.

(* ... and those hypotheses (other than distinct keys) for the registrations the directives produce *)
Theorem C14_regs_upto_hyps : forall P names nm user ph,
  (length names <= 20)%nat ->
  Forall (fun d => a_accept (d_args d) = None) user ->
  Forall (fun v => (n_preds v <= 400)%nat) (regs_upto P names nm user ph) ->
  Forall reg_wf (regs_upto P names nm user ph)
  /\ no_accept (regs_upto P names nm user ph)
  /\ order_respects (regs_upto P names nm user ph).
Proof. exact regs_upto_hyps. Qed.
Print Assumptions C14_regs_upto_hyps.

Theorem C14_judge_accepts_model_refuted :
  sec_of (ri_under rf_ri) = false
  /\ judge rf_regs rf_W rf_ri (run_request (spec_params_b false) rf_W rf_ri) = false
  /\ judge rf_regs rf_W rf_ri (run_request (spec_params_b true) rf_W rf_ri) = true
  /\ spec_winners exc_classifier_id rf_regs (exc_request spec_params rf_W rf_ri 0%N) = [].
Proof. exact judge_accepts_model_refuted. Qed.
Print Assumptions C14_judge_accepts_model_refuted.

(* View bodies that raise PredicateMismatch: for _call_view / MultiView.__call__ that is a predicate mismatch and the
   search goes on after the body ran (Model/C14.v [comps_loop], the pipeline the correspondence run executes;
   Example Proofs/C14_d.v [search_goes_on]).  When no body outcome is a PredicateMismatch it is the plain pipeline: *)
Theorem C14_run_request_pm_eq : forall P W, no_pm P W -> forall ri, run_request_pm P W ri = run_request P W ri.
Proof. exact run_request_pm_eq. Qed.
Print Assumptions C14_run_request_pm_eq.

Theorem C14_no_pm_from_tables : forall P W,
  (forall tag e, b_act (body_of (w_bodies W) tag) = ARaise e -> isa W cn_PredicateMismatch e = false) ->
  (forall site, isa W cn_PredicateMismatch (fresh_ve site) = false
                /\ isa W cn_PredicateMismatch (fresh_forb site) = false) ->
  isa W cn_PredicateMismatch id_h_forb = false ->
  no_pm P W.
Proof. exact no_pm_from_tables. Qed.
Print Assumptions C14_no_pm_from_tables.

(* ... so the judge theorem holds for the executed pipeline whenever no body raises PredicateMismatch; with such
   bodies the judge is silent about what follows the winner's body (an HTTPNotFound raised by a view is
   indistinguishable from "no view applies"), and the model/implementation correspondence covers them *)
Theorem C14_judge_accepts_model_pm_partial : forall b regs W ri,
  no_pm (spec_params_b b) W ->
  b = true \/ sec_of (ri_under ri) = true ->
  (forall e, spec_ok exc_classifier_id regs (exc_request (spec_params_b b) W ri e)
               (call_view (w_reg W) exc_classifier_id (exc_request (spec_params_b b) W ri e)) = true) ->
  isa W cn_Exception ctx_resource = false ->
  (forall site, In site [site_under; site_tween] ->
     isa W cn_HTTPNotFound (fresh_nf site) = true /\ isa W cn_HTTPNotFound (fresh_pme site) = true
     /\ isa W cn_Exception (fresh_pme site) = true
     /\ isa W cn_HTTPForbidden (fresh_forb site) = true /\ isa W cn_Exception (fresh_forb site) = true
     /\ isa W cn_HTTPNotFound (fresh_forb site) = false) ->
  judge regs W ri (run_request_pm (spec_params_b b) W ri) = true.
Proof. exact judge_accepts_model_pm. Qed.
Print Assumptions C14_judge_accepts_model_pm_partial.

(* excview_nearest_class with accept= allowed (C03_lookup_winner_media at the exception classifier): the view that
   renders is a qualifying registration before which no qualifying registration comes in the accept-aware order;
   Not Found iff none qualifies.  (Distinct keys; the generator of this check does not produce accept= on
   exception views -- C03's does on ordinary views.) *)
Theorem C14_excview_nearest_class_media : forall ao regs P W ri e,
  NoDup (map key regs) -> Forall accept_wf regs ->
  NoDup (q_req_sro (exc_request P W ri e)) -> NoDup (x_sro (find_exc (w_excs W) e)) ->
  match call_view (register_all ao regs) exc_classifier_id (exc_request P W ri e) with
  | Ran t => exists x, In x regs /\ r_tag x = t /\ candidate exc_classifier_id (exc_request P W ri e) x = true
                       /\ forall w, In w regs -> candidate exc_classifier_id (exc_request P W ri e) w = true ->
                                     strictly_before (exc_request P W ri e) w x = false
  | _ => forall w, In w regs -> candidate exc_classifier_id (exc_request P W ri e) w = false
  end.
Proof. exact excview_nearest_class_media. Qed.
Print Assumptions C14_excview_nearest_class_media.

(* ====================================================================================================
   The functions REGENERATED from the source on this run (Gen/Facts_C14.v, by harness/c14/translate.py) equal the
   hand-written reference model, for all inputs.  A semantic change of hide_attrs / reraise / invoke_exception_view /
   _error_handler / excview_tween / default_exceptionresponse_view / isexception makes one of these fail to compile;
   a harmless rewrite does not.  The correspondence run executes the regenerated pipeline [run_request_gen]. *)
Theorem C14_gen_hide_attrs_is_model : forall (A : Type) names (body : state -> wres A * state) st,
  gen_hide_attrs names body st = hide_attrs_w names body st.
Proof. exact @gen_hide_attrs_is_model. Qed.
Print Assumptions C14_gen_hide_attrs_is_model.

Theorem C14_gen_reraise_is_model : forall W fresh value, gen_reraise W fresh value = reraise_m fresh value.
Proof. exact gen_reraise_is_model. Qed.
Print Assumptions C14_gen_reraise_is_model.

Theorem C14_gen_iev_is_model : forall b W ri oth site rr sec e st,
  gen_iev (spec_params_b b) W ri oth site rr sec e st = iev_pm (spec_params_b b) W ri site rr sec e st.
Proof. exact gen_iev_is_model. Qed.
Print Assumptions C14_gen_iev_is_model.

Theorem C14_gen_error_handler_is_model : forall b W ri site e st,
  gen_error_handler (spec_params_b b) W ri site e st
  = error_handler_m (spec_params_b b) W (fun _ => iev_pm (spec_params_b b) W ri) site e st.
Proof. exact gen_error_handler_is_model. Qed.
Print Assumptions C14_gen_error_handler_is_model.

Theorem C14_gen_excview_tween_is_model : forall b W ri ho st,
  gen_excview_tween (spec_params_b b) W ri site_tween ho st
  = excview_tween_g (spec_params_b b) W (fun _ => iev_pm (spec_params_b b) W ri) ho st.
Proof. exact gen_excview_tween_is_model. Qed.
Print Assumptions C14_gen_excview_tween_is_model.

Theorem C14_gen_default_view_is_model : forall W ctx st, gen_default_view W ctx st = ctx_returned W ctx (st_attrs st).
Proof. exact gen_default_view_is_model. Qed.
Print Assumptions C14_gen_default_view_is_model.

Theorem C14_gen_isexception_is_model : forall c, gen_isexception c = isexception_m c.
Proof. exact gen_isexception_is_model. Qed.
Print Assumptions C14_gen_isexception_is_model.

Theorem C14_run_request_gen_is_model : forall b W ri,
  run_request_gen (spec_params_b b) W ri = run_request_pm (spec_params_b b) W ri.
Proof. exact run_request_gen_is_model. Qed.
Print Assumptions C14_run_request_gen_is_model.

(* the property theorems restated about the regenerated functions *)
Theorem C14_gen_hide_attrs_restores : forall (A : Type) names (body : state -> wres A * state) st k,
  NoDup names -> In k names -> st_get k (snd (gen_hide_attrs names body st)) = st_get k st.
Proof. exact @gen_hide_attrs_restores. Qed.
Print Assumptions C14_gen_hide_attrs_restores.

Theorem C14_gen_no_view_propagates_same_object : forall b W ri e st,
  no_pm (spec_params_b b) W ->
  isa W cn_HTTPNotFound (fresh_pme site_tween) = true -> isa W cn_HTTPNotFound (fresh_nf site_tween) = true ->
  not_found (call_view (w_reg W) exc_classifier_id (exc_request (spec_params_b b) W ri e)) ->
  let r := gen_excview_tween (spec_params_b b) W ri site_tween (Raise e) st in
  fst r = Raise e /\ st_log (snd r) = st_log st
  /\ forall k, In k (p_hidden (spec_params_b b)) -> aget k (st_attrs (snd r)) = aget k (st_attrs st).
Proof. exact gen_no_view_propagates. Qed.
Print Assumptions C14_gen_no_view_propagates_same_object.

Theorem C14_gen_judge_accepts_partial : forall b regs W ri,
  no_pm (spec_params_b b) W ->
  b = true \/ sec_of (ri_under ri) = true ->
  (forall e, spec_ok exc_classifier_id regs (exc_request (spec_params_b b) W ri e)
               (call_view (w_reg W) exc_classifier_id (exc_request (spec_params_b b) W ri e)) = true) ->
  isa W cn_Exception ctx_resource = false ->
  (forall site, In site [site_under; site_tween] ->
     isa W cn_HTTPNotFound (fresh_nf site) = true /\ isa W cn_HTTPNotFound (fresh_pme site) = true
     /\ isa W cn_Exception (fresh_pme site) = true
     /\ isa W cn_HTTPForbidden (fresh_forb site) = true /\ isa W cn_Exception (fresh_forb site) = true
     /\ isa W cn_HTTPNotFound (fresh_forb site) = false) ->
  judge regs W ri (run_request_gen (spec_params_b b) W ri) = true.
Proof. exact gen_judge_accepts. Qed.
Print Assumptions C14_gen_judge_accepts_partial.

(* which object the built-in predicates of a view consult (regenerated from pyramid/predicates.py): containment=
   looks at request.context -- the traversed resource, also while an EXCEPTION view is looked up, where the view's own
   context argument is the exception --, physical_path= at its context argument; no other built-in predicate looks at
   either (fail-closed fact).  The exception-view request of the model ([exc_request_raw]) follows these flags. *)
Theorem C14_predicate_receivers_ok :
  (containment_reads_request_context, physical_path_reads_request_context) = (true, false).
Proof. exact predicate_receivers_ok. Qed.
Print Assumptions C14_predicate_receivers_ok.

(* ------------------------------------------------------------------ *)
(* THE RAISING SITE (Proofs/C14_e.v): what an ordinary view body raised is what reaches exception handling.
   [judge_site] (executable, applied by the check to the implementation's trace) reads the ordinary view-body events
   of the dispatch below the excview tween: a body that raised anything but a PredicateMismatch is the last body and
   its object is what reaches the excview tween (or what a catching tween hands to invoke_exception_view); a body
   that answered is the last one and its response is the outcome.  Full strength: view bodies may raise
   PredicateMismatch (the search goes on), every registry, every request; the only premise says that the traversed
   resource is not an exception. *)
Require Import Verif.Proofs.C14_e.

Theorem C14_raising_site_reaches_handling : forall P W ri,
  isa W cn_Exception ctx_resource = false ->
  judge_site W (site_mode_of (ri_under ri)) (run_request_pm P W ri) = true.
Proof. exact judge_site_accepts_model. Qed.
Print Assumptions C14_raising_site_reaches_handling.

Theorem C14_gen_raising_site_reaches_handling : forall b W ri,
  isa W cn_Exception ctx_resource = false ->
  judge_site W (site_mode_of (ri_under ri)) (run_request_gen (spec_params_b b) W ri) = true.
Proof. exact gen_judge_site_accepts. Qed.
Print Assumptions C14_gen_raising_site_reaches_handling.

(* Router.handle_request with the search-goes-on loop: the ordinary bodies it ran and its outcome *)
Theorem C14_main_handler_site : forall P W ri second st,
  let r := main_handler_pm P W ri second st in
  exists evs, st_log (snd r) = st_log st ++ evs /\ bodies_ctx ctx_resource evs /\ site_walk W evs (fst r) = true.
Proof. exact main_pm_site. Qed.
Print Assumptions C14_main_handler_site.

(* ------------------------------------------------------------------ *)
(* SUBREQUESTS (request.invoke_subrequest(sub [, use_tweens=..]) called below the excview tween).  The default of
   use_tweens is a regenerated fact; the documented value is False. *)
Theorem C14_subrequest_default_ok : subrequest_use_tweens_default = false.
Proof. exact subrequest_default_ok. Qed.
Print Assumptions C14_subrequest_default_ok.

Theorem C14_subrequest_gen_is_model : forall b W ri tweens,
  run_request_sub_gen (spec_params_b b) W ri tweens = run_request_sub_m (spec_params_b b) W ri tweens.
Proof. exact run_request_sub_gen_is_model. Qed.
Print Assumptions C14_subrequest_gen_is_model.

(* without the tweens, what reaches the excview tween of the OUTER request is exactly the outcome of the
   subrequest's main handler, after exactly the events of that handler: nothing rendered it on the way *)
Theorem C14_subrequest_without_tweens_reaches_outer : forall P W ri,
  let '(o, s1) := main_handler_pm P W (sub_ri ri) false (mkSt [] []) in
  exists post, run_request_sub_m P W ri false = st_log s1 ++ EProbe o (snap (init_attrs ri)) :: post.
Proof. exact sub_without_tweens_reaches_outer. Qed.
Print Assumptions C14_subrequest_without_tweens_reaches_outer.

Theorem C14_subrequest_raising_site : forall P W ri ut,
  judge_site W (site_mode_sub ut) (run_request_sub_m P W ri (sub_tweens false ut)) = true.
Proof. exact judge_site_accepts_sub. Qed.
Print Assumptions C14_subrequest_raising_site.

Theorem C14_gen_subrequest_raising_site : forall b W ri ut,
  judge_site W (site_mode_sub ut) (run_request_sub_gen (spec_params_b b) W ri (sub_tweens false ut)) = true.
Proof. exact gen_judge_site_accepts_sub. Qed.
Print Assumptions C14_gen_subrequest_raising_site.

(* with a default of True the statement is false: the subrequest's own excview tween renders the exception and the
   outer request receives a response (witness by computation; the second half: accepted with the documented default) *)
Theorem C14_subrequest_default_true_refuted :
  judge_site sx_W (site_mode_sub None) (run_request_sub_m spec_params sx_W sx_ri (sub_tweens true None)) = false
  /\ judge_site sx_W (site_mode_sub None) (run_request_sub_m spec_params sx_W sx_ri (sub_tweens false None)) = true.
Proof. exact sub_default_true_refuted. Qed.
Print Assumptions C14_subrequest_default_true_refuted.

(* the rendering judge accepts the subrequest scenario: what reaches the outer excview tween is rendered for the
   OUTER request (partial as C14_judge_accepts_model_pm_partial: no body raises PredicateMismatch, the lookup
   hypothesis of C03).  Non-vacuity: Example judge_accepts_sub_nonvacuous (Proofs/C14_e.v). *)
Theorem C14_judge_accepts_subrequest_partial : forall b regs W ri,
  no_pm (spec_params_b b) W ->
  (forall e, spec_ok exc_classifier_id regs (exc_request (spec_params_b b) W ri e)
               (call_view (w_reg W) exc_classifier_id (exc_request (spec_params_b b) W ri e)) = true) ->
  (forall site, In site [site_under; site_tween] ->
     isa W cn_HTTPNotFound (fresh_nf site) = true /\ isa W cn_HTTPNotFound (fresh_pme site) = true
     /\ isa W cn_Exception (fresh_pme site) = true
     /\ isa W cn_HTTPForbidden (fresh_forb site) = true /\ isa W cn_Exception (fresh_forb site) = true
     /\ isa W cn_HTTPNotFound (fresh_forb site) = false) ->
  sec_of (ri_under ri) = true ->
  forall tweens, judge regs W ri (run_request_sub_m (spec_params_b b) W ri tweens) = true.
Proof. exact judge_accepts_sub. Qed.
Print Assumptions C14_judge_accepts_subrequest_partial.

(* ------------------------------------------------------------------ *)
(* END-TO-END (Proofs/C14_f.v): the trace run_C14 computes for a request -- regenerated functions, regenerated
   constants ([code_params], [subrequest_use_tweens_default]) -- is accepted by the WHOLE judge the check applies to the
   implementation's trace (rendering judge && raising-site judge), in the ordinary scenarios and in the subrequest
   scenario.  Non-vacuity: Example model_trace_judged_nonvacuous. *)
Require Import Verif.Proofs.C14_f Verif.Proofs.C14_g.

Theorem C14_model_trace_judged_partial : forall regs W ri sub,
  no_pm code_params W ->
  match sub with
  | Some _ => sec_of (ri_under ri) = true
  | None => permissive_checks_predicates = true \/ sec_of (ri_under ri) = true
  end ->
  (forall e, spec_ok exc_classifier_id regs (exc_request code_params W ri e)
               (call_view (w_reg W) exc_classifier_id (exc_request code_params W ri e)) = true) ->
  isa W cn_Exception ctx_resource = false ->
  (forall site, In site [site_under; site_tween] ->
     isa W cn_HTTPNotFound (fresh_nf site) = true /\ isa W cn_HTTPNotFound (fresh_pme site) = true
     /\ isa W cn_Exception (fresh_pme site) = true
     /\ isa W cn_HTTPForbidden (fresh_forb site) = true /\ isa W cn_Exception (fresh_forb site) = true
     /\ isa W cn_HTTPNotFound (fresh_forb site) = false) ->
  judge_all false regs W ri sub (model_trace W ri sub) = true.
Proof. exact model_trace_judged. Qed.
Print Assumptions C14_model_trace_judged_partial.

(* the subrequest theorem without the premise on the tween program (the outer request's program is URaise by
   construction) *)
Theorem C14_judge_accepts_subrequest_outer_partial : forall b regs W ri e0 pre tweens,
  no_pm (spec_params_b b) W ->
  (forall e, spec_ok exc_classifier_id regs (exc_request (spec_params_b b) W (set_under ri (URaise e0) pre) e)
               (call_view (w_reg W) exc_classifier_id (exc_request (spec_params_b b) W (set_under ri (URaise e0) pre) e)) = true) ->
  (forall site, In site [site_under; site_tween] ->
     isa W cn_HTTPNotFound (fresh_nf site) = true /\ isa W cn_HTTPNotFound (fresh_pme site) = true
     /\ isa W cn_Exception (fresh_pme site) = true
     /\ isa W cn_HTTPForbidden (fresh_forb site) = true /\ isa W cn_Exception (fresh_forb site) = true
     /\ isa W cn_HTTPNotFound (fresh_forb site) = false) ->
  judge regs W (set_under ri (URaise e0) pre)
        (run_request_sub_m (spec_params_b b) W (set_under ri (URaise e0) pre) tweens) = true.
Proof. exact judge_accepts_sub_outer. Qed.
Print Assumptions C14_judge_accepts_subrequest_outer_partial.

(* LOCALISED premise (Proofs/C14_g.v): the two pipelines agree, and the rendering judge accepts the trace, whenever
   the views the lookups of THIS request select do not raise PredicateMismatch -- worlds that contain such bodies
   elsewhere are covered ([no_pm] implies [no_pm_selected]: C14_no_pm_selected_of_no_pm).
   Non-vacuity: Example judge_accepts_model_local_nonvacuous. *)
Theorem C14_run_request_pm_local : forall P W ri,
  no_pm_selected P W ri -> run_request_pm P W ri = run_request P W ri.
Proof. exact run_request_pm_local. Qed.
Print Assumptions C14_run_request_pm_local.

Theorem C14_no_pm_selected_of_no_pm : forall P W ri, no_pm P W -> no_pm_selected P W ri.
Proof. exact no_pm_selected_of_no_pm. Qed.
Print Assumptions C14_no_pm_selected_of_no_pm.

Theorem C14_judge_accepts_model_local_partial : forall b regs W ri,
  no_pm_selected (spec_params_b b) W ri ->
  b = true \/ sec_of (ri_under ri) = true ->
  (forall e, spec_ok exc_classifier_id regs (exc_request (spec_params_b b) W ri e)
               (call_view (w_reg W) exc_classifier_id (exc_request (spec_params_b b) W ri e)) = true) ->
  isa W cn_Exception ctx_resource = false ->
  (forall site, In site [site_under; site_tween] ->
     isa W cn_HTTPNotFound (fresh_nf site) = true /\ isa W cn_HTTPNotFound (fresh_pme site) = true
     /\ isa W cn_Exception (fresh_pme site) = true
     /\ isa W cn_HTTPForbidden (fresh_forb site) = true /\ isa W cn_Exception (fresh_forb site) = true
     /\ isa W cn_HTTPNotFound (fresh_forb site) = false) ->
  judge regs W ri (run_request_pm (spec_params_b b) W ri) = true
  /\ judge regs W ri (run_request_gen (spec_params_b b) W ri) = true.
Proof. exact judge_accepts_model_local. Qed.
Print Assumptions C14_judge_accepts_model_local_partial.

(* ------------------------------------------------------------------ *)
(* TOWARD REMOVING the PredicateMismatch premise (Proofs/C14_h.v) -- statements with NO premise on the view bodies.
   [first_ok sec deny site ctx a evs t r]: in the result [r] of a lookup loop the first body that ran is the body of
   view [t], run on the attribute map [a] after the log [evs]; when its outcome is not a PredicateMismatch it is the
   whole result. *)
Require Import Verif.Proofs.C14_h.

(* _call_view's candidate loop (with MultiView inside): the first body that runs is the one C03's lookup selects; when
   the lookup selects nothing, nothing runs and nothing changes *)
Theorem C14_comps_loop_first : forall P W (sec : bool) deny site ctx fpme rq l b a evs,
  match (if sec then call_loop rq l b else call_loop_p P rq l b) with
  | Ran t => first_ok P W sec deny site ctx a evs t
               (comps_loop P W sec deny site ctx fpme rq l (pme_of b fpme) a evs)
  | NotFoundPme => comps_loop P W sec deny site ctx fpme rq l (pme_of b fpme) a evs = (Some (Raise fpme), evs, a)
  | NotFoundNone => comps_loop P W sec deny site ctx fpme rq l (pme_of b fpme) a evs = (None, evs, a)
  end.
Proof. exact comps_loop_first. Qed.
Print Assumptions C14_comps_loop_first.

Theorem C14_iev_pm_not_found_eq : forall P W ri site rr sec e st,
  not_found (call_view_sec P (w_reg W) sec exc_classifier_id (exc_request P W ri e)) ->
  iev_pm P W ri site rr sec e st = iev P W ri site rr sec e st.
Proof. exact iev_pm_not_found_eq. Qed.
Print Assumptions C14_iev_pm_not_found_eq.

Theorem C14_iev_pm_first_body : forall P W ri site rr sec e st t,
  call_view_sec P (w_reg W) sec exc_classifier_id (exc_request P W ri e) = Ran t ->
  let a_in := set_all (p_set_in P) e (fst (hide_pop (p_hidden P) (st_attrs st) [])) in
  exists rest, st_log (snd (iev_pm P W ri site rr sec e st))
               = st_log st ++ snd (fst (run_body P W sec (ri_deny ri) site t e a_in)) ++ rest.
Proof. exact iev_pm_first_body. Qed.
Print Assumptions C14_iev_pm_first_body.

(* C14_gen_no_view_propagates_same_object WITHOUT its premise no_pm: worlds whose view bodies raise PredicateMismatch
   are covered.  Non-vacuity: Example gen_no_view_propagates_full_nonvacuous (a world with such a body). *)
Theorem C14_gen_no_view_propagates_same_object_full : forall b W ri e st,
  isa W cn_HTTPNotFound (fresh_pme site_tween) = true -> isa W cn_HTTPNotFound (fresh_nf site_tween) = true ->
  not_found (call_view (w_reg W) exc_classifier_id (exc_request (spec_params_b b) W ri e)) ->
  let r := gen_excview_tween (spec_params_b b) W ri site_tween (Raise e) st in
  fst r = Raise e /\ st_log (snd r) = st_log st
  /\ forall k, In k (p_hidden (spec_params_b b)) -> aget k (st_attrs (snd r)) = aget k (st_attrs st).
Proof. exact gen_no_view_propagates_full. Qed.
Print Assumptions C14_gen_no_view_propagates_same_object_full.

(* ------------------------------------------------------------------ *)
(* NO premise on the view bodies (Proofs/C14_i.v): the rendering of an exception BEGINS as the property says -- the
   first event of invoke_exception_view is the body of the view the lookup selects (unless the policy refuses it), and
   it sees the exception as context, request.exception and request.exc_info and no request.response; whatever that
   body or later ones do.  Non-vacuity: Example iev_pm_first_event_nonvacuous (a world where the selected body raises
   PredicateMismatch and the search goes on). *)
Require Import Verif.Proofs.C14_i.

Theorem C14_iev_pm_first_event : forall b W ri site rr sec e st t,
  call_view_sec (spec_params_b b) (w_reg W) sec exc_classifier_id (exc_request (spec_params_b b) W ri e) = Ran t ->
  sec && b_perm (body_of (w_bodies W) t) && ri_deny ri = false ->
  exists rest, st_log (snd (iev_pm (spec_params_b b) W ri site rr sec e st))
               = st_log st ++ EBody t e (seen_snapshot e) :: rest.
Proof. exact iev_pm_first_event. Qed.
Print Assumptions C14_iev_pm_first_event.

Theorem C14_gen_iev_first_event : forall b W ri oth site rr sec e st t,
  call_view_sec (spec_params_b b) (w_reg W) sec exc_classifier_id (exc_request (spec_params_b b) W ri e) = Ran t ->
  sec && b_perm (body_of (w_bodies W) t) && ri_deny ri = false ->
  exists rest, st_log (snd (gen_iev (spec_params_b b) W ri oth site rr sec e st))
               = st_log st ++ EBody t e (seen_snapshot e) :: rest.
Proof. exact gen_iev_first_event. Qed.
Print Assumptions C14_gen_iev_first_event.
