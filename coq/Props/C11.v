(* C11 -- property theorems only.  Each is closed by [exact] of a lemma proved
   in Proofs/C11.v / Proofs/C11_gen.v; Print Assumptions beneath each.

   [gen_permits] and [gen_principals_allowed] are the definitions the translator
   (harness/c11/translate.py) regenerated from src/pyramid/authorization.py on
   THIS run (Gen/Facts_C11.v); [permits] and [principals_allowed] are the
   hand-written reference model.  The first two theorems say that the two are
   the same functions; every property theorem is then stated twice, for the
   reference model and (suffix _generated) literally for the regenerated
   program. *)
From Coq Require Import List NArith Bool.
Import ListNotations.
Require Import Verif.Lib.Wire Verif.Gen.Facts_C11 Verif.Model.C11 Verif.Proofs.C11 Verif.Proofs.C11_gen Verif.Proofs.C11_char Verif.Proofs.C11_lineage.

Theorem C11_generated_permits_is_model : forall L ps p,
  gen_permits L ps p = permits L ps p.
Proof. exact gen_permits_is_model. Qed.
Print Assumptions C11_generated_permits_is_model.

Theorem C11_generated_principals_allowed_is_model : forall L p,
  gen_principals_allowed L p = principals_allowed L p.
Proof. exact gen_principals_allowed_is_model. Qed.
Print Assumptions C11_generated_principals_allowed_is_model.

(* the decision is that of the first matching ACE, context's ACL first, then
   each ancestor's; no match (or no ACL at all) refuses *)
Theorem C11_permits_first_match : forall L ps p,
  granted (permits L ps p) = spec_granted L ps p.
Proof. exact permits_first_match. Qed.
Print Assumptions C11_permits_first_match.

Theorem C11_permits_deciding_ace : forall L ps p,
  match permits L ps p with
  | Allowed d i | Denied d i =>
      exists a e, nth_error L d = Some (Some a) /\ nth_error a i = Some e
                  /\ first_match L ps p = Some e
                  /\ (act e = Allow <-> granted (permits L ps p) = true)
  | DefaultDeny => first_match L ps p = None
  end.
Proof. exact permits_deciding_ace. Qed.
Print Assumptions C11_permits_deciding_ace.

Theorem C11_permits_default_deny : forall L ps p,
  first_match L ps p = None -> permits L ps p = DefaultDeny.
Proof. exact permits_default_deny. Qed.
Print Assumptions C11_permits_default_deny.

Theorem C11_no_acl_refused : forall L ps p,
  Forall (fun o => o = None \/ o = Some []) L -> permits L ps p = DefaultDeny.
Proof. exact no_acl_refused. Qed.
Print Assumptions C11_no_acl_refused.

Theorem C11_child_decides : forall child parents ps p e,
  find (spec_matches ps p) child = Some e ->
  granted (permits (Some child :: parents) ps p) = decide (Some e).
Proof. exact child_decides. Qed.
Print Assumptions C11_child_decides.

(* every principal reported as allowed, presented together with Everyone, is granted *)
Theorem C11_allowed_consistent : forall L p q,
  wf_lineage L = true ->
  In q (principals_allowed L p) ->
  granted (permits L [q; everyone] p) = true.
Proof. exact allowed_consistent. Qed.
Print Assumptions C11_allowed_consistent.

Theorem C11_all_permissions_contains_everything : forall p, perm_in p PAll = true.
Proof. exact all_permissions_contains_everything. Qed.
Print Assumptions C11_all_permissions_contains_everything.

(* ---- the same properties, about the program regenerated from the source *)
Theorem C11_permits_first_match_generated : forall L ps p,
  granted (gen_permits L ps p) = spec_granted L ps p.
Proof. exact gen_permits_first_match. Qed.
Print Assumptions C11_permits_first_match_generated.

Theorem C11_permits_deciding_ace_generated : forall L ps p,
  match gen_permits L ps p with
  | Allowed d i | Denied d i =>
      exists a e, nth_error L d = Some (Some a) /\ nth_error a i = Some e
                  /\ first_match L ps p = Some e
                  /\ (act e = Allow <-> granted (gen_permits L ps p) = true)
  | DefaultDeny => first_match L ps p = None
  end.
Proof. exact gen_permits_deciding_ace. Qed.
Print Assumptions C11_permits_deciding_ace_generated.

Theorem C11_permits_default_deny_generated : forall L ps p,
  first_match L ps p = None -> gen_permits L ps p = DefaultDeny.
Proof. exact gen_permits_default_deny. Qed.
Print Assumptions C11_permits_default_deny_generated.

Theorem C11_no_acl_refused_generated : forall L ps p,
  Forall (fun o => o = None \/ o = Some []) L -> gen_permits L ps p = DefaultDeny.
Proof. exact gen_no_acl_refused. Qed.
Print Assumptions C11_no_acl_refused_generated.

Theorem C11_child_decides_generated : forall child parents ps p e,
  find (spec_matches ps p) child = Some e ->
  granted (gen_permits (Some child :: parents) ps p) = decide (Some e).
Proof. exact gen_child_decides. Qed.
Print Assumptions C11_child_decides_generated.

Theorem C11_allowed_consistent_generated : forall L p q,
  wf_lineage L = true ->
  In q (gen_principals_allowed L p) ->
  granted (gen_permits L [q; everyone] p) = true.
Proof. exact gen_allowed_consistent. Qed.
Print Assumptions C11_allowed_consistent_generated.

(* ---- the deprecated public wrapper ACLAuthorizationPolicy (regenerated delegation) *)
Theorem C11_generated_policy_permits_is_model : forall L ps p,
  gen_policy_permits L ps p = permits L ps p.
Proof. exact gen_policy_permits_is_model. Qed.
Print Assumptions C11_generated_policy_permits_is_model.

Theorem C11_generated_policy_principals_allowed_is_model : forall L p,
  gen_policy_principals_allowed L p = principals_allowed L p.
Proof. exact gen_policy_principals_allowed_is_model. Qed.
Print Assumptions C11_generated_policy_principals_allowed_is_model.

Theorem C11_policy_permits_first_match_generated : forall L ps p,
  granted (gen_policy_permits L ps p) = spec_granted L ps p.
Proof. exact gen_policy_permits_first_match. Qed.
Print Assumptions C11_policy_permits_first_match_generated.

Theorem C11_policy_allowed_consistent_generated : forall L p q,
  wf_lineage L = true ->
  In q (gen_policy_principals_allowed L p) ->
  granted (gen_policy_permits L [q; everyone] p) = true.
Proof. exact gen_policy_allowed_consistent. Qed.
Print Assumptions C11_policy_allowed_consistent_generated.

(* ---- the permission test.  [perm_in] runs the functions regenerated on this run from pyramid/util.py
   (is_nonstr_iter -> gen_is_nonstr_iter) and pyramid/security.py (AllPermissionsList.__contains__ ->
   gen_all_contains) inside the normalisation idiom; [perm_has] is the property's "permission set contains the
   permission": a single name contains itself, an iterable its elements, the all-permissions marker everything. *)
Theorem C11_permission_test_is_containment : forall p v,
  perm_in_with gen_is_nonstr_iter gen_all_contains p v = perm_has p v.
Proof. exact perm_in_spec. Qed.
Print Assumptions C11_permission_test_is_containment.

Theorem C11_normalisation_wraps_exactly_the_non_iterables : forall v,
  normalise gen_is_nonstr_iter v = match v with PStr _ | PAtom | PEq _ => Wrapped v | _ => Self v end.
Proof. exact normalise_spec. Qed.
Print Assumptions C11_normalisation_wraps_exactly_the_non_iterables.

(* `p in [v]` for an application object v (no str, not iterable) whose __eq__ equals exactly one name: v counts as that name *)
Theorem C11_eq_object_is_its_name : forall p s,
  perm_in_with gen_is_nonstr_iter gen_all_contains p (PEq s) = perm_in_with gen_is_nonstr_iter gen_all_contains p (PStr s).
Proof. exact eq_object_is_its_name. Qed.
Print Assumptions C11_eq_object_is_its_name.

(* without the normalisation a bare str permission is searched for substrings *)
Theorem C11_unnormalised_str_is_substring_test : forall p s,
  contains gen_all_contains p (Self (PStr s)) = is_substr p s.
Proof. exact raw_membership_is_substring. Qed.
Print Assumptions C11_unnormalised_str_is_substring_test.

(* ---- exact description of the reported principals (no hypothesis on the actions) *)
Theorem C11_principals_allowed_exact : forall L p q,
  In q (principals_allowed L p) <-> explicitly_allowed L p q = true.
Proof. exact principals_allowed_exact. Qed.
Print Assumptions C11_principals_allowed_exact.

Theorem C11_principals_allowed_exact_generated : forall L p q,
  In q (gen_principals_allowed L p) <-> explicitly_allowed L p q = true.
Proof. exact gen_principals_allowed_exact. Qed.
Print Assumptions C11_principals_allowed_exact_generated.

Theorem C11_principals_allowed_nodup_generated : forall L p, NoDup (gen_principals_allowed L p).
Proof. exact gen_principals_allowed_nodup. Qed.
Print Assumptions C11_principals_allowed_nodup_generated.

Theorem C11_reported_has_allow_entry : forall L p q,
  In q (principals_allowed L p) ->
  exists e, In e (flatten L) /\ act e = Allow /\ who e = q /\ perm_has p (what e) = true.
Proof. exact reported_has_allow_entry. Qed.
Print Assumptions C11_reported_has_allow_entry.

(* C11_allowed_consistent without its hypothesis is false of the faithful model (an ACE whose action is neither
   constant refuses in permits() and is ignored by principals_allowed_by_permission) *)
Theorem C11_allowed_consistent_refuted_without_wf :
  exists L p q, wf_lineage L = false /\ In q (principals_allowed L p) /\ granted (permits L [q; everyone] p) = false.
Proof. exact allowed_consistent_needs_wf. Qed.
Print Assumptions C11_allowed_consistent_refuted_without_wf.

(* ---- the public routes of pyramid/security.py, REGENERATED (harness/c11/translate_entry.py): has_permission,
   LegacySecurityPolicy.permits, principals_allowed_by_permission, view_execution_permitted *)
Theorem C11_generated_has_permission_is_model : forall R given ctx ps p,
  gen_has_permission R given ctx ps p = has_permission R given ctx ps p.
Proof. exact gen_has_permission_is_model. Qed.
Print Assumptions C11_generated_has_permission_is_model.

Theorem C11_generated_legacy_permits_is_model : forall L ps p, gen_legacy_permits L ps p = legacy_permits L ps p.
Proof. exact gen_legacy_permits_is_model. Qed.
Print Assumptions C11_generated_legacy_permits_is_model.

Theorem C11_generated_sec_principals_allowed_is_model : forall R L p,
  gen_sec_principals_allowed R L p = sec_principals_allowed R L p.
Proof. exact gen_sec_principals_allowed_is_model. Qed.
Print Assumptions C11_generated_sec_principals_allowed_is_model.

Theorem C11_generated_view_execution_permitted_is_model : forall R L ps,
  gen_view_execution_permitted R L ps = view_execution_permitted R L ps.
Proof. exact gen_view_execution_permitted_is_model. Qed.
Print Assumptions C11_generated_view_execution_permitted_is_model.

Theorem C11_has_permission_first_match : forall R given ctx ps p,
  has_policy R = true ->
  hp_granted (gen_has_permission R given ctx ps p)
  = spec_granted (match given with None => ctx | Some L => L end) ps p.
Proof. exact has_permission_first_match. Qed.
Print Assumptions C11_has_permission_first_match.

Theorem C11_has_permission_without_policy : forall R given ctx ps p,
  has_policy R = false -> gen_has_permission R given ctx ps p = NoPolicyAllowed.
Proof. exact has_permission_without_policy. Qed.
Print Assumptions C11_has_permission_without_policy.

Theorem C11_sec_principals_allowed_consistent : forall R L p q,
  has_policy R = true -> has_authz R = true -> wf_lineage L = true ->
  In q (gen_sec_principals_allowed R L p) ->
  hp_granted (gen_has_permission R None L [q; everyone] p) = true.
Proof. exact sec_principals_allowed_consistent. Qed.
Print Assumptions C11_sec_principals_allowed_consistent.

(* view_execution_permitted (single secured view, view without permission, MultiView, no view) *)
Theorem C11_view_execution_permitted_spec : forall R L ps,
  match vep_permission R with
  | Some q => vep_granted (gen_view_execution_permitted R L ps) = Some (spec_granted L ps q)
  | None => forall d, gen_view_execution_permitted R L ps <> VDecision d
  end.
Proof. exact view_execution_permitted_spec. Qed.
Print Assumptions C11_view_execution_permitted_spec.

(* ---- malformed inputs (outside the property's quantifier): __acl__ = None / a falsy non-iterable callable (XAclNone), an
   ACE that is not a 3-sequence (XBad).  Hand-written extension of the model (validated by a correspondence stream). *)
Theorem C11_malformed_permits_characterised : forall L ps p d,
  permits_x_from d L ps p =
  match permits_from d (fst (trunc L)) ps p with
  | DefaultDeny => if snd (trunc L) then XRaised else XDec DefaultDeny
  | dd => XDec dd
  end.
Proof. exact permits_x_trunc. Qed.
Print Assumptions C11_malformed_permits_characterised.

Theorem C11_malformed_extension_conservative : forall L ps p, permits_x (embed L) ps p = XDec (permits L ps p).
Proof. exact permits_x_conservative. Qed.
Print Assumptions C11_malformed_extension_conservative.

Theorem C11_malformed_never_grants_past_first_match : forall L ps p d,
  permits_x L ps p = XDec d -> granted d = true -> spec_granted (fst (trunc L)) ps p = true.
Proof. exact permits_x_grant_is_first_match. Qed.
Print Assumptions C11_malformed_never_grants_past_first_match.

Theorem C11_malformed_principals_allowed_when_returned : forall L p A,
  principals_allowed_x L p = Some A -> A = principals_allowed (strip L) p /\ ~ In XAclNone L.
Proof. exact principals_allowed_x_some. Qed.
Print Assumptions C11_malformed_principals_allowed_when_returned.

Theorem C11_malformed_principals_allowed_conservative : forall L p,
  principals_allowed_x (embed L) p = Some (principals_allowed L p).
Proof. exact principals_allowed_x_conservative. Qed.
Print Assumptions C11_malformed_principals_allowed_conservative.

Theorem C11_malformed_permits_vs_generated : forall L ps p,
  permits_x L ps p =
  match gen_permits (fst (trunc L)) ps p with
  | DefaultDeny => if snd (trunc L) then XRaised else XDec DefaultDeny
  | dd => XDec dd
  end.
Proof. exact permits_x_generated. Qed.
Print Assumptions C11_malformed_permits_vs_generated.

Theorem C11_malformed_principals_allowed_vs_generated : forall L p A,
  principals_allowed_x L p = Some A -> A = gen_principals_allowed (strip L) p.
Proof. exact principals_allowed_x_generated. Qed.
Print Assumptions C11_malformed_principals_allowed_vs_generated.

(* ---- pyramid.location.lineage, regenerated from the source as [gen_lineage] (a world of __parent__ pointers, fuel for
   the while loop).  [is_lineage W r l]: l is r, then r.__parent__, ... up to the first resource whose __parent__ is None
   or missing (Proofs/C11_lineage.v). *)
Theorem C11_generated_lineage_refines_model : forall W fuel r l,
  lineage_from W fuel r = Some l -> gen_lineage W fuel r = Some l.
Proof. exact gen_lineage_refines. Qed.
Print Assumptions C11_generated_lineage_refines_model.

Theorem C11_generated_lineage_sound : forall W fuel r l,
  gen_lineage W fuel r = Some l -> match r with Some x => is_lineage W x l | None => l = [] end.
Proof. exact gen_lineage_sound. Qed.
Print Assumptions C11_generated_lineage_sound.

(* equal up to the fuel boundary *)
Theorem C11_generated_lineage_agrees_with_model : forall W r l fuel,
  length l < fuel -> (gen_lineage W fuel (Some r) = Some l <-> lineage_from W fuel (Some r) = Some l).
Proof. exact gen_lineage_agrees_with_model. Qed.
Print Assumptions C11_generated_lineage_agrees_with_model.

(* no depth bound: whatever the length of the lineage, with more fuel than that the generator yields exactly it *)
Theorem C11_lineage_exact : forall W r l fuel,
  length l < fuel -> (gen_lineage W fuel (Some r) = Some l <-> is_lineage W r l).
Proof. exact gen_lineage_exact. Qed.
Print Assumptions C11_lineage_exact.

Theorem C11_lineage_unique : forall W r l1, is_lineage W r l1 -> forall l2, is_lineage W r l2 -> l1 = l2.
Proof. exact is_lineage_functional. Qed.
Print Assumptions C11_lineage_unique.

(* end to end: lineage() of the context, then the ACL scan = first matching ACE over the ACLs along THE lineage *)
Theorem C11_world_permits_first_match : forall W ctx l fuel ps p,
  is_lineage W ctx l -> length l < fuel ->
  exists d, world_permits W fuel ctx ps p = Some d
            /\ granted d = spec_granted (map (acl_of W) l) ps p.
Proof. exact world_permits_first_match. Qed.
Print Assumptions C11_world_permits_first_match.

Theorem C11_world_allowed_consistent : forall W ctx l fuel p q,
  is_lineage W ctx l -> length l < fuel -> wf_lineage (map (acl_of W) l) = true ->
  exists A d, world_principals_allowed W fuel ctx p = Some A
              /\ world_permits W fuel ctx [q; everyone] p = Some d
              /\ (In q A -> granted d = true).
Proof. exact world_allowed_consistent. Qed.
Print Assumptions C11_world_allowed_consistent.

(* the world the harness builds from a case: the regenerated lineage() recovers exactly the case's ACL list *)
Theorem C11_chain_world_acls : forall L e,
  L <> [] -> (forall y, e <> PTo y) ->
  world_acls (chain_world L e) (S (length (chain_world L e))) 0 = Some L.
Proof. exact chain_world_acls. Qed.
Print Assumptions C11_chain_world_acls.

(* END TO END, everything on the left regenerated from the source: request.has_permission(p, ctx) is granted iff the first
   matching ACE over the lineage of ctx for the policy's effective principals is an Allow *)
Theorem C11_has_permission_end_to_end : forall R W ctx l fuel reqctx ps p,
  has_policy R = true -> is_lineage W ctx l -> length l < fuel ->
  exists acls, world_acls W fuel ctx = Some acls /\ acls = map (acl_of W) l
    /\ (hp_granted (gen_has_permission R (Some acls) reqctx ps p) = true
        <-> exists e, first_match acls ps p = Some e /\ act e = Allow).
Proof. exact has_permission_end_to_end. Qed.
Print Assumptions C11_has_permission_end_to_end.

(* ---- proof-only round: monotonicity in the ancestors (Proofs/C11_more.v) *)
Require Import Verif.Proofs.C11_more.

(* a decision taken by an ACE of L is not changed by ANY ancestors put above L (verdict, location and ACE) *)
Theorem C11_permits_ancestors_irrelevant_once_decided : forall L A ps p,
  permits L ps p <> DefaultDeny -> permits (L ++ A) ps p = permits L ps p.
Proof. exact permits_app_decided. Qed.
Print Assumptions C11_permits_ancestors_irrelevant_once_decided.

Theorem C11_permits_ancestors_irrelevant_once_decided_generated : forall L A ps p,
  gen_permits L ps p <> DefaultDeny -> gen_permits (L ++ A) ps p = gen_permits L ps p.
Proof. exact gen_permits_app_decided. Qed.
Print Assumptions C11_permits_ancestors_irrelevant_once_decided_generated.

(* if nothing in L matches, the ancestors decide exactly as they would alone (location index shifted) *)
Theorem C11_permits_inherits_when_undecided_generated : forall L A ps p,
  gen_permits L ps p = DefaultDeny -> gen_permits (L ++ A) ps p = shift (length L) (gen_permits A ps p).
Proof. exact gen_permits_app_default. Qed.
Print Assumptions C11_permits_inherits_when_undecided_generated.

Theorem C11_spec_granted_app : forall L A ps p,
  spec_granted (L ++ A) ps p =
  match first_match L ps p with Some _ => spec_granted L ps p | None => spec_granted A ps p end.
Proof. exact spec_granted_app. Qed.
Print Assumptions C11_spec_granted_app.

(* world form (regenerated lineage() + scan): more ancestors above the old root, same ACLs below, same decision *)
Theorem C11_world_permits_ancestors : forall W W' ctx l l' fuel fuel' ps p d,
  is_lineage W ctx l -> length l < fuel ->
  is_lineage W' ctx (l ++ l') -> length (l ++ l') < fuel' ->
  map (acl_of W') l = map (acl_of W) l ->
  world_permits W fuel ctx ps p = Some d -> d <> DefaultDeny ->
  world_permits W' fuel' ctx ps p = Some d.
Proof. exact world_permits_ancestors. Qed.
Print Assumptions C11_world_permits_ancestors.

Theorem C11_has_permission_ancestors : forall R W W' ctx l l' reqctx ps p,
  has_policy R = true ->
  is_lineage W ctx l -> is_lineage W' ctx (l ++ l') -> map (acl_of W') l = map (acl_of W) l ->
  first_match (map (acl_of W) l) ps p <> None ->
  hp_granted (gen_has_permission R (Some (map (acl_of W') (l ++ l'))) reqctx ps p)
  = hp_granted (gen_has_permission R (Some (map (acl_of W) l)) reqctx ps p).
Proof. exact has_permission_ancestors. Qed.
Print Assumptions C11_has_permission_ancestors.

(* ---- proof-only round 3: a child's ACL and the principals reported for its parent (Proofs/C11_more2.v) *)
Require Import Verif.Proofs.C11_more2.

Theorem C11_principals_allowed_child : forall a L p q,
  In q (principals_allowed (Some a :: L) p) <->
  match scanx q p a with Some b => b = true | None => In q (principals_allowed L p) end.
Proof. exact principals_allowed_child. Qed.
Print Assumptions C11_principals_allowed_child.

Theorem C11_principals_allowed_child_generated : forall a L p q,
  In q (gen_principals_allowed (Some a :: L) p) <->
  match scanx q p a with Some b => b = true | None => In q (gen_principals_allowed L p) end.
Proof. exact gen_principals_allowed_child. Qed.
Print Assumptions C11_principals_allowed_child_generated.

Theorem C11_principals_allowed_no_acl : forall L p, principals_allowed (None :: L) p = principals_allowed L p.
Proof. exact principals_allowed_no_acl. Qed.
Print Assumptions C11_principals_allowed_no_acl.

Theorem C11_principals_allowed_inherits : forall a L p q,
  find (explicit_for q p) a = None ->
  (In q (principals_allowed (Some a :: L) p) <-> In q (principals_allowed L p)).
Proof. exact principals_allowed_inherits. Qed.
Print Assumptions C11_principals_allowed_inherits.

Theorem C11_principals_allowed_descendants_generated : forall D L p q,
  In q (gen_principals_allowed (D ++ L) p) <->
  match find (explicit_for q p) (flatten D) with
  | Some e => is_allow (act e) = true
  | None => In q (gen_principals_allowed L p)
  end.
Proof. exact gen_principals_allowed_app. Qed.
Print Assumptions C11_principals_allowed_descendants_generated.
