(* C11 -- property theorems only.  Each is closed by [exact] of a lemma proved
   in Proofs/C11.v; Print Assumptions beneath each. *)
From Coq Require Import List NArith Bool.
Import ListNotations.
Require Import Verif.Lib.Wire Verif.Gen.Facts_C11 Verif.Model.C11 Verif.Proofs.C11.

(* the decision is that of the first matching ACE, context's ACL first, then
   each ancestor's; no match (or no ACL at all) refuses *)
Theorem C11_permits_first_match : forall L ps p,
  granted (permits L ps p) = spec_granted L ps p.
Proof. exact permits_first_match. Qed.
Print Assumptions C11_permits_first_match.

Theorem C11_permits_deciding_ace : forall L ps p,
  match permits L ps p with
  | Allowed d i | Denied d i =>
      exists a e, nth_error L d = Some (Some a) /\ nth_error a i = Some e
                  /\ first_match L ps p = Some e
                  /\ (act e = Allow <-> granted (permits L ps p) = true)
  | DefaultDeny => first_match L ps p = None
  end.
Proof. exact permits_deciding_ace. Qed.
Print Assumptions C11_permits_deciding_ace.

Theorem C11_permits_default_deny : forall L ps p,
  first_match L ps p = None -> permits L ps p = DefaultDeny.
Proof. exact permits_default_deny. Qed.
Print Assumptions C11_permits_default_deny.

Theorem C11_no_acl_refused : forall L ps p,
  Forall (fun o => o = None \/ o = Some []) L -> permits L ps p = DefaultDeny.
Proof. exact no_acl_refused. Qed.
Print Assumptions C11_no_acl_refused.

Theorem C11_child_decides : forall child parents ps p e,
  find (ace_matches ps p) child = Some e ->
  granted (permits (Some child :: parents) ps p) = decide (Some e).
Proof. exact child_decides. Qed.
Print Assumptions C11_child_decides.

(* every principal reported as allowed, presented together with Everyone, is granted *)
Theorem C11_allowed_consistent : forall L p q,
  wf_lineage L = true ->
  In q (principals_allowed L p) ->
  granted (permits L [q; everyone] p) = true.
Proof. exact allowed_consistent. Qed.
Print Assumptions C11_allowed_consistent.

Theorem C11_all_permissions_contains_everything : forall p, perm_in p PAll = true.
Proof. exact all_permissions_contains_everything. Qed.
Print Assumptions C11_all_permissions_contains_everything.
