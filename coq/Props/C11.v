(* C11 -- property theorems only.  Each is closed by [exact] of a lemma proved
   in Proofs/C11.v / Proofs/C11_gen.v; Print Assumptions beneath each.

   [gen_permits] and [gen_principals_allowed] are the definitions the translator
   (harness/c11/translate.py) regenerated from src/pyramid/authorization.py on
   THIS run (Gen/Facts_C11.v); [permits] and [principals_allowed] are the
   hand-written reference model.  The first two theorems say that the two are
   the same functions; every property theorem is then stated twice, for the
   reference model and (suffix _generated) literally for the regenerated
   program. *)
From Coq Require Import List NArith Bool.
Import ListNotations.
Require Import Verif.Lib.Wire Verif.Gen.Facts_C11 Verif.Model.C11 Verif.Proofs.C11 Verif.Proofs.C11_gen.

Theorem C11_generated_permits_is_model : forall L ps p,
  gen_permits L ps p = permits L ps p.
Proof. exact gen_permits_is_model. Qed.
Print Assumptions C11_generated_permits_is_model.

Theorem C11_generated_principals_allowed_is_model : forall L p,
  gen_principals_allowed L p = principals_allowed L p.
Proof. exact gen_principals_allowed_is_model. Qed.
Print Assumptions C11_generated_principals_allowed_is_model.

(* the decision is that of the first matching ACE, context's ACL first, then
   each ancestor's; no match (or no ACL at all) refuses *)
Theorem C11_permits_first_match : forall L ps p,
  granted (permits L ps p) = spec_granted L ps p.
Proof. exact permits_first_match. Qed.
Print Assumptions C11_permits_first_match.

Theorem C11_permits_deciding_ace : forall L ps p,
  match permits L ps p with
  | Allowed d i | Denied d i =>
      exists a e, nth_error L d = Some (Some a) /\ nth_error a i = Some e
                  /\ first_match L ps p = Some e
                  /\ (act e = Allow <-> granted (permits L ps p) = true)
  | DefaultDeny => first_match L ps p = None
  end.
Proof. exact permits_deciding_ace. Qed.
Print Assumptions C11_permits_deciding_ace.

Theorem C11_permits_default_deny : forall L ps p,
  first_match L ps p = None -> permits L ps p = DefaultDeny.
Proof. exact permits_default_deny. Qed.
Print Assumptions C11_permits_default_deny.

Theorem C11_no_acl_refused : forall L ps p,
  Forall (fun o => o = None \/ o = Some []) L -> permits L ps p = DefaultDeny.
Proof. exact no_acl_refused. Qed.
Print Assumptions C11_no_acl_refused.

Theorem C11_child_decides : forall child parents ps p e,
  find (ace_matches ps p) child = Some e ->
  granted (permits (Some child :: parents) ps p) = decide (Some e).
Proof. exact child_decides. Qed.
Print Assumptions C11_child_decides.

(* every principal reported as allowed, presented together with Everyone, is granted *)
Theorem C11_allowed_consistent : forall L p q,
  wf_lineage L = true ->
  In q (principals_allowed L p) ->
  granted (permits L [q; everyone] p) = true.
Proof. exact allowed_consistent. Qed.
Print Assumptions C11_allowed_consistent.

Theorem C11_all_permissions_contains_everything : forall p, perm_in p PAll = true.
Proof. exact all_permissions_contains_everything. Qed.
Print Assumptions C11_all_permissions_contains_everything.

(* ---- the same properties, about the program regenerated from the source *)
Theorem C11_permits_first_match_generated : forall L ps p,
  granted (gen_permits L ps p) = spec_granted L ps p.
Proof. exact gen_permits_first_match. Qed.
Print Assumptions C11_permits_first_match_generated.

Theorem C11_permits_deciding_ace_generated : forall L ps p,
  match gen_permits L ps p with
  | Allowed d i | Denied d i =>
      exists a e, nth_error L d = Some (Some a) /\ nth_error a i = Some e
                  /\ first_match L ps p = Some e
                  /\ (act e = Allow <-> granted (gen_permits L ps p) = true)
  | DefaultDeny => first_match L ps p = None
  end.
Proof. exact gen_permits_deciding_ace. Qed.
Print Assumptions C11_permits_deciding_ace_generated.

Theorem C11_permits_default_deny_generated : forall L ps p,
  first_match L ps p = None -> gen_permits L ps p = DefaultDeny.
Proof. exact gen_permits_default_deny. Qed.
Print Assumptions C11_permits_default_deny_generated.

Theorem C11_no_acl_refused_generated : forall L ps p,
  Forall (fun o => o = None \/ o = Some []) L -> gen_permits L ps p = DefaultDeny.
Proof. exact gen_no_acl_refused. Qed.
Print Assumptions C11_no_acl_refused_generated.

Theorem C11_child_decides_generated : forall child parents ps p e,
  find (ace_matches ps p) child = Some e ->
  granted (gen_permits (Some child :: parents) ps p) = decide (Some e).
Proof. exact gen_child_decides. Qed.
Print Assumptions C11_child_decides_generated.

Theorem C11_allowed_consistent_generated : forall L p q,
  wf_lineage L = true ->
  In q (gen_principals_allowed L p) ->
  granted (gen_permits L [q; everyone] p) = true.
Proof. exact gen_allowed_consistent. Qed.
Print Assumptions C11_allowed_consistent_generated.

(* ---- the deprecated public wrapper ACLAuthorizationPolicy (regenerated delegation) *)
Theorem C11_generated_policy_permits_is_model : forall L ps p,
  gen_policy_permits L ps p = permits L ps p.
Proof. exact gen_policy_permits_is_model. Qed.
Print Assumptions C11_generated_policy_permits_is_model.

Theorem C11_generated_policy_principals_allowed_is_model : forall L p,
  gen_policy_principals_allowed L p = principals_allowed L p.
Proof. exact gen_policy_principals_allowed_is_model. Qed.
Print Assumptions C11_generated_policy_principals_allowed_is_model.

Theorem C11_policy_permits_first_match_generated : forall L ps p,
  granted (gen_policy_permits L ps p) = spec_granted L ps p.
Proof. exact gen_policy_permits_first_match. Qed.
Print Assumptions C11_policy_permits_first_match_generated.

Theorem C11_policy_allowed_consistent_generated : forall L p q,
  wf_lineage L = true ->
  In q (gen_policy_principals_allowed L p) ->
  granted (gen_policy_permits L [q; everyone] p) = true.
Proof. exact gen_policy_allowed_consistent. Qed.
Print Assumptions C11_policy_allowed_consistent_generated.
