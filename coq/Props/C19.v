(* C19 -- property theorems only.  Each is closed by [exact] of a lemma proved
   in Proofs/C19.v; Print Assumptions beneath each. *)
From Coq Require Import List NArith Bool.
Import ListNotations.
Require Import Verif.Lib.Wire Verif.Gen.Facts_C19 Verif.Model.C19 Verif.Proofs.C19.

(* prepare() as written (choices regenerated from the source) renders exactly what the
   specification policy renders, for every input *)
Theorem C19_model_meets_spec : forall i, model i = spec i.
Proof. exact model_meets_spec. Qed.
Print Assumptions C19_model_meets_spec.
