(* C19 -- property theorems only.  Each is closed by [exact] of a lemma proved
   in Proofs/C19.v; Print Assumptions beneath each. *)
From Coq Require Import List NArith Bool.
Import ListNotations.
Require Import Verif.Lib.Wire Verif.Lib.Utf8 Verif.Model.C19_base Verif.Gen.Facts_C19 Verif.Model.C19 Verif.Proofs.C19 Verif.Proofs.C19_gen.
Open Scope N_scope.

(* ---- the program REGENERATED from the source on this run equals the reference model.
   [model] runs gen_init / gen_move_init, then gen_call (= gen_prepare, then Response.__call__)
   of Gen/Facts_C19.v; [spec] is the hand-written prepare under the specification policy
   (html_escape on every supplied text in the HTML form, text as is in JSON / plain). *)
Theorem C19_generated_is_spec : forall i, model i = spec i.
Proof. exact generated_is_spec. Qed.
Print Assumptions C19_generated_is_spec.

(* the constructors: HTTPException.__init__ and _HTTPMove.__init__ build the reference object *)
Theorem C19_generated_object_is_model : forall c i, gen_obj c i = ref_obj c i.
Proof. exact gen_obj_is_model. Qed.
Print Assumptions C19_generated_object_is_model.

(* prepare() on an object without a body, for every negotiation oracle *)
Theorem C19_generated_prepare_is_model : forall neg c i o,
  fresh_like c i o ->
  i_offers i = neg (env_get accept_key accept_default (i_environ i)) offers ->
  gen_prepare neg o (i_environ i) = ref_prepare c i o.
Proof. exact gen_prepare_is_model. Qed.
Print Assumptions C19_generated_prepare_is_model.

(* prepare() on an object that already carries a body does nothing *)
Theorem C19_generated_prepare_stored : forall neg o env, ob_body o <> [] -> gen_prepare neg o env = Ok o.
Proof. exact gen_prepare_stored. Qed.
Print Assumptions C19_generated_prepare_stored.

(* Template.substitute is one left-to-right pass: the token list depends on the template only,
   and the result is the concatenation of template characters, '$' for '$$' and the mapping's
   values; values are never scanned *)
Theorem C19_substitute_single_pass : forall tmpl e out,
  substitute tmpl e = Ok out <->
  Forall (tok_ok e) (tokenise tmpl) /\ out = flat_map (tok_text e) (tokenise tmpl).
Proof. exact substitute_single_pass. Qed.
Print Assumptions C19_substitute_single_pass.

(* For every branch (HTML, JSON, plain), class, template (class or custom body_template=),
   headers, environ, comment, explanation there is ONE frame -- or one error -- such that for
   every detail text the page is that frame with the escaped detail plugged in verbatim:
   placeholders inside the detail are never expanded, nothing outside it depends on it. *)
Theorem C19_no_placeholder_expansion : forall b c i, exists R : res frame, forall d,
  page_text spec_policy b c (with_detail i d) =
  rmap (fun q => fill q (plug b (esc_apply (b_esc b) (or_empty d)))) R.
Proof. exact no_placeholder_expansion. Qed.
Print Assumptions C19_no_placeholder_expansion.

(* html_escape output: no angle bracket, no quote, ASCII only *)
Theorem C19_escape_no_markup : forall s c,
  In c (html_escape s) -> is_markup c = false /\ c <? 128 = true.
Proof. exact escape_no_markup. Qed.
Print Assumptions C19_escape_no_markup.

(* html_escape output is a sequence of units, one per input character: a plain ASCII
   character other than ampersand, angle brackets, quotes, or one complete character reference *)
Theorem C19_escape_units : forall s,
  html_escape s = concat (map html_escape1 s) /\ Forall unit_ok (map html_escape1 s).
Proof. exact escape_units. Qed.
Print Assumptions C19_escape_units.

(* an ampersand occurs in a unit only as its first character, and then the unit is a
   complete reference *)
Theorem C19_escape_amp_refs : forall u, unit_ok u -> forall a b, u = a ++ 38 :: b ->
  a = [] /\ (u = ent_amp \/ u = ent_lt \/ u = ent_gt \/ u = ent_quot \/ u = ent_apos \/
             exists ds, ds <> [] /\ forallb is_digit ds = true /\ u = [38; 35] ++ ds ++ [59]).
Proof. exact unit_amp. Qed.
Print Assumptions C19_escape_amp_refs.

(* Two renderings in the HTML form that differ only in the texts supplied (detail,
   explanation, comment, location, header values, environ values) have exactly the same
   sequence of markup characters, or fail alike: no angle bracket or quote of the page
   originates from supplied text.  Holds for class templates and custom templates. *)
Theorem C19_no_request_markup : forall c i i', same_shape i i' ->
  res_rel same_mk (page_text spec_policy bh c i) (page_text spec_policy bh c i').
Proof. exact no_request_markup. Qed.
Print Assumptions C19_no_request_markup.

(* the whole HTML response of every class that uses the default body template *)
Theorem C19_html_body_shape : forall i c,
  find_cls (i_cls i) classes = Some c -> c_empty c = false -> c_default_tmpl c = true -> i_tmpl i = None ->
  chosen_type i = t_html ->
  spec i = Some (rmap (mkOutput (status_of c) t_html cs_utf8)
    (utf8_bytes
      (H1 ++ status_of c ++ H2 ++ status_of c ++ H3 ++
       (html_escape (expl_of c i) ++ s_br_html ++ s_br_html ++ [10] ++
        html_escape (or_empty (i_detail i)) ++ [10] ++
        (if is_nil (or_empty (i_comment i)) then [] else s_cpre ++ html_escape (or_empty (i_comment i)) ++ s_csuf) ++ [10])
       ++ H4))).
Proof. exact html_body_shape. Qed.
Print Assumptions C19_html_body_shape.

(* the default 404 page (the router passes request.path_info as detail): fixed text around
   the escaped path *)
Theorem C19_not_found_page_safe : exists st pre post,
  (forall path i,
     i_cls i = n_notfound -> i_detail i = Some path -> i_comment i = None -> i_expl i = None ->
     i_tmpl i = None -> chosen_type i = t_html ->
     spec i = Some (rmap (mkOutput st t_html cs_utf8) (utf8_bytes (pre ++ html_escape path ++ post))))
  /\ (forall path ch, In ch (html_escape path) -> is_markup ch = false /\ ch <? 128 = true).
Proof. exact not_found_page_safe. Qed.
Print Assumptions C19_not_found_page_safe.

(* the content type is that of the first offer the negotiation kept, else text/plain *)
Theorem C19_content_type_matches : forall i c o,
  Forall (fun t => In t offers) (i_offers i) ->
  find_cls (i_cls i) classes = Some c -> c_empty c = false ->
  spec i = Some (Ok o) ->
  o_ctype o = spec_type i /\
  (o_ctype o = t_html /\ o_charset o = cs_utf8 \/ o_ctype o = t_json /\ o_charset o = [] \/
   o_ctype o = t_plain /\ o_charset o = cs_utf8).
Proof. exact content_type_matches. Qed.
Print Assumptions C19_content_type_matches.

(* json.dumps output reads back: the reference RFC 8259 reader returns exactly the members *)
Theorem C19_json_roundtrip : forall k1 k2 k3 a b c,
  forallb valid_scalar k1 = true -> forallb valid_scalar k2 = true -> forallb valid_scalar k3 = true ->
  forallb valid_scalar a = true -> forallb valid_scalar b = true -> forallb valid_scalar c = true ->
  json_read_object (json_object [(k1, a); (k2, b); (k3, c)]) = Some [(k1, a); (k2, b); (k3, c)].
Proof. exact json_object3_roundtrip. Qed.
Print Assumptions C19_json_roundtrip.

(* In the JSON form the body is ASCII and is a JSON object which reads back to
   message / code / title, the message being the rendered text character for character
   (for text made of Unicode scalar values) *)
Theorem C19_json_verbatim : forall i c body,
  find_cls (i_cls i) classes = Some c -> c_empty c = false -> chosen_type i = t_json ->
  substitute (tmpl_of c i) (build_args spec_policy bj c i (is_custom c i)) = Ok body ->
  forallb valid_scalar body = true ->
  exists bytes,
    spec i = Some (Ok (mkOutput (status_of c) t_json [] bytes)) /\ ascii bytes /\
    json_read_object bytes = Some [(k_message, body); (k_code, status_of c); (k_title, c_title c)].
Proof. exact json_verbatim. Qed.
Print Assumptions C19_json_verbatim.

(* ... where, for the classes using the default body template, the rendered text is the
   explanation, three newlines, the detail verbatim, a newline, the comment verbatim, a newline *)
Theorem C19_json_default_message : forall c i,
  c_default_tmpl c = true -> c_tmpl c = default_body_template -> i_tmpl i = None ->
  substitute (tmpl_of c i) (build_args spec_policy bj c i (is_custom c i)) =
  Ok (expl_of c i ++ [10; 10; 10] ++ or_empty (i_detail i) ++ [10] ++ or_empty (i_comment i) ++ [10]).
Proof. exact json_default_message. Qed.
Print Assumptions C19_json_default_message.

(* markup characters are untouched by the UTF-8 encoding of the page: the statements about
   the page text carry over to the body bytes *)
Theorem C19_markup_bytes : forall s, mk (Utf8.encode s) = mk s.
Proof. exact mk_encode. Qed.
Print Assumptions C19_markup_bytes.

(* the frame statement for the explanation text (instance attribute) *)
Theorem C19_no_placeholder_expansion_expl : forall b c i, exists R : res frame, forall x,
  page_text spec_policy b c (with_expl i x) =
  rmap (fun q => fill q (plug b (esc_apply (b_esc b) x))) R.
Proof. exact no_placeholder_expansion_expl. Qed.
Print Assumptions C19_no_placeholder_expansion_expl.

(* ---- frame statements for the remaining supplied values: for every branch, class, class or
   custom template and all other values there is ONE frame (or one error) such that, for every
   text x, the page is that frame with the escaped x plugged in.  Together with the detail and
   explanation statements above this covers every request-derived value. *)
Theorem C19_frame_comment : forall b c i, b_comment_escaped b = true ->
  exists R : res frame, forall x, x <> [] ->
    page_text spec_policy b c (with_comment i (Some x)) =
    rmap (fun q => fill q (plug b (esc_apply (b_esc b) x))) R.
Proof. exact frame_comment. Qed.
Print Assumptions C19_frame_comment.

Theorem C19_frame_location : forall b c i,
  exists R : res frame, forall x,
    page_text spec_policy b c (with_location i x) =
    rmap (fun q => fill q (plug b (esc_apply (b_esc b) x))) R.
Proof. exact frame_location. Qed.
Print Assumptions C19_frame_location.

Theorem C19_frame_header : forall b c i l1 k l2,
  exists R : res frame, forall x,
    page_text spec_policy b c (with_headers i (l1 ++ (k, x) :: l2)) =
    rmap (fun q => fill q (plug b (esc_apply (b_esc b) x))) R.
Proof. exact frame_header. Qed.
Print Assumptions C19_frame_header.

Theorem C19_frame_environ : forall b c i l1 k l2,
  exists R : res frame, forall x,
    page_text spec_policy b c (with_environ i (l1 ++ (k, x) :: l2)) =
    rmap (fun q => fill q (plug b (esc_apply (b_esc b) x))) R.
Proof. exact frame_environ. Qed.
Print Assumptions C19_frame_environ.

(* ---- explicit HTML responses of the classes with their own body template *)
(* redirect classes (every class taking location=): no extra response header and no unskipped
   environ key named explanation / location / detail / html_comment *)
Theorem C19_html_move_shape : forall i c,
  find_cls (i_cls i) classes = Some c -> c_empty c = false -> c_move c = true -> i_tmpl i = None ->
  chosen_type i = t_html -> hdr_clear move_keys (i_headers i) -> env_clear move_keys (i_environ i) ->
  spec i = Some (rmap (mkOutput (status_of c) t_html cs_utf8)
    (utf8_bytes (H1 ++ status_of c ++ H2 ++ status_of c ++ H3 ++
       (html_escape (expl_of c i) ++ [32] ++ html_escape (i_location i) ++ M1 ++
        html_escape (or_empty (i_detail i)) ++ [10] ++ html_comment_of bh i) ++ H4))).
Proof. exact html_move_response. Qed.
Print Assumptions C19_html_move_shape.

(* 405: the request method comes from the environ and is escaped *)
Theorem C19_html_405_shape : forall i e1 m e2,
  i_cls i = n_405 -> i_tmpl i = None -> chosen_type i = t_html ->
  i_environ i = e1 ++ (k_request_method, m) :: e2 -> env_clear [k_request_method] e2 ->
  hdr_clear [s_k_br; s_k_detail] (i_headers i) -> env_clear [s_k_br; s_k_detail] (i_environ i) ->
  exists st, spec i = Some (rmap (mkOutput st t_html cs_utf8)
    (utf8_bytes (H1 ++ st ++ H2 ++ st ++ H3 ++
       (MNA1 ++ html_escape m ++ MNA2 ++ s_br_html ++ s_br_html ++ [10] ++ html_escape (or_empty (i_detail i))) ++ H4))).
Proof. exact html_405_response. Qed.
Print Assumptions C19_html_405_shape.

(* json.dumps of any non-empty object of string members reads back exactly *)
Theorem C19_json_roundtrip_any : forall kvs,
  kvs <> [] -> forallb kv_valid kvs = true -> json_read_object (json_object kvs) = Some kvs.
Proof. exact json_object_roundtrip. Qed.
Print Assumptions C19_json_roundtrip_any.

(* ---- one exception object called several times (object state: a successful prepare() stores
   body, content type and charset; later prepare() calls are no-ops) *)
(* Every response, at any point of any sequence of calls with any environs and negotiation
   results, is -- status, content type, charset and body together -- exactly the specified
   single-call rendering for one of the calls made so far: a content type never labels a body
   rendered for another form, and the body obeys the escaping rule of its form. *)
Theorem C19_history_consistent : forall i l k o,
  nth_error (ref_calls i l) k = Some (Some (Ok o)) ->
  exists j s, (j <= k)%nat /\ nth_error l j = Some s /\ spec (with_call i s) = Some (Ok o).
Proof. exact history_consistent. Qed.
Print Assumptions C19_history_consistent.

(* the executable form of the same statement, used to judge observed histories *)
Theorem C19_history_check : forall i l, history_ok (ref_calls i l) (spec_singles i l) = true.
Proof. exact history_consistent_b. Qed.
Print Assumptions C19_history_check.

Theorem C19_history_check_sound : forall rs seen singles,
  history_ok_from seen rs singles = true ->
  forall k o, nth_error rs k = Some (Some (Ok o)) ->
    In (Some (Ok o)) seen \/ exists j, (j <= k)%nat /\ nth_error singles j = Some (Some (Ok o)).
Proof. exact history_ok_sound. Qed.
Print Assumptions C19_history_check_sound.

(* the first call is an ordinary rendering; once a non-empty body is stored every call repeats it *)
Theorem C19_history_first : forall i s r,
  ref_calls i (s :: r) = spec (with_call i s) :: calls spec_policy i (stored (spec (with_call i s))) r.
Proof. exact history_first. Qed.
Print Assumptions C19_history_first.

Theorem C19_history_sticky : forall P i o l, calls P i (Some o) l = map (fun _ => Some (Ok o)) l.
Proof. exact calls_sticky. Qed.
Print Assumptions C19_history_sticky.

(* ---- the regenerated program threaded through any sequence of calls is the reference history,
   and the history theorems hold of the regenerated program itself *)
Theorem C19_generated_history_is_model : forall i l, model_calls i l = ref_calls i l.
Proof. exact generated_history_is_model. Qed.
Print Assumptions C19_generated_history_is_model.

Theorem C19_history_consistent_generated : forall i l k o,
  nth_error (model_calls i l) k = Some (Some (Ok o)) ->
  exists j s, (j <= k)%nat /\ nth_error l j = Some s /\ model (with_call i s) = Some (Ok o).
Proof. exact history_consistent_generated. Qed.
Print Assumptions C19_history_consistent_generated.

Theorem C19_history_check_generated : forall i l, history_ok (model_calls i l) (spec_singles i l) = true.
Proof. exact history_check_generated. Qed.
Print Assumptions C19_history_check_generated.

(* ---- fifth round: the constructor's other keywords (json_formatter=, content_type=, charset=).
   [model_x] runs the regenerated constructors with the formatter and the keywords, then the
   regenerated prepare / __call__; [spec_x] is the hand-written reference with them. *)
Theorem C19_generated_is_spec_x : forall x, model_x x = spec_x x.
Proof. exact generated_is_spec_x. Qed.
Print Assumptions C19_generated_is_spec_x.

Theorem C19_generated_object_is_model_x : forall c x, gen_obj_x c x = ref_obj_x c x.
Proof. exact gen_obj_is_model_x. Qed.
Print Assumptions C19_generated_object_is_model_x.

(* prepare() on an object without a body whatever Content-Type / charset the constructor's keywords left *)
Theorem C19_generated_prepare_is_model_x : forall neg c x o,
  fresh_like_x c x o ->
  i_offers (x_in x) = neg (env_get accept_key accept_default (i_environ (x_in x))) offers ->
  gen_prepare neg o (i_environ (x_in x)) = ref_prepare_x c x o.
Proof. exact gen_prepare_is_model_x. Qed.
Print Assumptions C19_generated_prepare_is_model_x.

(* content_type= / charset= given to the constructor never show in the response: the label is
   the negotiated form's, whatever the keywords say *)
Theorem C19_kw_irrelevant : forall i f ck cs, spec_x (mkX i f ck cs) = spec_x (mkX i f None None).
Proof. exact kw_irrelevant. Qed.
Print Assumptions C19_kw_irrelevant.

(* without a formatter the extended specification is the core one (every theorem above applies) *)
Theorem C19_no_formatter_core : forall i ck cs, spec_x (mkX i None ck cs) = spec i.
Proof. exact no_formatter_core. Qed.
Print Assumptions C19_no_formatter_core.

(* a custom formatter is consulted in the JSON form only *)
Theorem C19_formatter_only_json : forall x, chosen_type (x_in x) <> t_json -> spec_x x = spec (x_in x).
Proof. exact formatter_only_json. Qed.
Print Assumptions C19_formatter_only_json.

(* JSON form with a custom formatter: body template rendered in one pass, handed to the
   formatter, json.dumps of its members; label application/json, ASCII body that reads back
   (reference RFC 8259 reader) to exactly the members *)
Theorem C19_formatter_json_valid : forall x c f o,
  find_cls (i_cls (x_in x)) classes = Some c -> c_empty c = false -> chosen_type (x_in x) = t_json ->
  x_fmt x = Some f -> spec_x x = Some (Ok o) ->
  exists body members,
    substitute (tmpl_of c (x_in x)) (build_args spec_policy bj c (x_in x) (is_custom c (x_in x))) = Ok body /\
    apply_fmt f (status_of c) body (c_title c) (i_environ (x_in x)) [] = Ok members /\
    o_ctype o = t_json /\ o_body o = json_object members /\ ascii (o_body o) /\
    (members <> [] -> forallb kv_valid members = true -> json_read_object (o_body o) = Some members).
Proof. exact formatter_json_valid. Qed.
Print Assumptions C19_formatter_json_valid.

(* a formatter that raises KeyError yields no response at all (never a differently rendered body
   under the application/json label) *)
Theorem C19_formatter_error_no_response : forall x c f body,
  find_cls (i_cls (x_in x)) classes = Some c -> c_empty c = false -> chosen_type (x_in x) = t_json ->
  x_fmt x = Some f ->
  substitute (tmpl_of c (x_in x)) (build_args spec_policy bj c (x_in x) (is_custom c (x_in x))) = Ok body ->
  apply_fmt f (status_of c) body (c_title c) (i_environ (x_in x)) [] = KeyErr ->
  spec_x x = Some KeyErr.
Proof. exact formatter_error_no_response. Qed.
Print Assumptions C19_formatter_error_no_response.

(* histories with formatter / keywords *)
Theorem C19_generated_history_is_model_x : forall x l, model_calls_x x l = ref_calls_x x l.
Proof. exact generated_history_is_model_x. Qed.
Print Assumptions C19_generated_history_is_model_x.

Theorem C19_history_check_generated_x : forall x l, history_ok (model_calls_x x l) (spec_singles_x x l) = true.
Proof. exact history_check_generated_x. Qed.
Print Assumptions C19_history_check_generated_x.

Theorem C19_history_consistent_generated_x : forall x l k o,
  nth_error (model_calls_x x l) k = Some (Some (Ok o)) ->
  exists j s, (j <= k)%nat /\ nth_error l j = Some s /\ model_x (with_call_x x s) = Some (Ok o).
Proof. exact history_consistent_generated_x. Qed.
Print Assumptions C19_history_consistent_generated_x.

(* the whole response of every default-template class in the plain-text form: status line, blank
   line, explanation, three newlines, the detail verbatim, newline, the comment verbatim, newline *)
Theorem C19_plain_body_shape : forall i c,
  find_cls (i_cls i) classes = Some c -> c_empty c = false -> c_default_tmpl c = true -> i_tmpl i = None ->
  chosen_type i <> t_html -> chosen_type i <> t_json ->
  spec i = Some (rmap (mkOutput (status_of c) t_plain cs_utf8)
    (utf8_bytes (status_of c ++ [10; 10] ++
                 expl_of c i ++ [10; 10; 10] ++ or_empty (i_detail i) ++ [10] ++ or_empty (i_comment i) ++ [10]))).
Proof. exact plain_body_shape. Qed.
Print Assumptions C19_plain_body_shape.

(* sixth round: whatever Content-Type / charset a NewResponse subscriber, a response callback or a
   tween wrote on the exception object before Router.__call__ calls it, the client gets the response
   labelled with the form prepare() renders (classes with a body) *)
Theorem C19_relabel_irrelevant : forall neg c x ct cs,
  c_empty c = false ->
  i_offers (x_in x) = neg (env_get accept_key accept_default (i_environ (x_in x))) offers ->
  rmap fst (gen_call neg (set_resp (ref_obj_x c x) ct cs []) (i_environ (x_in x))) =
  rmap fst (gen_call neg (ref_obj_x c x) (i_environ (x_in x))).
Proof. exact relabel_irrelevant. Qed.
Print Assumptions C19_relabel_irrelevant.

(* sixth round: the raise sites outside httpexceptions.py (router not-found, static view: missing / out of
   bounds / add-slash redirect, append-slash Not Found view): the argument expressions regenerated from
   router.py / static.py / view.py equal the reference *)
Theorem C19_sites_generated_are_model : forall r,
  gen_site_router r = site_router r /\ gen_site_static_missing r = site_static_missing r /\
  gen_site_static_oob r = site_static_oob r /\ gen_site_static_slash r = site_static_slash r /\
  gen_site_append_slash r = site_append_slash r.
Proof. exact sites_generated_are_model. Qed.
Print Assumptions C19_sites_generated_are_model.

(* no site passes a body template, a comment, an explanation or headers; the detail is a request
   property behind a fixed prefix *)
Theorem C19_sites_plain_inputs : forall name f r en ofs,
  site_ref name = Some f ->
  let i := input_of (f r) en ofs in
  i_tmpl i = None /\ i_comment i = None /\ i_expl i = None /\ i_headers i = [] /\
  (i_detail i = None \/ exists pre, i_detail i = Some (pre ++ r_path_info r) \/ i_detail i = Some (pre ++ r_url r)).
Proof. exact sites_plain_inputs. Qed.
Print Assumptions C19_sites_plain_inputs.

(* end to end: regenerated site expression, then regenerated constructor / prepare / __call__ = the
   specification applied to what the reference site raises *)
Theorem C19_site_model_is_spec : forall name g f r en ofs,
  site_gen name = Some g -> site_ref name = Some f ->
  model (input_of (g r) en ofs) = spec (input_of (f r) en ofs).
Proof. exact site_model_is_spec. Qed.
Print Assumptions C19_site_model_is_spec.

(* seventh round: _no_escape regenerated from the source is the identity on a str *)
Theorem C19_no_escape_generated_is_model : forall v, gen_no_escape v = no_escape v.
Proof. exact gen_no_escape_is_model. Qed.
Print Assumptions C19_no_escape_generated_is_model.

(* the predicate-mismatch / secured-view / CSRF-origin messages computed with the formats regenerated
   from the source equal those computed with the reference formats, for every site and argument list *)
Theorem C19_msite_generated_is_model : forall name args, msite_gen name args = msite_ref name args.
Proof. exact msite_generated_is_model. Qed.
Print Assumptions C19_msite_generated_is_model.

(* ... and the page of such an exception is the specification's for the reference message *)
Theorem C19_site_m_model_is_spec : forall name args g en ofs,
  msite_gen name args = Some g ->
  msite_ref name args = Some g /\ model (input_of_m g en ofs) = spec (input_of_m g en ofs).
Proof. exact site_m_model_is_spec. Qed.
Print Assumptions C19_site_m_model_is_spec.

(* an empty comment renders exactly as no comment (complements C19_frame_comment, stated for non-empty comments) *)
Theorem C19_comment_empty_is_none : forall b c i,
  page_text spec_policy b c (with_comment i (Some [])) = page_text spec_policy b c (with_comment i None).
Proof. exact comment_empty_is_none. Qed.
Print Assumptions C19_comment_empty_is_none.
Theorem C19_spec_comment_empty_is_none : forall i, spec (with_comment i (Some [])) = spec (with_comment i None).
Proof. exact spec_comment_empty_is_none. Qed.
Print Assumptions C19_spec_comment_empty_is_none.

(* last round: '%s' formatting inserts the argument verbatim after '%'-free text and never scans it *)
Theorem C19_format_s_no_rescan : forall pre suf a rest,
  Forall (fun c => c <> 37) pre ->
  format_s (pre ++ 37 :: 115 :: suf) (a :: rest) = pre ++ a ++ format_s suf rest.
Proof. exact format_s_no_rescan. Qed.
Print Assumptions C19_format_s_no_rescan.

(* exception_response(code, ..): the class taken from status_map has the requested code, a public name,
   is not one of the excluded bases and is a class of the table (so every theorem about classes applies) *)
Theorem C19_status_class_sound : forall code c,
  status_class code = Some c ->
  In c classes /\ c_code c = code /\ startswith [95] (c_name c) = false /\ mem_text (c_name c) status_map_excluded = false.
Proof. exact status_class_sound. Qed.
Print Assumptions C19_status_class_sound.

(* ================= proof-only round: end-to-end statements over all sites ================= *)
Require Import Verif.Proofs.C19_e2e.

(* a response is labelled text/html only when the HTML form was negotiated: plain-text and JSON bodies
   (supplied text verbatim) are never served as text/html -- specification, regenerated program on any
   input (incl. the class exception_response picked), and with the constructor keywords *)
Theorem C19_html_label_only_html_form : forall i o,
  spec i = Some (Ok o) -> o_ctype o = t_html -> chosen_type i = t_html.
Proof. exact html_label_only_html_form. Qed.
Print Assumptions C19_html_label_only_html_form.
Theorem C19_model_label : forall i o, model i = Some (Ok o) -> o_ctype o = t_html -> chosen_type i = t_html.
Proof. exact model_label. Qed.
Print Assumptions C19_model_label.
Theorem C19_model_x_label : forall x o, model_x x = Some (Ok o) -> o_ctype o = t_html -> chosen_type (x_in x) = t_html.
Proof. exact model_x_label. Qed.
Print Assumptions C19_model_x_label.

(* the same through the five raise sites and the four message sites *)
Theorem C19_site_label : forall name g f r en ofs o,
  site_gen name = Some g -> site_ref name = Some f ->
  model (input_of (g r) en ofs) = Some (Ok o) -> o_ctype o = t_html ->
  chosen_type (input_of (f r) en ofs) = t_html.
Proof. exact site_label. Qed.
Print Assumptions C19_site_label.
Theorem C19_msite_label : forall name args g en ofs o,
  msite_gen name args = Some g ->
  model (input_of_m g en ofs) = Some (Ok o) -> o_ctype o = t_html -> chosen_type (input_of_m g en ofs) = t_html.
Proof. exact msite_label. Qed.
Print Assumptions C19_msite_label.

(* message sites end to end (formats regenerated from the source -> bytes of the HTML page): fixed text that
   depends on class and explanation only, the html-escaped message, fixed text; the escaped message has no
   markup character and is ASCII *)
Theorem C19_msite_html_safe : forall name args g en ofs,
  msite_gen name args = Some g ->
  chosen_type (input_of_m g en ofs) = t_html ->
  exists c,
    find_cls (fst (fst g)) classes = Some c /\
    model (input_of_m g en ofs) =
      Some (rmap (mkOutput (status_of c) t_html cs_utf8)
                 (utf8_bytes (page_pre c (match snd g with Some e => e | None => c_expl c end)
                              ++ html_escape (snd (fst g)) ++ page_post))) /\
    (forall ch, In ch (html_escape (snd (fst g))) -> is_markup ch = false /\ ch <? 128 = true).
Proof. exact msite_html_safe. Qed.
Print Assumptions C19_msite_html_safe.

(* the not-found raise sites end to end (router, static view missing / out of bounds): the detail is a request
   property behind a fixed prefix and reaches the HTML page only through html_escape *)
Theorem C19_site_html_safe : forall name g f r en ofs,
  detail_site name = true -> site_gen name = Some g -> site_ref name = Some f ->
  chosen_type (input_of (f r) en ofs) = t_html ->
  exists c d,
    find_cls n_HTTPNotFound classes = Some c /\ ra_detail (f r) = Some d /\
    (exists pre, d = pre ++ r_path_info r \/ d = pre ++ r_url r) /\
    model (input_of (g r) en ofs) =
      Some (rmap (mkOutput (status_of c) t_html cs_utf8)
                 (utf8_bytes (page_pre c (c_expl c) ++ html_escape d ++ page_post))) /\
    (forall ch, In ch (html_escape d) -> is_markup ch = false /\ ch <? 128 = true).
Proof. exact site_html_safe. Qed.
Print Assumptions C19_site_html_safe.

(* exception_response(code) for a default-template class: explicit HTML page of the regenerated program *)
Theorem C19_factory_html_safe : forall code c i,
  status_class code = Some c -> find_cls (c_name c) classes = Some c -> i_cls i = c_name c ->
  c_empty c = false -> c_default_tmpl c = true -> i_tmpl i = None -> i_comment i = None -> chosen_type i = t_html ->
  c_code c = code /\
  model i = Some (rmap (mkOutput (status_of c) t_html cs_utf8)
                       (utf8_bytes (page_pre c (expl_of c i) ++ html_escape (or_empty (i_detail i)) ++ page_post))) /\
  (forall ch, In ch (html_escape (or_empty (i_detail i))) -> is_markup ch = false /\ ch <? 128 = true).
Proof. exact factory_html_safe. Qed.
Print Assumptions C19_factory_html_safe.

(* ================= proof-only round 3: class names are unique ================= *)
Require Import Verif.Proofs.C19_names.

(* every class name of the table regenerated from the source occurs once; hence a class of the table is the
   class found under its name *)
Theorem C19_class_names_unique : names_unique_b classes = true.
Proof. exact class_names_unique. Qed.
Print Assumptions C19_class_names_unique.
Theorem C19_find_cls_of_member : forall c, In c classes -> find_cls (c_name c) classes = Some c.
Proof. exact find_cls_of_member. Qed.
Print Assumptions C19_find_cls_of_member.

(* exception_response(code): the class picked is the class the regenerated constructors / prepare run on *)
Theorem C19_factory_model_class : forall code c i,
  status_class code = Some c -> i_cls i = c_name c ->
  model i = Some (rmap fst (gen_call (fun _ _ => i_offers i) (gen_obj c i) (i_environ i))).
Proof. exact factory_model_class. Qed.
Print Assumptions C19_factory_model_class.

(* C19_factory_html_safe without its find_cls hypothesis *)
Theorem C19_factory_html_safe_full : forall code c i,
  status_class code = Some c -> i_cls i = c_name c ->
  c_empty c = false -> c_default_tmpl c = true -> i_tmpl i = None -> i_comment i = None -> chosen_type i = t_html ->
  c_code c = code /\
  model i = Some (rmap (mkOutput (status_of c) t_html cs_utf8)
                       (utf8_bytes (page_pre c (expl_of c i) ++ html_escape (or_empty (i_detail i)) ++ page_post))) /\
  (forall ch, In ch (html_escape (or_empty (i_detail i))) -> is_markup ch = false /\ ch <? 128 = true).
Proof. exact factory_html_safe_full. Qed.
Print Assumptions C19_factory_html_safe_full.
