(* C13 -- property theorems only.  Part (a) theorems are about the skeletons
   REGENERATED from the source on every run (Gen/Facts_C13.v): [exec] is the
   nondeterministic semantics of Lib/C13Bracket.v in which every opaque call may
   return or raise, so each statement covers every failure site, every exception
   kind and any number of loop iterations.  Part (b) theorems are about the
   pipeline interpreter of Model/C13.v (validated against a real Router). *)
From Coq Require Import List NArith Bool.
Import ListNotations.
Require Import Verif.Lib.Wire Verif.Lib.C13Bracket Verif.Gen.Facts_C13 Verif.Model.C13 Verif.Proofs.C13.

(* Router.__call__ / default_execution_policy: the stack is back to what it was on normal and
   exceptional exit, and every marked moment (invoke_request, handle_request, response callbacks,
   NewResponse, finish_request, finished callbacks) happens with exactly this request's frame pushed *)
Theorem C13_wsgi_call_balanced : forall s k s' tr, exec prog_wsgi_call s k s' tr ->
  s' = s /\ forall m st, In (m, st) tr -> st = tag_request_context :: s.
Proof. exact wsgi_call_balanced. Qed.
Print Assumptions C13_wsgi_call_balanced.

Theorem C13_subrequest_balanced : forall s k s' tr, exec prog_subrequest s k s' tr ->
  s' = s /\ forall m st, In (m, st) tr -> st = tag_request_context :: s.
Proof. exact subrequest_balanced. Qed.
Print Assumptions C13_subrequest_balanced.

Theorem C13_request_context_manual_balanced : forall s k s' tr, exec prog_request_context_manual s k s' tr ->
  s' = s /\ forall m st, In (m, st) tr -> st = tag_request_context :: s.
Proof. exact request_context_manual_balanced. Qed.
Print Assumptions C13_request_context_manual_balanced.

(* request.invoke_exception_view and the excview tween: balanced; the exception view runs with the
   frame pushed by invoke_exception_view on top *)
Theorem C13_exception_view_balanced :
  (forall s k s' tr, exec prog_exception_view s k s' tr ->
     s' = s /\ forall st, In (mk_excview, st) tr -> st = tag_exception_view :: s) /\
  (forall s k s' tr, exec prog_excview_tween s k s' tr ->
     s' = s /\ forall st, In (mk_excview, st) tr -> st = tag_exception_view :: s).
Proof. exact exception_view_balanced. Qed.
Print Assumptions C13_exception_view_balanced.

(* commit / action(autocommit) / include / make_wsgi_app / route_prefix_context / with Configurator():
   balanced on every exit, the body runs under a configurator frame; begin is +1 (0 if it raises), end is -1 *)
Theorem C13_configurator_scopes_balanced :
  (forall p, In p cfg_programs -> forall s k s' tr, exec p s k s' tr ->
     s' = s /\ forall st, In (mk_body, st) tr -> exists r, st = tag_configurator :: r) /\
  (forall s k s' tr, exec prog_cfg_begin s k s' tr ->
     (k = KExc -> s' = s) /\ (k <> KExc -> s' = tag_configurator :: s)) /\
  (forall s k s' tr, exec prog_cfg_end s k s' tr -> s' = tl s).
Proof. exact configurator_scopes_balanced. Qed.
Print Assumptions C13_configurator_scopes_balanced.

(* Router.invoke_request: finish_request is entered exactly once on every path, and nothing but the
   finished callbacks happens after it *)
Theorem C13_finish_exactly_once : forall s k s' tr, exec prog_invoke_request s k s' tr ->
  countN mk_finish (map fst tr) = 1 /\ only_after mk_finish [mk_fincb] (map fst tr) = true /\ s' = s.
Proof. exact finish_exactly_once. Qed.
Print Assumptions C13_finish_exactly_once.

(* response callbacks and NewResponse: at most once each, only after handle_request returned, in that
   order, nothing but finish_request after NewResponse; a path that returns has seen handle_request return *)
Theorem C13_response_callbacks_then_newresponse : forall s k s' tr, exec prog_invoke_request s k s' tr ->
  let ms := map fst tr in
  countN mk_handle ms = 1 /\ countN mk_respcb ms <= 1 /\ countN mk_newresp ms <= 1 /\
  preceded mk_handle_ret mk_respcb ms = true /\ preceded mk_handle_ret mk_newresp ms = true /\
  only_after mk_newresp [mk_finish; mk_fincb] ms = true /\
  (k <> KExc -> countN mk_handle_ret ms = 1).
Proof. exact response_callbacks_then_newresponse. Qed.
Print Assumptions C13_response_callbacks_then_newresponse.

(* scripting: get_root / prepare leave nothing behind when they raise and exactly the request frame when
   they return (the root factory runs under that frame); the closers release one frame on every exit;
   `with prepare(..)` is balanced *)
Theorem C13_scripting_balanced :
  (forall s k s' tr, exec prog_get_root s k s' tr ->
     (k = KExc -> s' = s) /\ (k <> KExc -> s' = tag_request_context :: s) /\
     (forall st, In (mk_rootfactory, st) tr -> exists r, st = tag_request_context :: r)) /\
  (forall s k s' tr, exec prog_prepare s k s' tr ->
     (k = KExc -> s' = s) /\ (k <> KExc -> s' = tag_request_context :: s) /\
     (forall st, In (mk_rootfactory, st) tr -> exists r, st = tag_request_context :: r)) /\
  (forall s k s' tr, exec prog_get_root_closer s k s' tr -> s' = tl s) /\
  (forall s k s' tr, exec prog_prepare_closer s k s' tr -> s' = tl s) /\
  (forall s k s' tr, exec prog_prepare_with s k s' tr -> s' = s).
Proof. exact scripting_balanced. Qed.
Print Assumptions C13_scripting_balanced.

(* the analysis the above rest on *)
Theorem C13_analyse_sound : forall st s k s' tr,
  exec st s k s' tr -> forall L, analyse st = Some L -> exists su, In su L /\ conc s su = (k, s', tr).
Proof. exact analyse_sound. Qed.
Print Assumptions C13_analyse_sound.

(* pipeline interpreter: for every scenario tree (any faults at any points of any request of the tree,
   any callback registrations, subrequests with or without tweens to any depth), exception view
   registered or not, and any initial stack: the stack is restored, and every logged moment -- view
   bodies and exception views included -- runs with its own request as the current one *)
Theorem C13_pipeline_depth : forall ev sc s0 st r,
  run_top ev sc s0 = (st, r) ->
  stk st = s0 /\ Forall (fun e => e_cur e = true) (log st).
Proof. exact pipeline_depth. Qed.
Print Assumptions C13_pipeline_depth.

Theorem C13_subrequest_depth : forall ev l sc tw st st' r,
  run_request ev l sc tw st = (st', r) -> stk st' = stk st.
Proof. exact subrequest_depth. Qed.
Print Assumptions C13_subrequest_depth.

(* Router.invoke_request in the pipeline model, any scenario whose finished callbacks do not themselves
   raise or re-register: whatever happened before (a response, or an exception from any point), every
   finished callback pending at that moment runs exactly once, in deque (= registration) order, after
   everything else, and the request's outcome is unchanged *)
Theorem C13_finished_callbacks_once_in_order : forall ev l sc tw subrun st st' r,
  (forall n, find_fault (s_faults sc) P_FIN_CB n = 0%N) ->
  (forall rg, In rg (s_regs sc) -> r_pt rg <> P_FIN_CB) ->
  invoke_request ev l sc tw subrun st = (st', r) ->
  exists st_mid r_mid,
    invoke_body ev l sc tw subrun st = (st_mid, r_mid) /\
    r = r_mid /\ stk st' = stk st_mid /\ fq st' = [] /\
    log st' = log st_mid ++ map (cb_event P_FIN_CB l st_mid) (fq st_mid).
Proof. exact finished_callbacks_once_in_order. Qed.
Print Assumptions C13_finished_callbacks_once_in_order.

(* response callbacks / NewResponse exactly when a response came out of the tween chain: after an
   exception nothing more happens in the try body; after a response every pending response callback runs
   once, in order, then the NewResponse subscriber, and the response is the chain's unless that raised *)
Theorem C13_response_callbacks_iff_response : forall ev l sc tw subrun st st_c rc,
  invoke_chain ev l sc tw subrun st = (st_c, rc) ->
  match rc with
  | Ex k => invoke_body ev l sc tw subrun st = (st_c, Ex k)
  | Ok v =>
      (forall n, find_fault (s_faults sc) P_RESP_CB n = 0%N) ->
      (forall rg, In rg (s_regs sc) -> r_pt rg <> P_RESP_CB) ->
      exists st_r st_mid r_mid,
        invoke_body ev l sc tw subrun st = (st_mid, r_mid) /\
        log st_r = log st_c ++ map (cb_event P_RESP_CB l st_c) (rq st_c) /\
        hit0 l sc P_NEWRESP st_r = (st_mid, match r_mid with Ok _ => Ok 1%N | Ex k => Ex k end) /\
        ((forall k, r_mid <> Ex k) -> r_mid = Ok v)
  end.
Proof. exact response_callbacks_iff_response. Qed.
Print Assumptions C13_response_callbacks_iff_response.

(* the central statement of part (b): for every valid scenario tree (faults of any kind at any points of any
   request of the tree, callbacks registered anywhere, callbacks that raise, subrequests with or without tweens
   to any depth; [valid_tree] only excludes a callback re-registering its own kind and malformed fault
   entries) and with or without an exception view, the interpreter's own run satisfies the declarative judge:
   final depth 0; views and exception views see their own request; per request the finished callbacks are
   exactly the registered ones, once, in order, after everything else (unless one of them is told to raise);
   response callbacks (those registered in time) and then NewResponse occur exactly when a response came out
   of the tween chain (a prefix of them, and no NewResponse, when one of them raises) *)
Theorem C13_model_satisfies_judge : forall ev sc st r,
  valid_tree sc = true -> run_top ev sc [] = (st, r) ->
  judge sc (N.of_nat (length (stk st))) (log st) = true.
Proof. exact model_satisfies_judge. Qed.
Print Assumptions C13_model_satisfies_judge.

(* every path of every analysed entry point satisfies the class the scope cases are judged by *)
Theorem C13_scope_table_ok :
  forallb (fun pc => forallb (scope_spec (sc_cls pc)) (scope_paths pc) &&
                     negb (match scope_paths pc with [] => true | _ => false end)) scope_table = true.
Proof. exact scope_table_ok. Qed.
Print Assumptions C13_scope_table_ok.

(* ---- translated router functions (harness/c13/translate_b.py -> Gen/Facts_C13.v, the gen_ programs): for EVERY value of the
   leaves, the program regenerated from the current source of _process_response_callbacks,
   _process_finished_callbacks, Router.finish_request, Router.invoke_request, RequestContext.begin/end/
   __enter__/__exit__, default_execution_policy (+ request_context), Router.invoke_subrequest, _error_handler and
   excview_tween equals the reference program, pointwise *)
Theorem C13_gen_is_ref : forall P : prims,
  (forall st, gen_process_response_callbacks P st = ref_resp_loop P st) /\
  (forall st, gen_process_finished_callbacks P st = ref_fin_loop P st) /\
  (forall st, gen_finish_request P st = ref_finish_request P st) /\
  (forall tw st, gen_invoke_request P tw st = ref_invoke_request P tw st) /\
  (forall m st, bind (gen_rc_enter P) (fun _ => finally m (gen_rc_exit P)) st = ref_scope P m st) /\
  (forall st, gen_default_execution_policy P st = ref_default_execution_policy P st) /\
  (forall tw st, gen_invoke_subrequest P tw st = ref_invoke_subrequest P tw st) /\
  (forall k st, gen_error_handler P k st = ref_error_handler P k st) /\
  (forall st, gen_excview_tween P st = ref_excview_tween P st) /\
  (forall k rr st, gen_invoke_exception_view P k rr st = ref_invoke_exception_view P k rr st) /\
  (forall st, gen_handle_request P st = ref_handle_request P st).
Proof. exact gen_is_ref. Qed.
Print Assumptions C13_gen_is_ref.

(* with the leaves of the pipeline interpreter, the generated programs are the hand-written model: per request
   (any level, any subrequest behaviour, the tween chain being the model's) ... *)
Theorem C13_gen_request_is_model : forall ev l sc subrun chain hr,
  (forall st, chain st = tween_chain ev l sc subrun st) ->
  (forall st, hr st = handle_request l sc (vsub sc subrun) st) ->
  let P := prims_of ev l sc subrun chain hr in
  (forall st, gen_handle_request P st = handle_request l sc (vsub sc subrun) st) /\
  (forall k st, gen_error_handler P k st = error_handler ev l sc k st) /\
  (forall tw st, gen_invoke_request P tw st = invoke_request ev l sc tw subrun st) /\
  (forall tw st, gen_invoke_subrequest P tw st = frame l (invoke_request ev l sc tw subrun) st) /\
  (forall st, gen_default_execution_policy P st = frame l (invoke_request ev l sc true subrun) st) /\
  (forall st, gen_excview_tween P st =
              excview_tween ev l sc (tween l sc P_UNDER_IN P_UNDER_OUT (handle_request l sc (vsub sc subrun))) st) /\
  (forall st, gen_process_response_callbacks P st = resp_loop l sc st) /\
  (forall st, gen_process_finished_callbacks P st = fin_loop l sc st).
Proof. exact gen_request_is_model. Qed.
Print Assumptions C13_gen_request_is_model.

(* ... and for the interpreter assembled from the generated programs at EVERY level of the scenario tree (this is
   what the extracted runner executes in the correspondence run) *)
Theorem C13_gen_run_is_model :
  (forall sc ev l tw st, gen_run_request ev l sc tw st = run_request ev l sc tw st) /\
  (forall ev sc s0, gen_run_top ev sc s0 = run_top ev sc s0).
Proof. exact (conj gen_run_request_is_model gen_run_top_is_model). Qed.
Print Assumptions C13_gen_run_is_model.

(* the property theorems, restated for the generated interpreter *)
Theorem C13_gen_pipeline_depth : forall ev sc s0 st r,
  gen_run_top ev sc s0 = (st, r) ->
  stk st = s0 /\ Forall (fun e => e_cur e = true) (log st).
Proof. exact gen_pipeline_depth. Qed.
Print Assumptions C13_gen_pipeline_depth.

Theorem C13_gen_satisfies_judge : forall ev sc st r,
  valid_tree sc = true -> gen_run_top ev sc [] = (st, r) ->
  judge sc (N.of_nat (length (stk st))) (log st) = true.
Proof. exact gen_satisfies_judge. Qed.
Print Assumptions C13_gen_satisfies_judge.

Example ex_gen_run_with_excview :
  exists st, gen_run_top 1 (Scn false [mkFault P_VIEW K_PLAIN 0] [mkReg P_VIEW 3 0] NoSub) [] = (st, Ok P_EXCVIEW)
             /\ map e_pt (log st) = [1; 2; 3; 6; 7; 8; 9; 10; 11; 12; 19; 15; 16; 17; 18]%N.
Proof. eexists. split; vm_compute; reflexivity. Qed.

(* ---- the SAME request object sent through Router.invoke_request twice inside one request context (a custom
   execution policy retrying after a failure, or always): stack restored, every event under its own request *)
Theorem C13_retry_depth : forall ev mode sc1 sc2 s0 st r,
  run_retry ev mode sc1 sc2 s0 = (st, r) ->
  stk st = s0 /\ Forall (fun e => e_cur e = true) (log st).
Proof. exact retry_depth. Qed.
Print Assumptions C13_retry_depth.

(* the first attempt satisfies the judge of a request on its own *)
Theorem C13_retry_first_attempt_judged : forall ev sc1 st st1 r1,
  valid_level sc1 = true -> rq st = [] -> fq st = [] -> nr st = 0%N -> nf st = 0%N ->
  invoke_request ev 0 sc1 true None st = (st1, r1) ->
  exists new, log st1 = log st ++ new /\
    (Forall (fun e => e_cur e = true) new -> judge_pass sc1 0 0 [] new = true).
Proof. exact retry_first_attempt_judged. Qed.
Print Assumptions C13_retry_first_attempt_judged.

(* finished callbacks of both attempts (scenarios whose finished callbacks neither raise nor re-register): each
   attempt runs what is pending at the end of its try body once, in order, after everything else of the attempt and
   leaves the deque empty; so the second attempt starts empty and runs at its end exactly what was registered
   during it.
   (the full statement is C13_retry_judged below) *)
Theorem C13_retry_finished_callbacks : forall ev mode sc1 sc2 st st' r,
  quiet_fin sc1 -> quiet_fin sc2 ->
  retry_body (invoke_request ev 0 sc1 true None) (invoke_request ev 0 sc2 true None) mode st = (st', r) ->
  exists m1 r1 st1,
    invoke_body ev 0 sc1 true None st = (m1, r1) /\
    invoke_request ev 0 sc1 true None st = (st1, r1) /\
    fq st1 = [] /\ log st1 = log m1 ++ map (cb_event P_FIN_CB 0 m1) (fq m1) /\
    ((mode = false /\ (exists v, r1 = Ok v) /\ st' = st1 /\ r = r1) \/
     ((mode = true \/ exists k, r1 = Ex k) /\
      let st2 := log_ev 0 P_RETRY 0 st1 in
      fq st2 = [] /\
      exists m2 r2,
        invoke_body ev 0 sc2 true None st2 = (m2, r2) /\ r = r2 /\ fq st' = [] /\
        log st' = log m2 ++ map (cb_event P_FIN_CB 0 m2) (fq m2))).
Proof. exact retry_finished_callbacks. Qed.
Print Assumptions C13_retry_finished_callbacks.

Theorem C13_gen_run_retry_is_model : forall ev mode sc1 sc2 s0,
  gen_run_retry ev mode sc1 sc2 s0 = run_retry ev mode sc1 sc2 s0.
Proof. exact gen_run_retry_is_model. Qed.
Print Assumptions C13_gen_run_retry_is_model.

(* ---- one pass of a request object through invoke_request from ANY carried-over state (callback counters nr / nf,
   response callbacks still pending in rq; finished deque empty): its events satisfy judge_pass for exactly those
   counters and left-over callbacks, contain no retry marker, conserve the response deque, and leave the finished
   deque empty unless a finished callback is told to raise *)
Theorem C13_pass_judged : forall sc, valid_level sc = true -> forall ev st st' r,
  fq st = [] ->
  invoke_request ev 0 sc true None st = (st', r) ->
  exists new, log st' = log st ++ new /\ Forall (fun e => e_lvl e = 0%N) new /\
    (Forall (fun e => e_cur e = true) new -> judge_pass sc (nr st) (nf st) (rq st) new = true) /\
    Forall (fun e => is_pt P_RETRY e = false) new /\
    cons sc st st' new /\
    (has_fault sc P_FIN_CB = false -> fq st' = []).
Proof. exact pass_full. Qed.
Print Assumptions C13_pass_judged.

(* the retried request, in full: for every pair of valid scenarios, both modes, every exception-view configuration,
   the run satisfies judge_retry (depth 0; each attempt judged as a request of its own, the second one with the
   counters and the response callbacks the first one left behind) *)
Theorem C13_retry_judged : forall ev mode sc1 sc2 st r,
  valid_level sc1 = true -> valid_level sc2 = true ->
  run_retry ev mode sc1 sc2 [] = (st, r) ->
  judge_retry sc1 sc2 (N.of_nat (length (stk st))) (log st) = true.
Proof. exact retry_judged. Qed.
Print Assumptions C13_retry_judged.

Theorem C13_gen_retry_judged : forall ev mode sc1 sc2 st r,
  valid_level sc1 = true -> valid_level sc2 = true ->
  gen_run_retry ev mode sc1 sc2 [] = (st, r) ->
  judge_retry sc1 sc2 (N.of_nat (length (stk st))) (log st) = true.
Proof. exact gen_retry_judged. Qed.
Print Assumptions C13_gen_retry_judged.

(* ---- when a finished callback raises (documented: the remaining ones do not run).  What the code guarantees, and
   what the judge now demands instead of being silent: the finished callbacks that ran are a prefix of the pending +
   registered ones, each once, in order, after everything else of the request; the run stops short ONLY at a callback
   that raises (the last one that ran); its exception propagates; the rest stays pending *)
Theorem C13_finished_callbacks_prefix_when_one_raises : forall l sc, valid_level sc = true -> forall st st' k,
  fin_loop l sc st = (st', Ex k) ->
  exists evs rest,
    log st' = log st ++ evs /\ Forall (fun e => e_pt e = P_FIN_CB /\ e_lvl e = l) evs /\
    fq st ++ registered_from 1 (s_regs sc) 0 (nf st) evs = map e_aux evs ++ rest /\
    evs <> [] /\ find_fault (s_faults sc) P_FIN_CB (nf st + N.of_nat (length evs) - 1) <> 0%N /\
    has_fault sc P_FIN_CB = true.
Proof. exact fin_loop_raising. Qed.
Print Assumptions C13_finished_callbacks_prefix_when_one_raises.

(* pyramid.paster.bootstrap (outside the anchor files; skeleton regenerated on every run): leaves nothing behind when
   get_app or prepare raise, exactly the request frame when it returns; `with bootstrap(..) as env:` is balanced (that
   the returned object is prepare()'s AppEnvironment is the fail-closed fact bootstrap_returns_env) *)
Theorem C13_bootstrap_balanced :
  (forall s k s' tr, exec prog_bootstrap s k s' tr ->
     (k = KExc -> s' = s) /\ (k <> KExc -> s' = tag_request_context :: s) /\
     (forall st, In (mk_rootfactory, st) tr -> exists r, st = tag_request_context :: r)) /\
  (forall s k s' tr, exec prog_bootstrap_with s k s' tr -> s' = s).
Proof. exact bootstrap_balanced. Qed.
Print Assumptions C13_bootstrap_balanced.

(* ================= proof-only round: nestings of the scope programs; several subrequests in a row *)
Require Import Verif.Proofs.C13_f Verif.Proofs.C13_g.

(* balance is closed under sequencing, branching, try/finally, try/except, loops, procedure scopes ... *)
Theorem C13_balanced_closed :
  (forall a b, balanced a -> balanced b -> balanced (Seq a b)) /\
  (forall a b, balanced a -> balanced b -> balanced (TryFinally a b)) /\
  (forall al a h, balanced a -> balanced h -> balanced (TryExcept al a h)) /\
  (forall a b, balanced a -> balanced b -> balanced (If a b)) /\
  (forall a, balanced a -> balanced (Loop a)) /\
  (forall a, balanced a -> balanced (Scope a)) /\
  (forall t a body rel, acquires (Scope a) t -> releases rel -> balanced body ->
     balanced (Seq (Scope a) (TryFinally body rel))).
Proof. exact (conj bal_seq (conj bal_fin (conj bal_exc (conj bal_if (conj bal_loop (conj bal_scope bal_bracket)))))). Qed.
Print Assumptions C13_balanced_closed.

(* ... hence ARBITRARY nestings of the analysed acquire / release pairs (Configurator.begin/end, scripting.prepare /
   closer, get_root / closer, paster.bootstrap / closer -- skeletons regenerated from the source on every run) around
   any balanced body restore the thread-local stack on every path: every opaque call returning or raising, at any
   depth of the nesting *)
Theorem C13_scope_nesting_balanced : forall ws body,
  (forall w, In w ws -> In w scope_wrappers) -> balanced body -> balanced (nest ws body).
Proof. exact scope_nesting_balanced. Qed.
Print Assumptions C13_scope_nesting_balanced.

(* the bodies available: every balanced entry point *)
Theorem C13_balanced_entry_points :
  balanced prog_wsgi_call /\ balanced prog_subrequest /\ balanced prog_request_context_manual /\
  balanced prog_prepare_with /\ balanced prog_bootstrap_with /\ balanced prog_exception_view /\
  (forall p, In p cfg_programs -> balanced p).
Proof. exact balanced_entry_points. Qed.
Print Assumptions C13_balanced_entry_points.

(* non-vacuity: a Configurator scope around a WSGI call followed by a loop of scripting environments inside which a
   Configurator scope wraps a subrequest *)
Example C13_nesting_example :
  balanced (nest [(prog_cfg_begin, prog_cfg_end, tag_configurator)]
              (Seq prog_wsgi_call
                   (Loop (nest [(prog_prepare, prog_prepare_closer, tag_request_context);
                                (prog_cfg_begin, prog_cfg_end, tag_configurator)] prog_subrequest)))).
Proof. exact nesting_example. Qed.

(* the segment predicate closed under concatenation composes without the exclusivity condition of the one-subrequest
   proof; any number of subrequests started one after the other leave the request's own log, deques and counters
   alone and add a sequence of judged segments *)
Theorem C13_star_composition : forall l sc A (Q : list pev -> Prop),
  (forall a b c, Rc l sc A (star Q) a b -> Rc l sc A (star Q) b c -> Rc l sc A (star Q) a c) /\
  (forall srs, Forall (fun sr => pres (Rsub l Q) sr) srs -> pres (Rc l sc A (star Q)) (seq_all srs)).
Proof. intros l sc A Q. split; [apply Rc_star_trans|apply many_subrequests_pres]. Qed.
Print Assumptions C13_star_composition.

(* two real subrequests of the interpreter (any valid scenario trees, with or without tweens) run one after the other
   from any state: parent's deques and counters as before, only deeper events, and the new log is a sequence of
   segments each satisfying the judge of its subrequest tree *)
Theorem C13_two_subrequests_in_a_row : forall ev l sc1 tw1 sc2 tw2 st st' r,
  valid_tree sc1 = true -> valid_tree sc2 = true ->
  seq (run_request ev (l + 1) sc1 tw1) (run_request ev (l + 1) sc2 tw2) st = (st', r) ->
  exists new, log st' = log st ++ new /\ rq st' = rq st /\ fq st' = fq st /\ nr st' = nr st /\ nf st' = nf st /\
    Forall (fun e => (l + 1 <= e_lvl e)%N) new /\
    star (fun seg => subP (l + 1) sc1 tw1 seg \/ subP (l + 1) sc2 tw2 seg) new.
Proof. exact two_run_requests. Qed.
Print Assumptions C13_two_subrequests_in_a_row.

Example C13_two_subrequests_example :
  let sc := Scn false [mkFault P_VIEW K_PLAIN 0] [mkReg P_NEWREQ 2 0] NoSub in
  valid_tree sc = true /\
  let '(st', r) := seq (run_request 1 1 sc true) (run_request 1 1 sc false) (init_state [0%N]) in
  stk st' = [0%N] /\ length (filter (is_pt P_FIN_CB) (log st')) = 2%nat.
Proof. vm_compute. repeat split; reflexivity. Qed.

(* ================= third proof-only round *)
Require Import Verif.Proofs.C13_h.

(* ANY list of real subrequests (any valid scenario trees, each with or without tweens) started one after the other
   from any state: thread-local stack, parent's deques and counters as before, only deeper events, and the new log is
   a sequence of segments each satisfying the judge of one of the listed subrequest trees; also when one of them
   raises (the rest is then not started) *)
Theorem C13_subrequests_in_a_row : forall ev l (specs : list (scn * bool)) st st' r,
  Forall (fun p => valid_tree (fst p) = true) specs ->
  seq_all (sub_runs ev l specs) st = (st', r) ->
  exists new, log st' = log st ++ new /\ stk st' = stk st /\
    rq st' = rq st /\ fq st' = fq st /\ nr st' = nr st /\ nf st' = nf st /\
    Forall (fun e => (l + 1 <= e_lvl e)%N) new /\
    star (some_subP l specs) new.
Proof. exact many_run_requests. Qed.
Print Assumptions C13_subrequests_in_a_row.

Example C13_subrequests_in_a_row_example :
  let sc := Scn true [] [mkReg P_VIEW 3 0] NoSub in
  let specs := [(sc, true); (sc, false); (sc, true)] in
  Forall (fun p => valid_tree (fst p) = true) specs /\
  let '(st', r) := seq_all (sub_runs 1 0 specs) (init_state [0%N]) in
  r = Ok 0%N /\ stk st' = [0%N] /\ length (filter (is_pt P_FIN_CB) (log st')) = 3%nat.
Proof. split; [repeat constructor|vm_compute; repeat split; reflexivity]. Qed.
