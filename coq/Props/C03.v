(* C03 -- property theorems only. *)
From Coq Require Import List NArith ZArith Bool.
Import ListNotations.
Require Import Verif.Lib.Wire Verif.Gen.Facts_C03 Verif.Model.C03 Verif.Proofs.C03.

Theorem C03_call_reg_runs : forall rq v t,
  call_reg rq v = Some t -> qualifies rq v = true /\ t = r_tag v.
Proof. exact call_reg_runs. Qed.
Print Assumptions C03_call_reg_runs.
