(* C03 -- property theorems only.  Each is closed by [exact] of a lemma proved in
   Proofs/C03.v or Proofs/C03_w.v; Print Assumptions beneath each. *)
From Coq Require Import List NArith ZArith Bool.
Import ListNotations.
Require Import Verif.Lib.Wire Verif.Gen.Facts_C03 Verif.Model.C03 Verif.Proofs.C03 Verif.Proofs.C03_w Verif.Proofs.C03_acc Verif.Proofs.C03_ph Verif.Proofs.C03_ov.

(* The outcome of the lookup is one the declarative specification allows: the body that runs
   belongs to a qualifying candidate (name, classifier, interfaces in the two resolution
   orders, all predicates true) than which no qualifying candidate is strictly more specific
   (earlier request interface = route-bound before global; earlier context interface; same slot
   and more predicates); Not Found exactly when no candidate qualifies.
   Full-strength statement (false of the faithful model, see C03_lookup_winner_refuted): the
   same without the hypothesis [no_accept regs]. *)
Theorem C03_lookup_winner_partial : forall ao regs cls rq,
  Forall reg_wf regs -> NoDup (map key regs) -> no_accept regs ->
  NoDup (q_req_sro rq) -> NoDup (q_ctx_sro rq) -> order_respects regs ->
  spec_ok cls regs rq (call_view (register_all ao regs) cls rq) = true.
Proof. exact lookup_winner. Qed.
Print Assumptions C03_lookup_winner_partial.

(* the same for registrations as add_view makes them (order, phash and predicates computed by
   PredicateList.make from keyword arguments): the arithmetic premise is discharged *)
Theorem C03_lookup_winner_made_partial : forall ao names regs cls rq,
  (length names <= 20)%nat -> Forall (made_by names) regs ->
  Forall (fun v => (n_preds v <= 400)%nat) regs ->
  NoDup (map key regs) -> no_accept regs ->
  NoDup (q_req_sro rq) -> NoDup (q_ctx_sro rq) ->
  spec_ok cls regs rq (call_view (register_all ao regs) cls rq) = true.
Proof. exact lookup_winner_made. Qed.
Print Assumptions C03_lookup_winner_made_partial.

Theorem C03_lookup_winner_refuted :
  exists ao regs cls rq,
    Forall reg_wf regs /\ NoDup (map key regs) /\ NoDup (q_req_sro rq) /\ NoDup (q_ctx_sro rq)
    /\ order_respects regs /\ ~ no_accept regs
    /\ spec_ok cls regs rq (call_view (register_all ao regs) cls rq) = false.
Proof. exact lookup_winner_refuted. Qed.
Print Assumptions C03_lookup_winner_refuted.

(* a view with a failing predicate never runs -- for any registry state whatsoever *)
Theorem C03_failing_pred_never_runs : forall R cls rq t,
  call_view R cls rq = Ran t ->
  exists x, In x (tried R cls rq) /\ qualifies rq x = true /\ r_tag x = t.
Proof. exact failing_pred_never_runs. Qed.
Print Assumptions C03_failing_pred_never_runs.

(* the search continues past every mismatch: Not Found only when nothing that is tried qualifies *)
Theorem C03_not_found_only_if_none : forall R cls rq,
  not_found (call_view R cls rq) -> forall x, In x (tried R cls rq) -> qualifies rq x = false.
Proof. exact not_found_only_if_none. Qed.
Print Assumptions C03_not_found_only_if_none.

(* more predicates sort first, while the integer division has headroom *)
Theorem C03_order_more_first : forall s1 s2 k1 k2 S,
  (0 <= s1 -> 0 <= s2 <= S -> 0 <= k2 < k1 ->
   S * (k2 + 2) + (k2 + 1) * (k2 + 2) < max_order ->
   order_of s1 k1 < order_of s2 k2)%Z.
Proof. exact order_more_first. Qed.
Print Assumptions C03_order_more_first.

Theorem C03_order_more_first_default : forall s1 s2 k1 k2,
  (0 <= s1 -> 0 <= s2 < 2 ^ 21 -> 0 <= k2 < k1 -> k2 <= 400 -> order_of s1 k1 < order_of s2 k2)%Z.
Proof. exact order_more_first_default. Qed.
Print Assumptions C03_order_more_first_default.

Theorem C03_order_bound_tight_refuted :
  exists s1 s2 k1 k2 S,
    (0 <= s1 /\ 0 <= s2 <= S /\ 0 <= k2 < k1
     /\ ~ (S * (k2 + 2) + (k2 + 1) * (k2 + 2) < max_order)
     /\ ~ (order_of s1 k1 < order_of s2 k2))%Z.
Proof. exact order_bound_tight_refuted. Qed.
Print Assumptions C03_order_bound_tight_refuted.

(* what make computes: order from the OR of the weights of listed names, phash from the texts *)
Theorem C03_make_spec : forall names kw m,
  make names kw = Some m ->
  m_order m = order_of (score_of (m_weights m)) (Z.of_nat (length (m_preds m)))
  /\ m_phash m = concat (map pred_phash (m_preds m))
  /\ Forall (weight_below (Z.of_nat (length names))) (m_weights m).
Proof. exact make_spec. Qed.
Print Assumptions C03_make_spec.

(* an override (same slot and phash) replaces the single view of its slot under either interface *)
Theorem C03_override_replaces : forall ao R a b,
  R (r_slot a) IView = None -> R (r_slot a) ISecuredView = None -> R (r_slot a) IMultiView = None ->
  r_slot b = r_slot a -> r_phash b = r_phash a ->
  let R2 := register_view ao (register_view ao R a) b in
  R2 (r_slot a) (vt_of b) = Some (CView b) /\ forall vt, vt <> vt_of b -> R2 (r_slot a) vt = None.
Proof. exact override_replaces. Qed.
Print Assumptions C03_override_replaces.

(* built-in predicates *)
Theorem C03_pred_request_method : forall v l,
  as_tuple v = Some l ->
  exists vals, mk_method v = Some (PMethod vals) /\
    forall rq, eval_pred rq (PMethod vals) = true <->
               (In (q_method rq) l \/ (q_method rq = rm_head /\ In rm_get l)).
Proof. exact pred_request_method. Qed.
Print Assumptions C03_pred_request_method.

Theorem C03_pred_request_param : forall rq reqs,
  eval_pred rq (PParam reqs) = true <->
  forall k v, In (k, v) reqs ->
    exists actual, assoc k (q_params rq) = Some actual /\ (v = None \/ v = Some actual).
Proof. exact pred_request_param. Qed.
Print Assumptions C03_pred_request_param.

Theorem C03_pred_match_param : forall rq reqs,
  eval_pred rq (PMatchParam reqs) = true <->
  exists md, q_matchdict rq = Some md /\ md <> [] /\ forall k v, In (k, v) reqs -> assoc k md = Some v.
Proof. exact pred_match_param. Qed.
Print Assumptions C03_pred_match_param.

Theorem C03_pred_header_present : forall rq name,
  eval_pred rq (PHeader [(name, None)]) = true <-> assoc name (q_headers rq) <> None.
Proof. exact pred_header_present. Qed.
Print Assumptions C03_pred_header_present.

Theorem C03_pred_header_value : forall rq name pat,
  eval_pred rq (PHeader [(name, Some pat)]) = true <->
  exists value, assoc name (q_headers rq) = Some value /\ regex_match (q_regex rq) pat value = true.
Proof. exact pred_header_value. Qed.
Print Assumptions C03_pred_header_value.

Theorem C03_pred_xhr : forall rq b, eval_pred rq (PXhr b) = true <-> q_xhr rq = b.
Proof. exact pred_xhr. Qed.
Print Assumptions C03_pred_xhr.

Theorem C03_pred_is_authenticated : forall rq b, eval_pred rq (PIsAuth b) = true <-> q_auth rq = b.
Proof. exact pred_is_authenticated. Qed.
Print Assumptions C03_pred_is_authenticated.

Theorem C03_pred_containment : forall rq i s,
  eval_pred rq (PContainment i s) = true <-> exists loc, In loc (q_lineage rq) /\ In i (snd loc).
Proof. exact pred_containment. Qed.
Print Assumptions C03_pred_containment.

Theorem C03_pred_physical_path : forall rq val,
  eval_pred rq (PPhysPath val) = true <->
  q_has_name rq = true /\ rev (map fst (q_lineage rq)) = val.
Proof. exact pred_physical_path. Qed.
Print Assumptions C03_pred_physical_path.

Theorem C03_pred_custom : forall rq i, eval_pred rq (PCustom i) = true <-> In i (q_truth rq).
Proof. exact pred_custom. Qed.
Print Assumptions C03_pred_custom.

Theorem C03_pred_not : forall rq p,
  eval_pred rq (PNot p) = if nonempty (pred_phash p) then negb (eval_pred rq p) else eval_pred rq p.
Proof. exact pred_not. Qed.
Print Assumptions C03_pred_not.

Theorem C03_pred_accept : forall rq values,
  eval_pred rq (PAccept values) = true <-> exists o, In o values /\ (0 < offer_q rq o)%N.
Proof. exact pred_accept. Qed.
Print Assumptions C03_pred_accept.

Theorem C03_pred_path_info : forall rq pat,
  eval_pred rq (PPathInfo pat) = regex_match (q_regex rq) pat (q_upath rq).
Proof. exact pred_path_info. Qed.
Print Assumptions C03_pred_path_info.

(* the winner characterised directly (same hypotheses as the partial theorem, minus reg_wf): a
   qualifying candidate than which none is more specific and, inside its slot, none has a smaller order *)
Theorem C03_lookup_winner_char_partial : forall ao regs cls rq,
  NoDup (map key regs) -> no_accept regs ->
  NoDup (q_req_sro rq) -> NoDup (q_ctx_sro rq) -> order_respects regs ->
  match call_view (register_all ao regs) cls rq with
  | Ran t => exists x, In x regs /\ r_tag x = t /\ candidate cls rq x = true
                       /\ forall w, In w regs -> candidate cls rq w = true ->
                                     more_specific rq w x = false
                                     /\ (r_slot x = r_slot w -> (r_order x <= r_order w)%Z)
  | _ => forall w, In w regs -> candidate cls rq w = false
  end.
Proof. exact lookup_winner_char. Qed.
Print Assumptions C03_lookup_winner_char_partial.

(* registering the same views in another order: Not Found stays Not Found; a different winner is
   another registration of the same slot with the same order *)
Theorem C03_lookup_order_insensitive_partial : forall ao regs regs' cls rq,
  Permutation.Permutation regs regs' ->
  NoDup (map key regs) -> no_accept regs ->
  NoDup (q_req_sro rq) -> NoDup (q_ctx_sro rq) -> order_respects regs ->
  match call_view (register_all ao regs) cls rq, call_view (register_all ao regs') cls rq with
  | Ran t, Ran t' => exists x x', In x regs /\ In x' regs /\ r_tag x = t /\ r_tag x' = t'
                                  /\ r_slot x = r_slot x' /\ r_order x = r_order x'
  | Ran _, _ | _, Ran _ => False
  | _, _ => True
  end.
Proof. exact lookup_order_insensitive. Qed.
Print Assumptions C03_lookup_order_insensitive_partial.

(* after any sequence of MultiView.add calls in which the order is a function of the phash,
   views and every media subset are sorted by order and hold one entry per phash *)
Theorem C03_multiview_sorted : forall (f : text -> Z) (adds : list add_args),
  Forall (fun a => let '(_, order, phash, _, _) := a in order = f phash) adds ->
  mv_sorted f (fold_left mv_add_args adds mv_empty).
Proof. exact multiview_sorted. Qed.
Print Assumptions C03_multiview_sorted.

(* full strength, no hypothesis (accept=, overrides, phash collisions included): the body that runs
   belongs to a registration of the looked-up classifier and view name, made for interfaces of the
   two resolution orders, whose predicates all hold for the request *)
Theorem C03_ran_is_registered_and_qualifies : forall ao regs cls rq t,
  call_view (register_all ao regs) cls rq = Ran t ->
  exists x, In x regs /\ r_tag x = t /\ qualifies rq x = true
            /\ s_cls (r_slot x) = cls /\ s_name (r_slot x) = q_view_name rq
            /\ In (s_req (r_slot x)) (q_req_sro rq) /\ In (s_ctx (r_slot x)) (q_ctx_sro rq).
Proof. exact ran_is_registered_and_qualifies. Qed.
Print Assumptions C03_ran_is_registered_and_qualifies.

(* accept-aware, MultiView level: media subsets of exactly the acceptable offers by non-increasing
   quality, each sorted by order, then the views without accept=; first qualifying entry runs *)
Theorem C03_acceptable_offers_spec : forall rq offers,
  (forall o, In o (acceptable_offers rq offers) <-> In o offers /\ (0 < offer_q rq (o_full o))%N)
  /\ Sorted.StronglySorted (fun a b => (offer_q rq (o_full b) <= offer_q rq (o_full a))%N) (acceptable_offers rq offers).
Proof. exact acceptable_offers_spec. Qed.
Print Assumptions C03_acceptable_offers_spec.

Theorem C03_multiview_tried_order : forall f m rq,
  mv_sorted f m ->
  get_views m rq = (match mv_accepts m with
                    | [] => []
                    | _ => flat_map (subset_of m) (acceptable_offers rq (mv_accepts m))
                    end) ++ mv_views m
  /\ (forall o, list_ok f (subset_of m o))
  /\ list_ok f (mv_views m)
  /\ mv_call rq (get_views m rq) = option_map r_tag (find (qualifies rq) (map e_view (get_views m rq))).
Proof. exact multiview_tried_order. Qed.
Print Assumptions C03_multiview_tried_order.

(* Notted.phash: the mark in front, so not_(P) never hashes like P (P with a real phash) ... *)
Theorem C03_notted_phash_differs : forall p,
  nonempty (pred_phash p) = true -> pred_phash (PNot p) <> pred_phash p.
Proof. exact notted_phash_differs. Qed.
Print Assumptions C03_notted_phash_differs.

(* ... and two views of one slot whose predicate lists differ only by not_() around one predicate are
   distinct registrations: the distinct-keys hypothesis of C03_lookup_winner_partial holds of the pair *)
Theorem C03_notted_sibling_distinct_keys : forall a b l1 l2 p,
  reg_wf a -> reg_wf b -> r_preds a = l1 ++ p :: l2 -> r_preds b = l1 ++ PNot p :: l2 ->
  nonempty (pred_phash p) = true -> NoDup (map key [a; b]).
Proof. exact notted_sibling_distinct_keys. Qed.
Print Assumptions C03_notted_sibling_distinct_keys.


(* ---- the phash (finding C03-phash-collision characterised) *)
Theorem C03_phash_equal_iff : forall names kw1 kw2 m1 m2,
  make names kw1 = Some m1 -> make names kw2 = Some m2 ->
  (m_phash m1 = m_phash m2 <->
   concat (map pred_phash (m_preds m1)) = concat (map pred_phash (m_preds m2))).
Proof. exact phash_equal_iff. Qed.
Print Assumptions C03_phash_equal_iff.

Theorem C03_phash_collision_refuted :
  exists v1 v2,
    col_regs = [v1; v2] /\ Forall (made_by pred_names) col_regs
    /\ r_phash v1 = r_phash v2
    /\ map pred_phash (r_preds v1) <> map pred_phash (r_preds v2)
    /\ r_order v1 <> r_order v2
    /\ qualifies col_rq v1 = true /\ qualifies col_rq v2 = false
    /\ call_view (register_all accept_order_default col_regs) view_classifier col_rq = NotFoundPme
    /\ map r_tag (spec_winners view_classifier col_regs col_rq) = [1%N].
Proof. exact phash_collision_refuted. Qed.
Print Assumptions C03_phash_collision_refuted.

(* predicates with an empty phash (pseudo-predicates) are invisible to the digest *)
Theorem C03_empty_phash_invisible : forall l1 l2 i,
  concat (map pred_phash (l1 ++ PThird i [] :: l2)) = concat (map pred_phash (l1 ++ l2)).
Proof. exact empty_phash_invisible. Qed.
Print Assumptions C03_empty_phash_invisible.

Theorem C03_empty_phash_observation :
  map r_phash eph_regs = [default_phash; pfx_custom ++ dec 5; default_phash]
  /\ map n_preds eph_regs = [1; 1; 0]%nat
  /\ call_view (register_all accept_order_default eph_regs) view_classifier eph_rq = Ran 4
  /\ map r_tag (spec_winners view_classifier eph_regs eph_rq) = [1%N].
Proof. exact empty_phash_observation. Qed.
Print Assumptions C03_empty_phash_observation.

(* stability of ties *)
Theorem C03_isort_stable : forall k l,
  filter (same_order k) (isort entry_leb l) = filter (same_order k) l.
Proof. exact isort_stable. Qed.
Print Assumptions C03_isort_stable.

Theorem C03_multiview_ties_in_registration_order : forall (adds : list (reg * Z * text)) k,
  NoDup (map (fun a => snd a) adds) ->
  filter (same_order k) (mv_views (fold_left mv_add_args (map plain_add adds) mv_empty))
  = filter (same_order k) (map add_entry adds).
Proof. exact multiview_ties_in_registration_order. Qed.
Print Assumptions C03_multiview_ties_in_registration_order.

(* ---- overriding declarations *)
Theorem C03_register_all_inv_live : forall ao regs,
  no_accept regs -> key_order regs -> inv (live_regs regs) (register_all ao regs).
Proof. exact register_all_inv_live. Qed.
Print Assumptions C03_register_all_inv_live.

Theorem C03_lookup_winner_overrides_partial : forall ao regs cls rq,
  Forall reg_wf regs -> key_faithful regs -> key_order regs -> no_accept regs ->
  NoDup (q_req_sro rq) -> NoDup (q_ctx_sro rq) -> order_respects (live_regs regs) ->
  spec_ok cls regs rq (call_view (register_all ao regs) cls rq) = true.
Proof. exact lookup_winner_overrides. Qed.
Print Assumptions C03_lookup_winner_overrides_partial.

(* ---- the full-strength lookup theorem for the code as it is, accept= included (finding
   C03-accept-first characterised exactly): distinct (slot, phash) keys; per slot in specificity
   order; inside a slot the acceptable media subsets by non-increasing quality, each by order,
   then the plain views by order (strictly_before / media_before in Proofs/C03_med.v) *)
Require Import Verif.Proofs.C03_med.
Theorem C03_register_all_inv2 : forall ao regs,
  NoDup (map key regs) -> inv2 regs (register_all ao regs).
Proof. exact register_all_inv2. Qed.
Print Assumptions C03_register_all_inv2.

Theorem C03_lookup_winner_media : forall ao regs cls rq,
  NoDup (map key regs) -> Forall accept_wf regs ->
  NoDup (q_req_sro rq) -> NoDup (q_ctx_sro rq) ->
  match call_view (register_all ao regs) cls rq with
  | Ran t => exists x, In x regs /\ r_tag x = t /\ candidate cls rq x = true
                       /\ forall w, In w regs -> candidate cls rq w = true -> strictly_before rq w x = false
  | _ => forall w, In w regs -> candidate cls rq w = false
  end.
Proof. exact lookup_winner_media. Qed.
Print Assumptions C03_lookup_winner_media.

(* the premise accept_wf is true of registrations as add_view makes them (accept= is handed to make as the accept
   predicate) when accept is a registered predicate name and the other keyword arguments carry no accept key; the
   accept-aware lookup theorem for such registrations needs no premise about the predicate lists *)
Theorem C03_made_by_accept_wf : forall names v,
  In nm_accept names -> made_by_plain names v -> accept_wf v.
Proof. exact made_by_accept_wf. Qed.
Print Assumptions C03_made_by_accept_wf.

Theorem C03_lookup_winner_media_made : forall ao names regs cls rq,
  In nm_accept names -> Forall (made_by_plain names) regs ->
  NoDup (map key regs) -> NoDup (q_req_sro rq) -> NoDup (q_ctx_sro rq) ->
  match call_view (register_all ao regs) cls rq with
  | Ran t => exists x, In x regs /\ r_tag x = t /\ candidate cls rq x = true
                       /\ forall w, In w regs -> candidate cls rq w = true -> strictly_before rq w x = false
  | _ => forall w, In w regs -> candidate cls rq w = false
  end.
Proof. exact lookup_winner_media_made. Qed.
Print Assumptions C03_lookup_winner_media_made.

(* ==== the program regenerated from the source on this run (Gen/Facts_C03_gen.v, by harness/c03/translate.py)
   equals the reference model, and the property theorems hold of the REGENERATED lookup *)
Require Import Verif.Gen.Facts_C03_gen Verif.Proofs.C03_gen.

Theorem C03_generated_call_view_is_model : forall R cls rq, gen_call_view R cls rq = call_view R cls rq.
Proof. exact gen_call_view_is_model. Qed.
Print Assumptions C03_generated_call_view_is_model.

Theorem C03_generated_find_views_is_model : forall R cls rsro csro name,
  gen_find_views R cls rsro csro name = find_views R cls rsro csro name.
Proof. exact gen_find_views_is_model. Qed.
Print Assumptions C03_generated_find_views_is_model.

Theorem C03_generated_multiview_is_model : forall m rq,
  gen_get_views m rq = get_views m rq /\ gen_mv_call m rq = mv_call rq (get_views m rq)
  /\ gen_mv_match m rq = mv_match rq m.
Proof. intros m rq. exact (conj (gen_get_views_is_model m rq) (conj (gen_mv_call_is_model m rq) (gen_mv_match_is_model m rq))). Qed.
Print Assumptions C03_generated_multiview_is_model.

Theorem C03_generated_predicated_view_is_model : forall v rq,
  gen_predicated_view v rq = call_reg rq v /\ gen_predicate_wrapper rq v = call_reg rq v
  /\ gen_checker rq v = qualifies rq v.
Proof. intros v rq. exact (conj (gen_predicated_view_is_model v rq) (conj (gen_predicate_wrapper_is_model rq v) (gen_checker_is_model rq v))). Qed.
Print Assumptions C03_generated_predicated_view_is_model.

Theorem C03_generated_make_is_model : forall names kw,
  NoDup names -> gen_make names kw = option_map made_triple (make names kw).
Proof. exact gen_make_is_model. Qed.
Print Assumptions C03_generated_make_is_model.

(* text() / phash() of every stock predicate class, of CustomPredicate and of Notted, regenerated from the source:
   the text that identifies a registration inside its slot (and that the digest is taken of) is the model's *)
Theorem C03_generated_phash_is_model : forall p, gen_pred_phash p = pred_phash p.
Proof. exact gen_pred_phash_is_model. Qed.
Print Assumptions C03_generated_phash_is_model.

(* two containment= values are one registration key exactly when their str() agree (regenerated text) *)
Theorem C03_gen_containment_phash_iff : forall i j s t,
  gen_pred_phash (PContainment i s) = gen_pred_phash (PContainment j t) <-> s = t.
Proof. exact gen_containment_phash_iff. Qed.
Print Assumptions C03_gen_containment_phash_iff.

(* not_(P) and P have different keys when P has a real phash (regenerated Notted.phash / _notted_text) *)
Theorem C03_gen_notted_phash_differs : forall p,
  pred_phash p <> [] -> gen_pred_phash (PNot p) <> gen_pred_phash p.
Proof. exact gen_notted_phash_differs. Qed.
Print Assumptions C03_gen_notted_phash_differs.

(* the constructors that normalise their value, regenerated from the source (RequestMethodPredicate.__init__: sorted
   tuple, GET implies HEAD; RequestParamPredicate.__init__: 'k', 'k=v', leading '=' parsing with str.strip) are the
   model's; make calls them through gen_factory *)
Theorem C03_generated_factory_is_model : forall name v, gen_factory name v = factory name v.
Proof. exact gen_factory_is_model. Qed.
Print Assumptions C03_generated_factory_is_model.

Theorem C03_generated_request_param_init : forall l,
  gen_mk_request_param l = Some (PParam (map param_req (sorted_texts l))).
Proof. exact gen_mk_request_param_spec. Qed.
Print Assumptions C03_generated_request_param_init.

Theorem C03_generated_header_init : forall l,
  gen_mk_header l = Some (PHeader (map header_req (sorted_texts l))).
Proof. exact gen_mk_header_spec. Qed.
Print Assumptions C03_generated_header_init.

Theorem C03_generated_match_param_init : forall v l,
  as_tuple v = Some l -> gen_mk_match_param l = mk_match_param v.
Proof. exact gen_mk_match_param_is_model. Qed.
Print Assumptions C03_generated_match_param_init.

Theorem C03_generated_physical_path_init : forall v, gen_mk_physical_path v = mk_phys v.
Proof. exact gen_mk_physical_path_is_model. Qed.
Print Assumptions C03_generated_physical_path_init.

Theorem C03_generated_request_method_init : forall l,
  gen_mk_request_method l =
  Some (PMethod (if mem_text rm_get (sorted_texts l) && negb (mem_text rm_head (sorted_texts l))
                 then sorted_texts (sorted_texts l ++ [rm_head]) else sorted_texts l)).
Proof. exact gen_mk_request_method_spec. Qed.
Print Assumptions C03_generated_request_method_init.

(* MultiView.add regenerated from the source (the state of self -- views, media_views, accepts -- threaded through the
   statements; the list obtained from dict.setdefault is an alias of the dict entry; in-place l[i] = ..; for .. else) is
   the model's mv_add, so C03_multiview_sorted and the registry invariants speak about the code's merge *)
Theorem C03_generated_mv_add_is_model : forall m v order phash accept ao,
  gen_mv_add m v order phash accept ao = mv_add m v order phash accept ao.
Proof. exact gen_mv_add_is_model. Qed.
Print Assumptions C03_generated_mv_add_is_model.

(* sort_accept_offers with its nested find_order_index / offer_sort_key, regenerated: the order in which a MultiView
   keeps its offers is the model's (stable sort by (type weight, params weight)) *)
Theorem C03_generated_sort_accept_offers_is_model : forall offers order,
  gen_sort_accept_offers offers order = sort_accept_offers offers order.
Proof. exact gen_sort_accept_offers_is_model. Qed.
Print Assumptions C03_generated_sort_accept_offers_is_model.

(* attr_wrapped_view regenerated: the __accept__/__order__/__phash__ attributes exist (carrying the registration's
   accept, order and phash: checked when translating) exactly when one of the three differs from its default *)
Theorem C03_generated_attr_wrapped_is_model : forall v, gen_attr_wrapped v = attr_wrapped v.
Proof. exact gen_attr_wrapped_is_model. Qed.
Print Assumptions C03_generated_attr_wrapped_is_model.

Theorem C03_generated_predicates_are_model : forall rq p, gen_eval_pred rq p = eval_pred rq p.
Proof. exact gen_eval_pred_is_model. Qed.
Print Assumptions C03_generated_predicates_are_model.

Theorem C03_gen_lookup_winner_partial : forall ao regs cls rq,
  Forall reg_wf regs -> NoDup (map key regs) -> no_accept regs ->
  NoDup (q_req_sro rq) -> NoDup (q_ctx_sro rq) -> order_respects regs ->
  spec_ok cls regs rq (gen_call_view (register_all ao regs) cls rq) = true.
Proof. exact gen_lookup_winner. Qed.
Print Assumptions C03_gen_lookup_winner_partial.

Theorem C03_gen_failing_pred_never_runs : forall R cls rq t,
  gen_call_view R cls rq = Ran t ->
  exists x, In x (tried R cls rq) /\ qualifies rq x = true /\ r_tag x = t.
Proof. exact gen_failing_pred_never_runs. Qed.
Print Assumptions C03_gen_failing_pred_never_runs.

Theorem C03_gen_not_found_only_if_none : forall R cls rq,
  not_found (gen_call_view R cls rq) -> forall x, In x (tried R cls rq) -> qualifies rq x = false.
Proof. exact gen_not_found_only_if_none. Qed.
Print Assumptions C03_gen_not_found_only_if_none.

(* ==== locality of registration (Proofs/C03_loc.v) *)
Require Import Verif.Proofs.C03_loc.

(* the adapter found at a slot after ANY sequence of add_view calls is the one the registrations of that slot alone
   (in their order) produce; registrations for other contexts, routes, names or classifiers never change it *)
Theorem C03_register_all_slot_local : forall ao regs s vt,
  register_all ao regs s vt = register_all ao (slot_regs regs s) s vt.
Proof. exact register_all_slot_local. Qed.
Print Assumptions C03_register_all_slot_local.

(* register_view writes nothing outside the slot of the view it registers *)
Theorem C03_register_view_frame : forall ao R v s' vt,
  r_slot v <> s' -> register_view ao R v s' vt = R s' vt.
Proof. exact register_view_frame. Qed.
Print Assumptions C03_register_view_frame.

(* a lookup is a function of the registrations of the looked-up classifier and view name *)
Theorem C03_lookup_ignores_other_names : forall ao regs cls rq,
  call_view (register_all ao regs) cls rq =
  call_view (register_all ao (filter (relevant cls (q_view_name rq)) regs)) cls rq.
Proof. exact lookup_ignores_other_names. Qed.
Print Assumptions C03_lookup_ignores_other_names.

(* the slot key computed two ways (shape of seeded change C03-18): with the same key it is the model; with another
   lookup / unregister key two views of one slot never merge -- the second replaces the first (witness) *)
Theorem C03_register_view2_same_key : forall ao R v, register_view2 ao R v (r_slot v) = register_view ao R v.
Proof. exact register_view2_same_key. Qed.
Print Assumptions C03_register_view2_same_key.

Theorem C03_register_view2_other_key_refuted :
  exists ao v1 v2 sl,
    r_slot v1 = r_slot v2 /\ r_phash v1 <> r_phash v2 /\ sl <> r_slot v1 /\
    (exists m, register_all ao [v1; v2] (r_slot v1) IMultiView = Some (CMulti m)) /\
    register_view2 ao (register_view2 ao reg_empty v1 sl) v2 sl (r_slot v1) IMultiView = None /\
    register_view2 ao (register_view2 ao reg_empty v1 sl) v2 sl (r_slot v1) IView = Some (CView v2).
Proof. exact register_view2_other_key_refuted. Qed.
Print Assumptions C03_register_view2_other_key_refuted.

(* ==== the interleaving of registrations of different slots is irrelevant (Proofs/C03_loc2.v): no hypothesis on
   phashes, orders, accept= or overrides -- strengthens C03_lookup_order_insensitive_partial for this kind of reordering *)
Require Import Verif.Proofs.C03_loc2.

Theorem C03_lookup_interleaving : forall ao l1 l2 cls rq,
  (forall s, slot_regs l1 s = slot_regs l2 s) ->
  call_view (register_all ao l1) cls rq = call_view (register_all ao l2) cls rq.
Proof. exact lookup_interleaving. Qed.
Print Assumptions C03_lookup_interleaving.

Theorem C03_lookup_swap_other_slots : forall ao l1 a b l2 cls rq,
  r_slot a <> r_slot b ->
  call_view (register_all ao (l1 ++ a :: b :: l2)) cls rq = call_view (register_all ao (l1 ++ b :: a :: l2)) cls rq.
Proof. exact lookup_swap_other_slots. Qed.
Print Assumptions C03_lookup_swap_other_slots.

(* ==== ties after in-place replacements (Proofs/C03_ties.v) *)
Require Import Verif.Proofs.C03_ties.

(* a re-registration whose phash is already in views (order a function of the phash; any accept=) replaces the entry
   in place: the (order, phash) sequence of views, the media subsets and the offers are unchanged *)
Theorem C03_readd_keeps_positions : forall f m v ph acc ao,
  mv_sorted f m -> In ph (map e_phash (mv_views m)) ->
  map e_key (mv_views (mv_add m v (f ph) ph acc ao)) = map e_key (mv_views m)
  /\ mv_media (mv_add m v (f ph) ph acc ao) = mv_media m /\ mv_accepts (mv_add m v (f ph) ph acc ao) = mv_accepts m.
Proof. exact readd_keeps_positions. Qed.
Print Assumptions C03_readd_keeps_positions.

Theorem C03_readds_keep_positions : forall f readds m,
  mv_sorted f m -> Forall (is_readd f m) readds ->
  map e_key (mv_views (fold_left mv_add_args readds m)) = map e_key (mv_views m).
Proof. exact readds_keep_positions. Qed.
Print Assumptions C03_readds_keep_positions.

(* distinct registrations followed by any number of overrides: among entries of equal order, views lists the phashes in
   the order of their FIRST registration *)
Theorem C03_ties_in_first_registration_order : forall f (adds : list (reg * Z * text)) readds k,
  let m0 := fold_left mv_add_args (map plain_add adds) mv_empty in
  NoDup (map (fun a => snd a) adds) ->
  Forall (fun a : reg * Z * text => snd (fst a) = f (snd a)) adds ->
  Forall (is_readd f m0) readds ->
  filter (fun kp : Z * text => Z.eqb (fst kp) k) (map e_key (mv_views (fold_left mv_add_args readds m0)))
  = map e_key (filter (same_order k) (map add_entry adds)).
Proof. exact ties_in_first_registration_order. Qed.
Print Assumptions C03_ties_in_first_registration_order.

(* ==== ties with overrides interleaved with new registrations (Proofs/C03_ties2.v) *)
Require Import Verif.Proofs.C03_ties2.

(* the (order, phash) sequence of views is a fold over the keys alone *)
Theorem C03_views_keys_fold : forall f (adds : list (reg * Z * text)) m,
  mv_sorted f m -> Forall (fun a : reg * Z * text => snd (fst a) = f (snd a)) adds ->
  map e_key (mv_views (fold_left mv_add_args (map plain_add adds) m))
  = fold_left addK (map key_of_add adds) (map e_key (mv_views m)).
Proof. exact fold_keys. Qed.
Print Assumptions C03_views_keys_fold.

(* any sequence of plain registrations and overrides, interleaved at will (order a function of the phash): among entries
   of equal order, views lists the phashes in the order of their FIRST registration *)
Theorem C03_ties_first_registration_interleaved : forall f (adds : list (reg * Z * text)) k,
  Forall (fun a : reg * Z * text => snd (fst a) = f (snd a)) adds ->
  filter (fun kp : Z * text => Z.eqb (fst kp) k)
         (map e_key (mv_views (fold_left mv_add_args (map plain_add adds) mv_empty)))
  = map e_key (filter (same_order k) (map add_entry (first_adds [] adds))).
Proof. exact ties_first_registration_interleaved. Qed.
Print Assumptions C03_ties_first_registration_interleaved.

(* ==== ties inside a media subset (Proofs/C03_ties3.v) *)
Require Import Verif.Proofs.C03_ties3.

(* registrations that all carry accept= a build the subset of a exactly as plain registrations build views *)
Theorem C03_media_subset_simulation : forall a ao (adds : list (reg * Z * text)) m m',
  mv_views m = [] -> media_of m a = mv_views m' ->
  mv_views (fold_left mv_add_args (map (accept_add a ao) adds) m) = [] /\
  media_of (fold_left mv_add_args (map (accept_add a ao) adds) m) a
  = mv_views (fold_left mv_add_args (map plain_add adds) m').
Proof. exact media_subset_simulation. Qed.
Print Assumptions C03_media_subset_simulation.

(* hence, with overrides interleaved at will, the subset lists equal orders in first-registration order *)
Theorem C03_media_ties_first_registration : forall f a ao (adds : list (reg * Z * text)) k,
  Forall (fun x : reg * Z * text => snd (fst x) = f (snd x)) adds ->
  filter (fun kp : Z * text => Z.eqb (fst kp) k)
         (map e_key (media_of (fold_left mv_add_args (map (accept_add a ao) adds) mv_empty) a))
  = map e_key (filter (same_order k) (map add_entry (first_adds [] adds))).
Proof. exact media_ties_first_registration. Qed.
Print Assumptions C03_media_ties_first_registration.
