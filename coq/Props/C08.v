(* C08 -- property theorems only.  Each is closed by [exact] of a lemma proved in Proofs/C08*.v;
   Print Assumptions beneath each.

   Hypotheses (defined in Proofs/C08.v):
     H1 l        write discipline: two statements with different ids write a common key only as members of one
                 ordered container (both MSeq) or as views of one multiview with different predicate orders
                 (both MAcc, different sacc)                       -- discharged by C04's conflict detection
     H2 l        phase discipline: every key a statement reads is written only by statements of strictly
                 earlier phases                                    -- regenerated table + monitored run
     Horder l l' for every key, the MSeq writers of that key occur in the same relative order in l and l'
                 (route vs route, subscriber vs subscriber, tween vs tween)
     store_eq    pointwise equality of stores (no extensionality axiom)

   The scheduling theorem is also stated about the REAL commit model of C04 (C08_commit_model_permutation_invariant):
   [exec_store] executes the statements in the order of the Run events of C04's [commit] on the actions with their
   include chains; C08_commit_runs_schedule shows that for pairwise different discriminators these are exactly
   [schedule], whatever the include tree (rests on C04_commit_spec).  Equality of whole applications is validated,
   not proved. *)
From Coq Require Import List NArith ZArith Bool Permutation.
Import ListNotations.
Require Import Verif.Lib.Wire Verif.Lib.C04Sort Verif.Model.C08_base Verif.Gen.Facts_C08 Verif.Model.C04 Verif.Model.C08.
Require Import Verif.Proofs.C08 Verif.Proofs.C08_tbl Verif.Proofs.C08_commit Verif.Proofs.C08_gen.

(* the scheduling theorem: any two orderings of one statement set that keep the order inside every ordered
   container end in the same store, whatever the size of the program *)
Theorem C08_commit_permutation_invariant : forall l l',
  NoDup (map sid l) -> Permutation l l' -> Horder l l' -> H1 l -> H2 l ->
  store_eq (final l) (final l').
Proof. exact commit_permutation_invariant. Qed.
Print Assumptions C08_commit_permutation_invariant.

(* C04's commit on a program with pairwise different discriminators, nested in ANY include tree, ends Done and runs
   the actions exactly in the order [schedule] (stable sort by phase) *)
Theorem C08_commit_runs_schedule : forall (paths : list path) (decl : list (wstmt * nat)),
  let acts := map (fun wp => to_action paths (fst wp) (snd wp)) decl in
  let dl := map (fun wp => wst (fst wp)) decl in
  NoDup (map sid dl) -> discs_nodup acts = true ->
  fst (commit acts) = Done /\ run_ids (snd (commit acts)) = sids (schedule dl).
Proof. exact commit_runs_schedule. Qed.
Print Assumptions C08_commit_runs_schedule.

(* the property over the real commit model: any two orderings that keep the order inside every ordered container,
   distributed over any two include trees, leave the same store when executed by C04's commit *)
Theorem C08_commit_model_permutation_invariant : forall (paths paths' : list path) (decl decl' : list (wstmt * nat)),
  let dl := map (fun wp => wst (fst wp)) decl in
  let dl' := map (fun wp => wst (fst wp)) decl' in
  NoDup (map sid dl) -> Permutation dl dl' ->
  discs_nodup (map (fun wp => to_action paths (fst wp) (snd wp)) decl) = true ->
  discs_nodup (map (fun wp => to_action paths' (fst wp) (snd wp)) decl') = true ->
  Horder dl dl' -> H1 dl -> H2 dl ->
  store_eq (exec_store paths decl) (exec_store paths' decl').
Proof. exact commit_model_permutation_invariant. Qed.
Print Assumptions C08_commit_model_permutation_invariant.

(* a statement may refer to something declared later: wherever reader s and writer w stand in the program, the
   writer runs in an earlier phase, the key holds exactly the writer's value at the end, and that is what the
   reader found when its own turn came *)
Theorem C08_forward_reference_ok : forall l s w k,
  NoDup (map sid l) -> H1 l -> H2 l -> In s l -> In w l -> In k (sreads s) -> writes k w = true -> smode w = MSet ->
  (sphase w < sphase s)%Z /\
  final l k = [(0%N, mkval w (final l))] /\
  exists pre post, schedule l = pre ++ s :: post /\ runl pre empty k = final l k.
Proof. exact forward_reference_ok. Qed.
Print Assumptions C08_forward_reference_ok.

(* what a statement computes at its turn is what it would compute from the final store *)
Theorem C08_reader_sees_final : forall l s pre post,
  H2 l -> schedule l = pre ++ s :: post -> mkval s (runl pre empty) = mkval s (final l).
Proof. exact reader_sees_final. Qed.
Print Assumptions C08_reader_sees_final.

(* Facts_ok: the regenerated phases/deferred flags together with the declared read/write table satisfy phase
   discipline (every read family of a phase-p directive is written only by directives of phases < p; a
   discriminator that reads anything is deferred), one write mode per family, one declared row per site *)
Theorem C08_table_ok : table_ok = true.
Proof. exact table_ok_holds. Qed.
Print Assumptions C08_table_ok.

(* ... and therefore every program whose statements instantiate rows of the table satisfies H2 *)
Theorem C08_table_discipline : forall (l : list (row * stmt)),
  (forall p, In p l -> In (fst p) rows /\ conforms (fst p) (snd p) = true) -> H2 (map snd l).
Proof. exact table_programs_H2. Qed.
Print Assumptions C08_table_discipline.

(* the emission functions REGENERATED from config/*.py on this run (which actions each directive declares: site,
   discriminator head, order=, Deferred flag, callable flag, sequence) equal the hand-written reference model, for all
   39 translated directive methods and every valuation of the argument atoms *)
Theorem C08_generated_directives_are_model :
  Forall2 (fun g m => forall v a, g v a = m v a) generated_directives model_directives.
Proof. exact generated_directives_are_model. Qed.
Print Assumptions C08_generated_directives_are_model.

(* the regenerated emission functions and the regenerated site table agree on every order= value and Deferred flag,
   and cover each other *)
Theorem C08_generated_calls_are_the_table :
  forallb call_in_table all_generated_calls = true /\
  forallb (fun s => existsb (fun c => text_eqb (k_site c) (fst (fst s))) all_generated_calls) sites = true.
Proof. exact generated_calls_are_the_table. Qed.
Print Assumptions C08_generated_calls_are_the_table.

(* phase discipline H2 for every program whose statements are calls of the REGENERATED directives (phase = the call's
   order=, reads and writes inside the declared row of the call's site) *)
Theorem C08_generated_programs_H2 : forall (l : list (call * stmt)),
  (forall p, In p l -> In (fst p) all_generated_calls /\
                       exists r, row_named (k_site (fst p)) = Some r /\ conforms_call (fst p) r (snd p) = true) ->
  H2 (map snd l).
Proof. exact generated_programs_H2. Qed.
Print Assumptions C08_generated_programs_H2.

(* the registration path regenerated from config/actions.py (Configurator.action with its autocommit and
   introspection branches, ActionState.action, Configurator.commit) equals the reference model *)
Theorem C08_generated_registration_path_is_model :
  (forall w d cb o intrs, gen_cfg_action w d cb o intrs = model_cfg_action w d cb o intrs) /\
  (forall w d cb o p info intrs, gen_state_action w d cb o p info intrs = model_state_action w d cb o p info intrs) /\
  (forall w, gen_commit w = model_commit w).
Proof. exact (conj generated_cfg_action_is_model (conj generated_state_action_is_model generated_commit_is_model)). Qed.
Print Assumptions C08_generated_registration_path_is_model.

(* ... hence, for the GENERATED Configurator.action: outside autocommit the request is queued once with the
   configurator's include chain and the order= given, and nothing runs before commit *)
Theorem C08_generated_action_queues : forall w d cb o intrs,
  w_autocommit w = false ->
  w_pending (gen_cfg_action w d cb o intrs) =
    w_pending w ++ [mkQ d cb o (w_includepath w) (w_info w) (if w_introspection w then intrs else [])] /\
  w_log (gen_cfg_action w d cb o intrs) = w_log w.
Proof. exact generated_action_queues. Qed.
Print Assumptions C08_generated_action_queues.

(* the phases of the directives the property names, read from the regenerated table *)
Theorem C08_directive_phases :
  phase_of n_add_predicate = Some phase1 /\ phase_of n_add_view_deriver = Some phase1 /\
  phase_of n_add_renderer = Some phase1 /\ phase_of n_set_default_permission = Some phase1 /\
  phase_of n_set_default_csrf_options = Some phase1 /\
  phase_of n_set_security_policy = Some phase2 /\ phase_of n_add_route_iface = Some phase2 /\
  phase_of n_add_view = Some phase3 /\ deferred_of n_add_view = Some true /\
  phase_of n_add_route_connect = Some default_order /\
  (phase0 < phase1 < phase2)%Z /\ (phase2 < phase3)%Z /\ phase3 = default_order.
Proof. exact directive_phases. Qed.
Print Assumptions C08_directive_phases.

(* the executable checks returned with every model run are sound for the hypotheses *)
Theorem C08_h1b_sound : forall l, h1b l = true -> H1 l.
Proof. exact h1b_H1. Qed.
Print Assumptions C08_h1b_sound.

Theorem C08_h2b_sound : forall l, h2b l = true -> H2 l.
Proof. exact h2b_H2. Qed.
Print Assumptions C08_h2b_sound.

(* the regenerated predicate weights are distinct single bits: predicate sets that differ get different scores *)
Theorem C08_predicate_weights_are_distinct_bits :
  forallb pow2 pred_weights = true /\ pairwise_disjoint pred_weights = true /\
  (13 <= length default_view_preds <= length pred_weights)%nat.
Proof. exact predicate_weights_are_distinct_bits. Qed.
Print Assumptions C08_predicate_weights_are_distinct_bits.

(* phase discipline is necessary: with the writer moved into the reader's phase two orderings differ *)
Theorem C08_h2_necessary :
  Permutation Ex.c1 Ex.c2 /\ ~ store_eq (final Ex.c1) (final Ex.c2).
Proof. exact (conj Ex.c1_c2_perm Ex.c1_c2_not_equal). Qed.
Print Assumptions C08_h2_necessary.

(* ---------------------------------------------------------------- executions that are not one sorted commit
   (Proofs/C08_seg.v).  okL T = in the trace T nobody at or after a statement writes a key that statement read. *)
Require Import Verif.Proofs.C08_seg.

(* the scheduling theorem for ARBITRARY execution orders of the same statements *)
Theorem C08_trace_permutation_invariant : forall T T',
  NoDup (map sid T) -> Permutation T T' -> Horder T T' -> H1 T -> H2 T -> okL T -> okL T' ->
  store_eq (runl T empty) (runl T' empty).
Proof. exact trace_permutation_invariant. Qed.
Print Assumptions C08_trace_permutation_invariant.

(* intermediate commits:  a ; commit() ; b ; commit()  ends in the store of the single commit of a ++ b when the prefix
   is closed (no statement of b writes a key a statement of a reads) and the ordered containers see a's members first *)
Theorem C08_segmented_commit_invariant : forall a b,
  NoDup (map sid (a ++ b)) -> H1 (a ++ b) -> H2 (a ++ b) -> closed_prefix a b ->
  (forall k, filter (seq_writer k) (schedule a ++ schedule b) = filter (seq_writer k) (schedule (a ++ b))) ->
  store_eq (final2 a b) (final (a ++ b)).
Proof. exact segmented_commit_invariant. Qed.
Print Assumptions C08_segmented_commit_invariant.

(* ... in particular when the members of each ordered container share a phase (as in the directive table) *)
Theorem C08_closed_prefix_commit_equiv : forall a b,
  NoDup (map sid (a ++ b)) -> H1 (a ++ b) -> H2 (a ++ b) -> closed_prefix a b -> seq_same_phase (a ++ b) ->
  store_eq (final2 a b) (final (a ++ b)).
Proof. exact closed_prefix_commit_equiv. Qed.
Print Assumptions C08_closed_prefix_commit_equiv.

(* one commit or two, any statement order that keeps the ordered containers: the same store *)
Theorem C08_segmented_variants_agree : forall a b l',
  NoDup (map sid (a ++ b)) -> H1 (a ++ b) -> H2 (a ++ b) -> closed_prefix a b -> seq_same_phase (a ++ b) ->
  Permutation (a ++ b) l' -> Horder (a ++ b) l' ->
  store_eq (final2 a b) (final l').
Proof. exact segmented_variants_agree. Qed.
Print Assumptions C08_segmented_variants_agree.

(* non-vacuity and necessity of closedness: a closed cut agrees with the single commit (and leaves a non-empty cell);
   an open cut -- the view committed before the default permission is declared -- ends in a different store *)
Theorem C08_closed_cut_example :
  closed_prefix [SegEx.rd; SegEx.wr] [SegEx.other] /\
  final2 [SegEx.rd; SegEx.wr] [SegEx.other] 9%N = final [SegEx.rd; SegEx.wr; SegEx.other] 9%N /\
  final2 [SegEx.rd; SegEx.wr] [SegEx.other] 9%N <> [].
Proof. exact SegEx.closed_cut_ok. Qed.
Print Assumptions C08_closed_cut_example.

Theorem C08_open_cut_differs :
  ~ closed_prefix [SegEx.rd] [SegEx.wr] /\ final2 [SegEx.rd] [SegEx.wr] 9%N <> final [SegEx.rd; SegEx.wr] 9%N.
Proof. exact SegEx.open_cut_differs. Qed.
Print Assumptions C08_open_cut_differs.

(* the regenerated table has the property the intermediate-commit theorem needs: all directives that append to one
   ordered container do so in one phase (vm_compute over Gen/Facts_C08.v) -- hence for every program made of rows of the
   regenerated table, two commits after a closed prefix end in the store of the single commit *)
Theorem C08_table_seq_same_phase : forall (l : list (row * stmt)),
  (forall p, In p l -> In (fst p) rows /\ conforms (fst p) (snd p) = true) -> seq_same_phase (map snd l).
Proof. exact (table_seq_same_phase table_seq_ok_holds). Qed.
Print Assumptions C08_table_seq_same_phase.

Theorem C08_table_programs_segmented : forall (a b : list (row * stmt)),
  (forall p, In p (a ++ b) -> In (fst p) rows /\ conforms (fst p) (snd p) = true) ->
  NoDup (map sid (map snd a ++ map snd b)) -> H1 (map snd a ++ map snd b) -> closed_prefix (map snd a) (map snd b) ->
  store_eq (final2 (map snd a) (map snd b)) (final (map snd a ++ map snd b)).
Proof. exact table_programs_segmented. Qed.
Print Assumptions C08_table_programs_segmented.

(* an intermediate-commit cut found closed by the executable check of the extracted model is closed *)
Theorem C08_closed_prefixb_sound : forall a b, closed_prefixb a b = true -> closed_prefix a b.
Proof. exact closed_prefixb_sound. Qed.
Print Assumptions C08_closed_prefixb_sound.

(* ---------------------------------------------------------------- intermediate commits over the REAL commit model (Proofs/C08_segc.v) *)
Require Import Verif.Proofs.C08_segc.

(* C04's commit applied to each segment in turn ([commit_segs]) ends Done and runs  schedule A ++ schedule B,
   whatever the include trees *)
Theorem C08_commit_segs_runs_schedules : forall paths declA declB,
  NoDup (map sid (stmts_of declA)) -> NoDup (map sid (stmts_of declB)) ->
  discs_nodup (acts_of paths declA) = true -> discs_nodup (acts_of paths declB) = true ->
  fst (commit_segs [acts_of paths declA; acts_of paths declB]) = Done /\
  run_ids (snd (commit_segs [acts_of paths declA; acts_of paths declB]))
    = sids (schedule (stmts_of declA)) ++ sids (schedule (stmts_of declB)).
Proof. exact commit_segs_runs_schedules. Qed.
Print Assumptions C08_commit_segs_runs_schedules.

(* two commits with a closed prefix, executed by the real commit model, leave the store that ONE commit of any
   reordering (keeping the ordered containers) in any other include tree leaves *)
Theorem C08_commit_model_segmented_invariant : forall paths paths' declA declB decl',
  let dA := stmts_of declA in
  let dB := stmts_of declB in
  let dl' := stmts_of decl' in
  NoDup (map sid (dA ++ dB)) -> Permutation (dA ++ dB) dl' ->
  discs_nodup (acts_of paths declA) = true -> discs_nodup (acts_of paths declB) = true ->
  discs_nodup (acts_of paths' decl') = true ->
  Horder (dA ++ dB) dl' -> H1 (dA ++ dB) -> H2 (dA ++ dB) -> closed_prefix dA dB -> seq_same_phase (dA ++ dB) ->
  store_eq (exec_store2 paths declA declB) (exec_store paths' decl').
Proof. exact commit_model_segmented_invariant. Qed.
Print Assumptions C08_commit_model_segmented_invariant.

(* non-vacuity: a two-commit program in one include tree vs a one-commit program in another (computed) *)
Theorem C08_two_commits_example :
  fst (commit_segs [acts_of ExC.pathsA ExS.seg1; acts_of ExC.pathsA ExS.seg2]) = Done /\
  run_ids (snd (commit_segs [acts_of ExC.pathsA ExS.seg1; acts_of ExC.pathsA ExS.seg2])) = [1; 2; 4; 3]%N /\
  closed_prefix (stmts_of ExS.seg1) (stmts_of ExS.seg2) /\
  forallb (fun k => cell_eqb (exec_store2 ExC.pathsA ExS.seg1 ExS.seg2 k) (exec_store ExC.pathsB ExC.declB k)) [1; 2; 3; 4; 5]%N = true /\
  exec_store2 ExC.pathsA ExS.seg1 ExS.seg2 4%N <> [].
Proof.
  exact (conj (proj1 ExS.two_commits) (conj (proj1 (proj2 ExS.two_commits))
        (conj ExS.closed (conj (proj1 ExS.same_store_as_one_commit) (proj2 ExS.same_store_as_one_commit))))).
Qed.
Print Assumptions C08_two_commits_example.

(* ---------------------------------------------------------------- ANY number of intermediate commits
   (Proofs/C08_segn.v, C08_segnc.v).  finalN segs = the store after  s1 ; commit() ; ... ; sn ; commit() ;
   closed_segs segs = no segment writes a key that a statement of an EARLIER segment reads. *)
Require Import Verif.Proofs.C08_segn Verif.Proofs.C08_segnc.

Theorem C08_closed_segs_commit_equiv : forall segs,
  NoDup (map sid (concat segs)) -> H1 (concat segs) -> H2 (concat segs) ->
  closed_segs segs -> seq_same_phase (concat segs) ->
  store_eq (finalN segs) (final (concat segs)).
Proof. exact closed_segs_commit_equiv. Qed.
Print Assumptions C08_closed_segs_commit_equiv.

(* two differently cut (and differently ordered) issues of the same statements end in the same store *)
Theorem C08_closed_segs_two_cuttings_agree : forall segs segs',
  NoDup (map sid (concat segs)) -> H1 (concat segs) -> H2 (concat segs) -> seq_same_phase (concat segs) ->
  closed_segs segs -> closed_segs segs' ->
  Permutation (concat segs) (concat segs') -> Horder (concat segs) (concat segs') ->
  store_eq (finalN segs) (finalN segs').
Proof. exact closed_segs_two_cuttings_agree. Qed.
Print Assumptions C08_closed_segs_two_cuttings_agree.

(* for programs made of rows of the regenerated table only distinct ids, H1 and closedness remain as hypotheses *)
Theorem C08_table_programs_closed_segs : forall (segs : list (list (row * stmt))),
  (forall p, In p (concat segs) -> In (fst p) rows /\ conforms (fst p) (snd p) = true) ->
  NoDup (map sid (concat (map (map snd) segs))) -> H1 (concat (map (map snd) segs)) ->
  closed_segs (map (map snd) segs) ->
  store_eq (finalN (map (map snd) segs)) (final (concat (map (map snd) segs))).
Proof. exact table_programs_closed_segs. Qed.
Print Assumptions C08_table_programs_closed_segs.

(* C04's commit applied to each of n segments runs  schedule s1 ++ ... ++ schedule sn  and ends Done *)
Theorem C08_commit_segs_runs_all : forall paths decls,
  (forall d, In d decls -> seg_ok paths d) ->
  fst (commit_segs (map (acts_of paths) decls)) = Done /\
  run_ids (snd (commit_segs (map (acts_of paths) decls))) = flat_map (fun d => sids (schedule (stmts_of d))) decls.
Proof. exact commit_segs_runs_all. Qed.
Print Assumptions C08_commit_segs_runs_all.

(* n commits with closed cuts under the real commit model = ONE commit of any reordering in any include tree *)
Theorem C08_commit_model_closed_segs_invariant : forall paths paths' decls decl',
  let segs := map stmts_of decls in
  let dl' := stmts_of decl' in
  NoDup (map sid (concat segs)) -> Permutation (concat segs) dl' ->
  (forall d, In d decls -> discs_nodup (acts_of paths d) = true) ->
  discs_nodup (acts_of paths' decl') = true ->
  Horder (concat segs) dl' -> H1 (concat segs) -> H2 (concat segs) -> closed_segs segs -> seq_same_phase (concat segs) ->
  store_eq (exec_storeN paths decls) (exec_store paths' decl').
Proof. exact commit_model_closed_segs_invariant. Qed.
Print Assumptions C08_commit_model_closed_segs_invariant.

(* non-vacuity: three commits, closed cuts, hypotheses hold, stores computed equal; an open cut among three differs *)
Theorem C08_three_commits_example :
  closed_segs SegNEx.segs3 /\ h1b (concat SegNEx.segs3) = true /\ h2b (concat SegNEx.segs3) = true /\
  forallb (fun k => cell_eqb (finalN SegNEx.segs3 k) (final (concat SegNEx.segs3) k)) [7; 9; 11]%N = true /\
  finalN SegNEx.segs3 9%N <> [].
Proof. exact (conj SegNEx.three_commits_closed SegNEx.three_commits_hyps). Qed.
Print Assumptions C08_three_commits_example.

Theorem C08_three_commits_open_differs :
  ~ closed_segs [[SegEx.rd]; [SegEx.wr]; [SegEx.other]] /\
  finalN [[SegEx.rd]; [SegEx.wr]; [SegEx.other]] 9%N <> final [SegEx.rd; SegEx.wr; SegEx.other] 9%N.
Proof. exact SegNEx.three_commits_open_differs. Qed.
Print Assumptions C08_three_commits_open_differs.

Theorem C08_three_commits_commit_model_example :
  closed_segs (map stmts_of ExN.decls3) /\
  fst (commit_segs (map (acts_of ExC.pathsA) ExN.decls3)) = Done /\
  run_ids (snd (commit_segs (map (acts_of ExC.pathsA) ExN.decls3))) = [1; 2; 4; 3]%N /\
  forallb (fun d => discs_nodup (acts_of ExC.pathsA d)) ExN.decls3 = true /\
  h1b (concat (map stmts_of ExN.decls3)) = true /\ h2b (concat (map stmts_of ExN.decls3)) = true /\
  forallb (fun k => cell_eqb (exec_storeN ExC.pathsA ExN.decls3 k) (exec_store ExC.pathsB ExC.declB k)) [1; 2; 3; 4; 5]%N = true /\
  exec_storeN ExC.pathsA ExN.decls3 4%N <> [].
Proof. exact (conj ExN.three_commits_closed ExN.three_commits). Qed.
Print Assumptions C08_three_commits_commit_model_example.

(* ---------------------------------------------------------------- the n-commit theorem with EXECUTABLE hypotheses
   (Proofs/C08_segb.v): when the boolean checks say true, n commits leave the store of the single commit *)
Require Import Verif.Proofs.C08_segb.

Theorem C08_closed_segsb_sound : forall segs, closed_segsb segs = true -> closed_segs segs.
Proof. exact closed_segsb_sound. Qed.
Print Assumptions C08_closed_segsb_sound.

Theorem C08_seq_same_phaseb_sound : forall l, seq_same_phaseb l = true -> seq_same_phase l.
Proof. exact seq_same_phaseb_sound. Qed.
Print Assumptions C08_seq_same_phaseb_sound.

Theorem C08_checked_segs_commit_equiv : forall segs,
  NoDup (map sid (concat segs)) -> h1b (concat segs) = true -> h2b (concat segs) = true ->
  closed_segsb segs = true -> seq_same_phaseb (concat segs) = true ->
  store_eq (finalN segs) (final (concat segs)).
Proof. exact checked_segs_commit_equiv. Qed.
Print Assumptions C08_checked_segs_commit_equiv.

(* one cut, with the check the extracted model returns as its 7th flag *)
Theorem C08_checked_two_commits_equiv : forall a b,
  NoDup (map sid (a ++ b)) -> h1b (a ++ b) = true -> h2b (a ++ b) = true ->
  closed_prefixb a b = true -> seq_same_phaseb (a ++ b) = true ->
  store_eq (final2 a b) (final (a ++ b)).
Proof. exact checked_two_commits_equiv. Qed.
Print Assumptions C08_checked_two_commits_equiv.

(* non-vacuity: all checks true on the three-commit example, the closedness check false on the open cut *)
Theorem C08_checks_on_three_commits :
  h1b (concat SegNEx.segs3) = true /\ h2b (concat SegNEx.segs3) = true /\
  closed_segsb SegNEx.segs3 = true /\ seq_same_phaseb (concat SegNEx.segs3) = true /\
  closed_segsb [[SegEx.rd]; [SegEx.wr]; [SegEx.other]] = false.
Proof. exact checks_on_three_commits. Qed.
Print Assumptions C08_checks_on_three_commits.
