(* C08 -- property theorems only (temporary skeleton while Proofs/C08.v is being completed). *)
From Coq Require Import List NArith ZArith Bool.
Import ListNotations.
Require Import Verif.Lib.Wire Verif.Gen.Facts_C08 Verif.Model.C08.

Theorem C08_table_ok : table_ok = true.
Proof. vm_compute. reflexivity. Qed.
Print Assumptions C08_table_ok.
