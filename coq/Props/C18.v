(* C18 -- property theorems only. *)
From Coq Require Import List NArith ZArith Bool.
Import ListNotations.
Require Import Verif.Lib.Wire Verif.Gen.Facts_C18 Verif.Model.C18 Verif.Proofs.C18.

Theorem C18_sorted_deterministic : forall c ops1 ops2,
  ops1 = ops2 -> run_ops (new_sorter c) ops1 = run_ops (new_sorter c) ops2.
Proof. exact sorted_deterministic. Qed.
Print Assumptions C18_sorted_deterministic.
