(* C18 -- property theorems only.  [s] ranges over every state of a
   TopologicalSorter (any sequence of add/remove calls, any constructor
   arguments); tweens and derivers are stated over the models of
   Tweens.__call__ and _apply_view_derivers. *)
From Coq Require Import List NArith ZArith Bool Permutation.
Import ListNotations.
Require Import Verif.Lib.Wire Verif.Gen.Facts_C18 Verif.Model.C18.
Require Import Verif.Proofs.C18_kahn Verif.Proofs.C18_build Verif.Proofs.C18 Verif.Proofs.C18_rep Verif.Proofs.C18_cycle.
Require Import Verif.Proofs.C18_gen Verif.Proofs.C18_derivers Verif.Proofs.C18_wire Verif.Proofs.C18_args Verif.Proofs.C18_make Verif.Proofs.C18_e2e Verif.Proofs.C18_e2e_preds.

(* the emission loop never runs out of fuel and never looks up a deleted node *)
Theorem C18_sorted_total : forall s, sorted s <> Internal.
Proof. exact sorted_never_internal. Qed.
Print Assumptions C18_sorted_total.

(* every currently declared name exactly once, with its current value *)
Theorem C18_sorted_perm : forall s l,
  sorted s = Sorted l -> NoDup (names s) ->
  Permutation (map fst l) (names s) /\ (forall n v, In (n, v) l -> v = val_of s n).
Proof. exact sorted_perm_state. Qed.
Print Assumptions C18_sorted_perm.

(* every constraint arc with both ends present is honoured: in the order of all
   nodes (FIRST/LAST or INGRESS/MAIN/VIEW included, first before last) and hence
   among the returned names *)
Theorem C18_sorted_respects : forall s l,
  sorted s = Sorted l ->
  exists full,
    NoDup full /\ (forall n, In n full <-> In n (all_names s)) /\
    map fst l = filter (fun n => mem_text n (names s)) full /\
    (forall a b, In (a, b) (all_order s) -> In a (all_names s) -> In b (all_names s) ->
                 precedes full a b = true) /\
    (forall a b, In (a, b) (order s) -> In a (names s) -> In b (names s) ->
                 precedes (map fst l) a b = true).
Proof. exact sorted_respects_state. Qed.
Print Assumptions C18_sorted_respects.

(* the result is a function of the sequence of calls (trivial for a Gallina function) *)
Theorem C18_sorted_deterministic : forall c ops1 ops2,
  ops1 = ops2 -> run_ops (new_sorter c) ops1 = run_ops (new_sorter c) ops2.
Proof. exact sorted_deterministic. Qed.
Print Assumptions C18_sorted_deterministic.

(* cycle_iff_error, direction <=: a cycle among the present constraints is never ordered ... *)
Theorem C18_cycle_never_ordered : forall s l, sorted s = Sorted l -> forall a, ~ path (parcs s) a a.
Proof. exact sorted_acyclic_state. Qed.
Print Assumptions C18_cycle_never_ordered.

(* ... it is reported as CyclicDependencyError unless an unsatisfied dependency is reported first *)
Theorem C18_cycle_is_error : forall s,
  miss_before s = [] -> miss_after s = [] -> (exists a, path (parcs s) a a) ->
  exists l, sorted s = Cyclic l.
Proof. exact cyclic_error_state. Qed.
Print Assumptions C18_cycle_is_error.

(* direction =>, certificate form: the reported dictionary is a non-empty set of
   nodes each having a predecessor inside the set along a present constraint *)
Theorem C18_cycle_error_certificate : forall s l,
  sorted s = Cyclic l ->
  l <> [] /\ forall k, In k (map fst l) -> exists a, In (a, k) (parcs s) /\ In a (map fst l).
Proof. exact cyclic_certificate_state. Qed.
Print Assumptions C18_cycle_error_certificate.

(* unsatisfied_iff_error on the repaired tree: an error is raised iff some name in
   req_before (req_after) has no present alternative among ITS OWN constraints *)
Theorem C18_unsatisfied_iff_error : forall s,
  ((exists l, sorted s = UnsatBefore l) <-> miss_before s <> []) /\
  ((exists l, sorted s = UnsatAfter l) <-> miss_before s = [] /\ miss_after s <> []) /\
  (forall l, sorted s = UnsatBefore l -> l = miss_before s) /\
  (forall l, sorted s = UnsatAfter l -> l = miss_after s).
Proof. exact unsat_error_state. Qed.
Print Assumptions C18_unsatisfied_iff_error.

Theorem C18_unsatisfied_own_constraints : forall s n,
  (In n (miss_before s) <->
     In n (req_before s) /\
     ~ exists alts, In (n, alts) (name2before s) /\ exists a, In a alts /\ In a (all_names s)) /\
  (In n (miss_after s) <->
     In n (req_after s) /\
     ~ exists alts, In (n, alts) (name2after s) /\ exists a, In a alts /\ In a (all_names s)).
Proof.
  intros s n. unfold miss_before, miss_after. rewrite !In_missing, !In_has_dep. split; reflexivity.
Qed.
Print Assumptions C18_unsatisfied_own_constraints.

(* tweens: entered in list order, left in reverse; an explicit list replaces the implicit order *)
Theorem C18_tweens_nesting : forall t h,
  tweens_call t Base = inr h ->
  exists use,
    (tw_explicit t <> [] -> use = tw_explicit t) /\
    (tw_explicit t = [] -> implicit t = Sorted use) /\
    h = wrap_right use Base /\
    trace h = map (fun nf => Enter (fst nf)) use ++ [Call] ++ map (fun nf => Exit (fst nf)) (rev use).
Proof. exact tweens_nesting. Qed.
Print Assumptions C18_tweens_nesting.

Theorem C18_tweens_error : forall t e,
  tweens_call t Base = inl e -> tw_explicit t = [] /\ implicit t = e /\ forall l, e <> Sorted l.
Proof. exact tweens_error. Qed.
Print Assumptions C18_tweens_error.

(* derivers: attr_wrapped_view, predicated_view, then the sorted derivers, outermost first; the view innermost *)
Theorem C18_derivers_nesting : forall s h,
  apply_view_derivers s Base = inr h ->
  exists ds, sorted s = Sorted ds /\
    let all := map (fun n => (n, 0%N)) dv_outer ++ ds in
    h = wrap_right all Base /\
    trace h = map (fun nf => Enter (fst nf)) all ++ [Call] ++ map (fun nf => Exit (fst nf)) (rev all).
Proof. exact derivers_nesting. Qed.
Print Assumptions C18_derivers_nesting.

(* the default pipeline (regenerated declarations): secured_view first, rendered_view and mapped_view innermost *)
Theorem C18_default_derivers_order :
  exists mid, sorted default_derivers =
              Sorted (map (fun n => (n, 0%N)) (t_secured_view :: mid ++ [t_rendered_view; t_mapped_view])).
Proof. exact default_derivers_order. Qed.
Print Assumptions C18_default_derivers_order.

Theorem C18_default_derivers_secured_first :
  exists rest, default_deriver_order = t_secured_view :: rest /\ ~ In t_secured_view rest.
Proof. exact default_derivers_secured_first. Qed.
Print Assumptions C18_default_derivers_secured_first.

(* over operation sequences: the names of the state are exactly the current
   declarations (a re-added name replaces the earlier one), without duplicates *)
Theorem C18_names_of_ops : forall c ops,
  names (final_state (new_sorter c) ops) = dnames (decls_of c ops) /\
  NoDup (names (final_state (new_sorter c) ops)).
Proof. exact names_of_ops. Qed.
Print Assumptions C18_names_of_ops.

Theorem C18_sorted_perm_ops : forall c ops l,
  sorted (final_state (new_sorter c) ops) = Sorted l ->
  Permutation (map fst l) (dnames (decls_of c ops)) /\ NoDup (map fst l).
Proof. exact sorted_perm_ops. Qed.
Print Assumptions C18_sorted_perm_ops.

(* cycle_iff_error, both directions (=> by the pigeonhole principle on the reported dictionary) *)
Theorem C18_cycle_iff_error : forall s,
  miss_before s = [] -> miss_after s = [] ->
  ((exists l, sorted s = Cyclic l) <-> exists a, path (parcs s) a a).
Proof. exact cycle_iff_error_state. Qed.
Print Assumptions C18_cycle_iff_error.

(* every field of a reachable state is determined by the current declarations *)
Theorem C18_rep_reachable : forall c ops, Rep c (final_state (new_sorter c) ops) (decls_of c ops).
Proof. exact Rep_reachable. Qed.
Print Assumptions C18_rep_reachable.

(* central statement: for every constructor flavour and every sequence of add/remove
   calls, each answer of sorted() is accepted by the declarative judge for the
   declarations then in force (each declared name once with its latest value, every
   constraint between present names respected, errors only when justified), and
   remove raises ValueError exactly for an undeclared name *)
Theorem C18_model_judged : forall c ops, steps_ok c [] ops (run_ops (new_sorter c) ops).
Proof. exact model_judged. Qed.
Print Assumptions C18_model_judged.

Theorem C18_sorted_respects_ops : forall c ops l,
  sorted (final_state (new_sorter c) ops) = Sorted l ->
  forall d, In d (decls_of c ops) ->
    (forall u, In u (opt_list (dafter d)) -> In u (dnames (decls_of c ops)) ->
               precedes (map fst l) u (dname d) = true) /\
    (forall o, In o (opt_list (dbefore d)) -> In o (dnames (decls_of c ops)) ->
               precedes (map fst l) (dname d) o = true).
Proof. exact sorted_respects_ops. Qed.
Print Assumptions C18_sorted_respects_ops.

(* unsatisfied_iff_error over declarations: an error iff some declared item has a
   before (after) constraint none of whose alternatives is present *)
Theorem C18_unsatisfied_iff_error_ops : forall c ops,
  let s := final_state (new_sorter c) ops in
  let ds := decls_of c ops in
  ((exists l, sorted s = UnsatBefore l) <-> unsat_before c ds <> []) /\
  ((exists l, sorted s = UnsatAfter l) <-> unsat_before c ds = [] /\ unsat_after c ds <> []).
Proof. exact unsatisfied_iff_error_ops. Qed.
Print Assumptions C18_unsatisfied_iff_error_ops.

(* predicate lists: whatever add_view_predicate / add_route_predicate /
   add_subscriber_predicate calls are made (the argument mapping of each hop is a
   regenerated fact), the resulting order or error is accepted by the judge for the
   declarations  weighs_more_than = after, weighs_less_than = before *)
Theorem C18_preds_scenario_judged : forall k adds,
  judge cfg_plain (decls_of cfg_plain (pred_ops k adds)) (sorted (preds_scenario k adds)) = true.
Proof. exact preds_scenario_judged. Qed.
Print Assumptions C18_preds_scenario_judged.

(* tween histories: however additions (incl. re-additions of an existing name) and looks at
   the order are interleaved, every look sees an order / error accepted for the declarations
   in force at that moment (in particular nothing is remembered from an earlier look) *)
Theorem C18_tweens_history_judged : forall ex evs,
  Forall (fun td => judge cfg_tweens (snd td) (implicit (fst td)) = true)
         (hist_looks (tweens_init ex) tweens_init_decls evs).
Proof. exact tweens_history_judged. Qed.
Print Assumptions C18_tweens_history_judged.

(* =====================================================================
   The program regenerated from the source on this run (Gen/Facts_C18.v, by
   harness/c18/translate.py) equals the reference model, for all inputs *)
Theorem C18_gen_remove_is_model : forall s n, gen_remove s n = remove n s.
Proof. exact gen_remove_is_model. Qed.
Print Assumptions C18_gen_remove_is_model.

Theorem C18_gen_add_is_model : forall s n v a b, gen_add s n v a b = Some (add n v a b s).
Proof. exact gen_add_is_model. Qed.
Print Assumptions C18_gen_add_is_model.

Theorem C18_gen_sorted_is_model : forall s, gen_sorted s = sorted s.
Proof. exact gen_sorted_is_model. Qed.
Print Assumptions C18_gen_sorted_is_model.

Theorem C18_gen_tweens_are_model : forall t n f u o h,
  gen_tw_add_explicit t n f = add_explicit n f t /\
  gen_tw_add_implicit t n f u o = Some (add_implicit n f u o t) /\
  gen_tw_implicit t = implicit t /\
  gen_tw_call t h = tweens_call t h.
Proof. exact gen_tweens_are_model. Qed.
Print Assumptions C18_gen_tweens_are_model.

Theorem C18_gen_apply_view_derivers_is_model : forall s v,
  gen_apply_view_derivers s v = apply_view_derivers s v.
Proof. exact gen_apply_view_derivers_is_model. Qed.
Print Assumptions C18_gen_apply_view_derivers_is_model.

(* the property theorems, restated about the REGENERATED program *)
Theorem C18_gen_model_judged : forall c ops, steps_ok c [] ops (gen_run_ops (new_sorter c) ops).
Proof. exact gen_model_judged. Qed.
Print Assumptions C18_gen_model_judged.

Theorem C18_gen_sorted_total : forall s, gen_sorted s <> Internal.
Proof. exact gen_sorted_total. Qed.
Print Assumptions C18_gen_sorted_total.

Theorem C18_gen_tweens_nesting : forall t h,
  gen_tw_call t Base = inr h ->
  exists use,
    (tw_explicit t <> [] -> use = tw_explicit t) /\
    (tw_explicit t = [] -> gen_tw_implicit t = Sorted use) /\
    h = wrap_right use Base /\
    trace h = map (fun nf => Enter (fst nf)) use ++ [Call] ++ map (fun nf => Exit (fst nf)) (rev use).
Proof. exact gen_tweens_nesting. Qed.
Print Assumptions C18_gen_tweens_nesting.

Theorem C18_gen_derivers_nesting : forall s h,
  gen_apply_view_derivers s Base = inr h ->
  exists ds, gen_sorted s = Sorted ds /\
    let all := map (fun n => (n, 0%N)) dv_outer ++ ds in
    h = wrap_right all Base /\
    trace h = map (fun nf => Enter (fst nf)) all ++ [Call] ++ map (fun nf => Exit (fst nf)) (rev all).
Proof. exact gen_derivers_nesting. Qed.
Print Assumptions C18_gen_derivers_nesting.

(* the user's callable innermost: after ANY add_view_deriver calls on top of the stock
   pipeline (user derivers, replaced stock derivers incl. mapped_view, hints as names,
   sentinels or iterables of alternatives), a successfully sorted pipeline has every other
   deriver outside mapped_view *)
Theorem C18_derivers_mapped_innermost : forall adds l,
  sorted (fst (derivers_scenario adds)) = Sorted l -> mapped_innermost (map fst l) = true.
Proof. exact derivers_mapped_innermost. Qed.
Print Assumptions C18_derivers_mapped_innermost.

(* =====================================================================
   The WIRE-LEVEL judges (what spec_holds of the harness evaluates on the implementation's
   observation, through run_C18 tags 1/3/5/7) accept every answer the model can put on the wire:
   sorter cases step by step, tween histories (refusal codes, implicit() looks, requests with
   their enter/exit log), deriver scenarios (order, mapped_view innermost, log) and predicate
   scenarios (order and evaluation order).  Hence agreement of implementation and model on the
   wire implies that the judge accepts the implementation's observation. *)
Theorem C18_wire_steps_judged : forall c ops,
  judge_steps c [] ops (map put_step (run_ops (new_sorter c) ops)) = map (fun _ => vbool true) ops.
Proof. exact wire_steps_judged. Qed.
Print Assumptions C18_wire_steps_judged.

Theorem C18_wire_history_judged : forall ex evs,
  judge_history ex tweens_init_decls evs (tweens_history (tweens_init ex) evs) = map (fun _ => vbool true) evs.
Proof. exact wire_history_judged. Qed.
Print Assumptions C18_wire_history_judged.

Theorem C18_wire_derivers_judged : forall adds,
  judge_derivers adds (derivers_obs (fst (derivers_scenario adds))) = true.
Proof. exact wire_derivers_judged. Qed.
Print Assumptions C18_wire_derivers_judged.

Theorem C18_wire_preds_judged : forall k adds,
  let '(o, ev) := preds_obs (preds_scenario k adds) in judge_preds k adds o ev = Some true.
Proof. exact wire_preds_judged. Qed.
Print Assumptions C18_wire_preds_judged.

(* =====================================================================
   The ARGUMENT PROCESSING of the directives, regenerated from config/views.py and config/tweens.py on this run
   (harness/c18/translate_args.py): reserved names, default hints, as_sorted_tuple, the forced `over mapped_view`,
   the refusal checks in source order, and the call the register() closure makes (keywords bound by the callee's
   parameter names) *)
Theorem C18_gen_deriver_args_is_model : forall n u o, gen_deriver_args n u o = deriver_args n u o.
Proof. exact gen_deriver_args_is_model. Qed.
Print Assumptions C18_gen_deriver_args_is_model.

(* what add_view_deriver hands to derivers.add IS the property's reading of the hints: after = under, before = over *)
Theorem C18_gen_deriver_args_hints : forall n u o, gen_deriver_args n u o = deriver_hints n u o.
Proof. exact gen_deriver_args_hints. Qed.
Print Assumptions C18_gen_deriver_args_hints.

Theorem C18_gen_add_tween_is_model : forall n f u o e,
  gen_add_tween n f u o e = add_tween_model n f u o e /\
  gen_add_tween_directive n f u o = add_tween_model n f u o false.
Proof. exact gen_add_tween_both. Qed.
Print Assumptions C18_gen_add_tween_is_model.

(* one add_tween event of a history = the regenerated directive followed by the action it registered *)
Theorem C18_gen_tweens_history_add : forall n f u o t r,
  tweens_history t (TAdd (n, f, u, o) :: r) =
  match gen_add_tween_directive n f u o with
  | inl c => vN c :: tweens_history t r
  | inr reg => vN 0 :: tweens_history (apply_reg reg t) r
  end.
Proof. exact gen_tweens_history_add. Qed.
Print Assumptions C18_gen_tweens_history_add.

(* the explicit list of the settings = _add_tween(name, explicit=True) for each (non-reserved) name, in order *)
Theorem C18_gen_tweens_init_by_directive : forall ex,
  forallb (fun nf => negb (text_eqb (fst nf) tw_main || text_eqb (fst nf) tw_ingress)) ex = true ->
  forall t0,
  fold_left (fun t nf => add_explicit (fst nf) (snd nf) t) ex t0 =
  fold_left (fun t nf => match gen_add_tween (fst nf) (snd nf) HNone HNone true with
                         | inr reg => apply_reg reg t | inl _ => t end) ex t0.
Proof. exact tweens_init_by_directive. Qed.
Print Assumptions C18_gen_tweens_init_by_directive.

(* end to end for derivers: any add_view_deriver calls processed by the REGENERATED argument code on top of the stock
   pipeline give an order / error the judge accepts for the declarations (under = after, over = before), and a
   sorted pipeline keeps mapped_view innermost *)
Theorem C18_gen_derivers_scenario_judged : forall adds,
  let s := fst (fold_left gen_deriver_step adds (default_derivers, [])) in
  judge cfg_derivers (decls_of cfg_derivers (deriver_ops adds)) (sorted s) = true /\
  forall l, sorted s = Sorted l -> mapped_innermost (map fst l) = true.
Proof. exact gen_derivers_scenario_judged. Qed.
Print Assumptions C18_gen_derivers_scenario_judged.

(* the predicate directives, every hop regenerated from the source (add_*_predicate -> _add_predicate -> register ->
   get_predlist(type).add -> sorter.add): the directive's arguments reach the sorter of the list of its own kind with
   after = weighs_more_than and before = weighs_less_than *)
Theorem C18_gen_pred_chain_is_spec : forall k n v more less,
  gen_pred_chain k n v more less = (pkind_text k, (n, v, more, less)).
Proof. exact gen_pred_chain_is_spec. Qed.
Print Assumptions C18_gen_pred_chain_is_spec.

Theorem C18_gen_preds_scenario_judged : forall k adds,
  let s0 := fold_left (fun s n => gen_pred_step k s (n, 0%N, HNone, HNone)) (pd_defaults k) (new_sorter cfg_plain) in
  judge cfg_plain (decls_of cfg_plain (pred_ops k adds)) (sorted (fold_left (gen_pred_step k) adds s0)) = true.
Proof. exact gen_preds_scenario_judged. Qed.
Print Assumptions C18_gen_preds_scenario_judged.

(* =====================================================================
   PredicateList.make, regenerated from config/predicates.py on this run (harness/c18/translate_make.py): how the
   ordered predicate list, the order number and the phash are computed from the sorter's output *)
Theorem C18_gen_pl_make_is_model : forall mo o kw, gen_pl_make mo o kw = pl_make mo o kw.
Proof. exact gen_pl_make_is_model. Qed.
Print Assumptions C18_gen_pl_make_is_model.

(* the predicates of one view / route / subscriber are created -- and therefore evaluated -- in an order that honours
   every weighs_more_than / weighs_less_than constraint: for every sequence of add/remove calls on the predicate
   sorter and every keyword dictionary, make() creates for each sorted name, in sorted order, one predicate per given
   value (not_ values wrapped), feeds exactly these to the phash, and no predicate of an item is created before a
   predicate of an item it weighs more than, nor after one of an item it weighs less than *)
Theorem C18_gen_make_order_respects : forall c ops ordered kw mo order ps ph,
  gen_sorted (final_state (new_sorter c) ops) = Sorted ordered ->
  gen_pl_make mo (Sorted ordered) kw = MkOk order ps ph ->
  (ps = flat_map (made kw) ordered /\ ph = ps) /\
  forall d, In d (decls_of c ops) ->
    (forall u, In u (opt_list (dafter d)) -> In u (dnames (decls_of c ops)) -> never_after ps u (dname d)) /\
    (forall o, In o (opt_list (dbefore d)) -> In o (dnames (decls_of c ops)) -> never_after ps (dname d) o).
Proof. exact gen_make_order_respects. Qed.
Print Assumptions C18_gen_make_order_respects.

(* =====================================================================
   Through the outermost dispatch of the extracted runner: for every case as the harness encodes it, the model's answer
   (run_C18 tags 0/2/4/6) fed back to the judge entry (tags 1/3/5/7) is accepted at every step *)
Theorem C18_run_steps_judged : forall z c ops,
  get_cfg (VI z) = Some c ->
  run_C18 (VL [VI 1; VI z; VL (map enc_op ops); run_C18 (VL [VI 0; VI z; VL (map enc_op ops)])])
  = VL (map (fun _ => vbool true) ops).
Proof. exact run_C18_steps_judged. Qed.
Print Assumptions C18_run_steps_judged.
Example C18_run_steps_cfgs : get_cfg (VI 0) = Some cfg_plain /\ get_cfg (VI 1) = Some cfg_tweens /\ get_cfg (VI 2) = Some cfg_derivers.
Proof. repeat split; reflexivity. Qed.

Theorem C18_run_history_judged : forall ex evs,
  run_C18 (VL [VI 3; VL (map enc_pair ex); VL (map enc_tevent evs);
               run_C18 (VL [VI 2; VL (map enc_pair ex); VL (map enc_tevent evs)])])
  = VL (map (fun _ => vbool true) evs).
Proof. exact run_C18_history_judged. Qed.
Print Assumptions C18_run_history_judged.

Theorem C18_run_derivers_judged : forall adds,
  match run_C18 (VL [VI 4; VL (map enc_tadd adds)]) with
  | VL [_; obs] => run_C18 (VL [VI 5; VL (map enc_tadd adds); obs]) = vbool true
  | _ => False
  end.
Proof. exact run_C18_derivers_judged. Qed.
Print Assumptions C18_run_derivers_judged.

Theorem C18_run_preds_judged : forall k adds,
  match run_C18 (VL [VI 6; enc_pkind k; VL (map enc_tadd adds)]) with
  | VL [o; ev] => run_C18 (VL [VI 7; enc_pkind k; VL (map enc_tadd adds); VL [o; ev]]) = vbool true
  | _ => False
  end.
Proof. exact run_C18_preds_judged. Qed.
Print Assumptions C18_run_preds_judged.

(* tag 8 (PredicateList.make called directly): the runner's answer -- the sorter's outcome and the first-occurrence order
   of the instrumented predicates created by the REGENERATED make -- is accepted by the evaluation-order judge (tag 7),
   whenever make() succeeds and every instrumented predicate got at least one value; a sorter error is always accepted *)
Theorem C18_wire_make_judged : forall k adds kw,
  let s := preds_scenario k adds in
  (forall ordered, sorted s = Sorted ordered ->
     (exists order ps ph, gen_pl_make pl_max_order (Sorted ordered) kw = MkOk order ps ph) /\
     (forall n f, In (n, f) ordered -> f <> 0%N -> vals_of kw n <> [])) ->
  let '(o, ev, mk) := make_obs s kw in judge_preds k adds o ev = Some true.
Proof. exact wire_make_judged. Qed.
Print Assumptions C18_wire_make_judged.

(* =====================================================================
   End-to-end compositions *)
(* view derivers: add_view_deriver argument processing (regenerated) -> derivers.add -> sorted() (regenerated) ->
   _apply_view_derivers (regenerated): whenever a view is derived, the sorted pipeline is accepted by the judge for the
   declarations (under = after, over = before), mapped_view is innermost of it, and the view is wrapped by the two
   fixed outer wrappers and then the sorted derivers, outermost first, the user's callable innermost *)
Theorem C18_derivers_end_to_end : forall adds h,
  gen_apply_view_derivers (fst (fold_left gen_deriver_step adds (default_derivers, []))) Base = inr h ->
  exists ds,
    gen_sorted (fst (fold_left gen_deriver_step adds (default_derivers, []))) = Sorted ds /\
    judge cfg_derivers (decls_of cfg_derivers (deriver_ops adds)) (Sorted ds) = true /\
    mapped_innermost (map fst ds) = true /\
    let all := map (fun n => (n, 0%N)) dv_outer ++ ds in
    h = wrap_right all Base /\
    trace h = map (fun nf => Enter (fst nf)) all ++ [Call] ++ map (fun nf => Exit (fst nf)) (rev all).
Proof. exact derivers_end_to_end. Qed.
Print Assumptions C18_derivers_end_to_end.

(* batches (one commit per look, statements inside config.include): the rule which add_tween statements take effect ... *)
Theorem C18_batch_flush_spec : forall b x,
  In (TAdd x) (flush b) <->
  exists i, In (BAdd x i) b /\ (i = false \/ ~ exists y, In (BAdd y false) b /\ bname y = bname x).
Proof. exact flush_spec. Qed.
Print Assumptions C18_batch_flush_spec.

(* ... and whatever takes effect, every look of the effective history is accepted by the history judge *)
Theorem C18_batch_history_judged : forall ex l,
  judge_history ex tweens_init_decls (effective [] l) (tweens_history (tweens_init ex) (effective [] l))
  = map (fun _ => vbool true) (effective [] l).
Proof. exact batch_history_judged. Qed.
Print Assumptions C18_batch_history_judged.

Theorem C18_selected_history_judged : forall ex (takes_effect : tevent -> bool) evs,
  judge_history ex tweens_init_decls (filter takes_effect evs) (tweens_history (tweens_init ex) (filter takes_effect evs))
  = map (fun _ => vbool true) (filter takes_effect evs).
Proof. exact selected_history_judged. Qed.
Print Assumptions C18_selected_history_judged.

(* predicates end to end: add_{view,route,subscriber}_predicate (regenerated chain) on top of the stock predicates ->
   regenerated sorted() -> regenerated PredicateList.make: whenever make() succeeds, the sorted list is accepted by the
   judge for the hints given to the DIRECTIVES (weighs_more_than = after, weighs_less_than = before), make creates one
   predicate per given value in that order, and no predicate of an item is created (= evaluated) before a predicate of
   an item it weighs more than, nor after one of an item it weighs less than *)
Theorem C18_preds_end_to_end : forall k adds kw mo ordered order ps ph,
  gen_sorted (gen_pred_sorter k adds) = Sorted ordered ->
  gen_pl_make mo (Sorted ordered) kw = MkOk order ps ph ->
  judge cfg_plain (decls_of cfg_plain (pred_ops k adds)) (Sorted ordered) = true /\
  (ps = flat_map (made kw) ordered /\ ph = ps) /\
  forall d, In d (decls_of cfg_plain (pred_ops k adds)) ->
    (forall u, In u (opt_list (dafter d)) -> In u (dnames (decls_of cfg_plain (pred_ops k adds))) -> never_after ps u (dname d)) /\
    (forall o, In o (opt_list (dbefore d)) -> In o (dnames (decls_of cfg_plain (pred_ops k adds))) -> never_after ps (dname d) o).
Proof. exact preds_end_to_end. Qed.
Print Assumptions C18_preds_end_to_end.
