(* C02 -- property theorems only. *)
From Coq Require Import List NArith ZArith Bool.
Import ListNotations.
Require Import Verif.Lib.Wire Verif.Lib.Text Verif.Lib.PathNorm Verif.Lib.C02Expr Verif.Gen.Facts_C02
               Verif.Model.C02 Verif.Proofs.C02.

Theorem C02_facts_ok :
  view_selector = spec_selector /\ selector_len = 2%Z /\
  ret_selector = mkRet ROb (SSegFrom 2) slice_from_next slice_traversed RVroot TVrootTuple RRoot /\
  ret_noitem = mkRet ROb SSegment slice_from_next slice_traversed RVroot TVrootTuple RRoot /\
  ret_keyerror = mkRet ROb SSegment slice_from_next slice_traversed RVroot TVrootTuple RRoot /\
  ret_final = mkRet ROb (SConst []) TSubpath TVpath RVroot TVrootTuple RRoot /\
  vpath_tuple_mode = VSeparate /\ vroot_idx_off = (-1)%Z /\ vroot_idx_absent = (-1)%Z.
Proof. exact facts_ok. Qed.
Print Assumptions C02_facts_ok.
