(* C02 -- property theorems only.  Each is closed by [exact] of a lemma proved in
   Proofs/C02.v (or Lib/C02PathNorm.v); Print Assumptions beneath each.

   Reading guide.  [traverser_call root q] is the model of
   ResourceTreeTraverser(root)(request) (Model/C02.v, data-like parts regenerated
   from the source).  [walk_outcome root segs ctx consumed rest] is the property's
   wording: segs = consumed ++ rest, item lookup along [consumed] from the root
   reaches [ctx], no consumed segment starts with '@@', and [rest] is empty or
   its head starts with '@@' or cannot be looked up in [ctx]. *)
From Coq Require Import List NArith ZArith Bool.
Import ListNotations.
Require Import Verif.Lib.Wire Verif.Lib.Text Verif.Lib.PathNorm Verif.Lib.C02PathNorm Verif.Lib.C02Expr
               Verif.Gen.Facts_C02 Verif.Model.C02 Verif.Proofs.C02 Verif.Proofs.C02_memo Verif.Proofs.C02_gen.
Close Scope N_scope.

(* the regenerated source facts are the ones the proofs were written against
   (in particular: vpath_tuple = vroot_tuple + split_path_info(path)) *)
Theorem C02_facts_ok :
  view_selector = spec_selector /\ selector_len = 2%Z /\
  ret_selector = mkRet ROb (SSegFrom 2) slice_from_next slice_traversed RVroot TVrootTuple RRoot /\
  ret_noitem = mkRet ROb SSegment slice_from_next slice_traversed RVroot TVrootTuple RRoot /\
  ret_keyerror = mkRet ROb SSegment slice_from_next slice_traversed RVroot TVrootTuple RRoot /\
  ret_final = mkRet ROb (SConst []) TSubpath TVpath RVroot TVrootTuple RRoot /\
  vpath_tuple_mode = VSeparate /\ vroot_idx_off = (-1)%Z /\ vroot_idx_absent = (-1)%Z.
Proof. exact facts_ok. Qed.
Print Assumptions C02_facts_ok.

(* trav_context / trav_view_name / trav_subpath / trav_vroot, for every tree,
   request and virtual root: context = resource reached by the consumed
   segments, view name and subpath from the rest, virtual root = resource at the
   virtual-root segments when the walk gets that far (then the context lies in
   its subtree and the consumed path starts with those segments), else the root.
   [traversed] is stated as the code computes it (see the C02_traversed theorems). *)
Theorem C02_traverser_resolves : forall root q d,
  traverser_call root q = Ok d ->
  exists path sub vt ctx consumed rest,
    path_and_subpath q = Ok (path, sub) /\ vroot_tuple_of q = Ok vt /\
    walk_outcome root (vt ++ split_path_info path) ctx consumed rest /\
    t_context d = fst ctx /\
    t_view_name d = view_name_of rest /\
    t_subpath d = subpath_of sub rest /\
    t_traversed d = consumed ++ firstn (length vt) rest /\
    t_virtual_root_path d = vt /\ t_root d = fst root /\
    ((length vt <= length consumed /\
        exists v c', descend root vt = Some v /\ t_virtual_root d = fst v /\ consumed = vt ++ c' /\
                     descend v c' = Some ctx /\ exists suffix, t_context d = fst v ++ suffix)
     \/ (length consumed < length vt /\ t_virtual_root d = fst root /\
         exists more, more <> [] /\ vt = consumed ++ more)).
Proof. exact traverser_resolves. Qed.
Print Assumptions C02_traverser_resolves.

(* the wording determines the outcome: there is exactly one (context, consumed, rest) *)
Theorem C02_walk_outcome_unique : forall ob segs c1 p1 r1 c2 p2 r2,
  walk_outcome ob segs c1 p1 r1 -> walk_outcome ob segs c2 p2 r2 -> (c1, p1, r1) = (c2, p2, r2).
Proof. exact walk_outcome_unique. Qed.
Print Assumptions C02_walk_outcome_unique.

(* "deepest resource reached": consumed = the longest walkable prefix *)
Theorem C02_consumed_is_longest : forall ob segs ctx c r,
  walk_outcome ob segs ctx c r ->
  spec_consumed ob segs = c /\
  forall k, k <= length segs -> (walkable ob (firstn k segs) = true <-> k <= length c).
Proof. exact consumed_is_longest. Qed.
Print Assumptions C02_consumed_is_longest.

(* the code equals the executable specification (the one the harness judges the
   implementation with) up to the [traversed] slice *)
Theorem C02_traverser_call_outcome : forall root q,
  traverser_call root q = traverser_gen model_outcome root q /\
  spec_traverser root q = traverser_gen spec_outcome root q.
Proof. intros root q. split; [exact (traverser_call_outcome root q)|exact (spec_traverser_gen root q)]. Qed.
Print Assumptions C02_traverser_call_outcome.

(* trav_traversed.  Full-strength statement (FALSE of the code, kept here):
     forall root q, traverser_call root q = spec_traverser root q
   i.e. traversed = consumed for every request. *)
Theorem C02_traversed_partial : forall root q,
  q_vroot q = None -> traverser_call root q = spec_traverser root q.
Proof. exact traverser_no_vroot_meets_spec. Qed.
Print Assumptions C02_traversed_partial.

Theorem C02_traversed_partial_exhausted : forall root vt ps sub,
  vt = [] \/ spec_consumed root (vt ++ ps) = vt ++ ps ->
  model_outcome root vt ps sub = spec_outcome root vt ps sub.
Proof. exact model_outcome_partial. Qed.
Print Assumptions C02_traversed_partial_exhausted.

(* witness: HTTP_X_VHM_ROOT=/a, PATH_INFO=/x/y, x missing under /a *)
Theorem C02_traversed_refuted :
  exists d s, traverser_call ([], wit_tree) wit_traversed = Ok d /\
              spec_traverser ([], wit_tree) wit_traversed = Ok s /\
              t_traversed s = [ta] /\ t_traversed d = [ta; tx] /\ d <> s.
Proof. exact traversed_refuted. Qed.
Print Assumptions C02_traversed_refuted.

(* trav_vroot for the source form that joins vroot text and path text before
   normalising (the unrepaired tree): refuted, '..' escapes the virtual root.
   Witness HTTP_X_VHM_ROOT=/a, PATH_INFO=/../b/x.  For the repaired form the
   positive statement is part of C02_traverser_resolves. *)
Theorem C02_vroot_refuted_joined :
  exists d s v, traverser_call_mode VJoined ([], wit_tree) wit_escape = Ok d /\
                spec_traverser ([], wit_tree) wit_escape = Ok s /\
                descend ([], wit_tree) [ta] = Some v /\
                t_virtual_root_path d = [ta] /\ t_virtual_root s = fst v /\
                t_virtual_root d <> fst v /\ t_context d = [1; 0] /\ t_context s = [0; 0] /\ d <> s.
Proof. exact vroot_refuted_joined. Qed.
Print Assumptions C02_vroot_refuted_joined.

(* trav_normalises *)
Theorem C02_segments_normal : forall vp p,
  Forall normal_seg (split_path_info vp ++ split_path_info p).
Proof. exact traverser_segments_normal. Qed.
Print Assumptions C02_segments_normal.

Theorem C02_traversal_path_normal : forall p l,
  (traversal_path_info p = Ok l -> Forall normal_seg l) /\ (traversal_path p = Ok l -> Forall normal_seg l).
Proof. intros p l. split; [exact (tpi_normal p l)|exact (tp_normal p l)]. Qed.
Print Assumptions C02_traversal_path_normal.

Theorem C02_path_normal_form : forall root q1 q2 p1 p2 sub,
  path_and_subpath q1 = Ok (p1, sub) -> path_and_subpath q2 = Ok (p2, sub) ->
  q_vroot q1 = q_vroot q2 -> split_path_info p1 = split_path_info p2 ->
  traverser_call root q1 = traverser_call root q2.
Proof. exact traverser_path_normal_form. Qed.
Print Assumptions C02_path_normal_form.

(* '..' at the top of the request path is absorbed: never above the root, and
   (repaired code) never above the virtual root *)
Theorem C02_dotdot_at_root : forall root p md vr,
  traverser_call root (mkReq (Some (slash :: dot :: dot :: slash :: p)) md vr)
  = traverser_call root (mkReq (Some (slash :: p)) md vr).
Proof. exact traverser_dotdot_at_root. Qed.
Print Assumptions C02_dotdot_at_root.

Theorem C02_spi_never_above_root : forall k p,
  split_path_info (updirs k (slash :: p)) = split_path_info (slash :: p).
Proof. exact spi_updirs. Qed.
Print Assumptions C02_spi_never_above_root.

Theorem C02_spi_stack_law : forall a b,
  split_path_info (a ++ slash :: b) = rev (resolve (rev (split_path_info a)) (split_on slash b)).
Proof. exact spi_app. Qed.
Print Assumptions C02_spi_stack_law.

(* trav_history_free: with the LRU cache of split_path_info in ANY state that
   earlier calls can have produced, every answer of every later history equals
   the cache-free answer *)
Theorem C02_history_free : forall maxsize c0 (qs : list (rnode * request)),
  cache_ok split_path_info c0 ->
  map fst (run_history maxsize c0 qs) = map (fun rq => traverser_call (fst rq) (snd rq)) qs.
Proof. exact history_free. Qed.
Print Assumptions C02_history_free.

(* functools.lru_cache / dictionary memo tables in general (any key type whose
   equality test implies equality, any function, any bound) *)
Theorem C02_memo_transparent : forall (K V : Type) (eqb : K -> K -> bool) (f : K -> V) (maxsize : nat),
  (forall a b, eqb a b = true -> a = b) ->
  forall c k, cache_ok f c ->
  fst (memo_call eqb f maxsize c k) = f k /\ cache_ok f (snd (memo_call eqb f maxsize c k)).
Proof. exact (@memo_call_correct). Qed.
Print Assumptions C02_memo_transparent.

(* Router.handle_request, traversal part (attrs['root'] = root; attrs.update(tdict)):
   what a ContextFound subscriber or a view reads off the request is exactly the
   traverser's dictionary; a failing traversal fails the request the same way *)
Theorem C02_router_copies_dict : forall root q,
  router_traversal root q = rbind (traverser_call root q) (fun d => Ok (dict_attrs d)) /\
  forall d, traverser_call root q = Ok d ->
    exists a, router_traversal root q = Ok a /\
      attrs_get k_context a = Some (ARes (t_context d)) /\
      attrs_get k_view_name a = Some (AStr (t_view_name d)) /\
      attrs_get k_subpath a = Some (ASeq (t_subpath d)) /\
      attrs_get k_traversed a = Some (ASeq (t_traversed d)) /\
      attrs_get k_virtual_root a = Some (ARes (t_virtual_root d)) /\
      attrs_get k_virtual_root_path a = Some (ASeq (t_virtual_root_path d)) /\
      attrs_get k_root a = Some (ARes (fst root)).
Proof. exact router_copies_dict. Qed.
Print Assumptions C02_router_copies_dict.

Theorem C02_facts_router_ok :
  ret_keys = [k_context; k_view_name; k_subpath; k_traversed; k_virtual_root; k_virtual_root_path; k_root] /\
  router_root_key = k_root /\ router_updates_attrs = true.
Proof. exact facts_router_ok. Qed.
Print Assumptions C02_facts_router_ok.

(* a memo table whose miss runs a computation that itself uses other caches
   (state-passing), with an optional bound and uncached exceptions *)
Theorem C02_memo_st_transparent :
  forall (K V S : Type) (eqb : K -> K -> bool) (f : K -> V) (bound : option nat) (cacheable : V -> bool)
         (g : S -> K -> V * S) (InvS : S -> Prop),
  (forall a b, eqb a b = true -> a = b) ->
  (forall s k, InvS s -> fst (g s k) = f k /\ InvS (snd (g s k))) ->
  forall c s k, cache_ok f c -> InvS s ->
  fst (memo_call_st eqb bound cacheable g c s k) = f k /\
  cache_ok f (fst (snd (memo_call_st eqb bound cacheable g c s k))) /\
  InvS (snd (snd (memo_call_st eqb bound cacheable g c s k))).
Proof. exact (@memo_call_st_correct). Qed.
Print Assumptions C02_memo_st_transparent.

(* trav_history_free for every memoised entry point: split_path_info (lru),
   traversal_path_info (lru over the former), _join_path_tuple (lru over the
   segment dictionary), _segment_cache keyed by (segment, safe) -- composed through
   the traverser, the Router, traverse(), find_resource(), traversal_path(_info)
   and quote_path_segment, for any history and any valid initial cache state *)
Theorem C02_ops_history_free : forall os C,
  caches_ok C -> run_ops_st C os = map pure_op os.
Proof. exact ops_history_free. Qed.
Print Assumptions C02_ops_history_free.

(* ====================================================================== *)
(* The program regenerated from src/pyramid/traversal.py on this run (Gen/Facts_C02.v, translated by
   harness/c02/translate.py) equals the reference model, for all inputs -- this replaces the shape pins of
   split_path_info, decode_path_info, traversal_path_info and of the walk part of __call__ *)
Theorem C02_gen_split_path_info_is_model : forall p, gen_split_path_info p = split_path_info p.
Proof. exact gen_split_path_info_is_model. Qed.
Print Assumptions C02_gen_split_path_info_is_model.

Theorem C02_gen_decode_path_info_is_model : forall p, gen_decode_path_info p = decode_path_info p.
Proof. exact gen_decode_path_info_is_model. Qed.
Print Assumptions C02_gen_decode_path_info_is_model.

Theorem C02_gen_traversal_path_info_is_model : forall p, gen_traversal_path_info p = traversal_path_info p.
Proof. exact gen_traversal_path_info_is_model. Qed.
Print Assumptions C02_gen_traversal_path_info_is_model.

Theorem C02_gen_call_tail_is_model : forall vpath path sub vt vidx root,
  gen_call_tail vpath path sub vt vidx root = call_tail vpath_tuple_mode vpath path sub vt vidx root.
Proof. exact gen_call_tail_is_model. Qed.
Print Assumptions C02_gen_call_tail_is_model.

(* hand-modelled (pinned) preamble + regenerated tail = the model of __call__ *)
Theorem C02_gen_traverser_call_is_model : forall root q, gen_traverser_call root q = traverser_call root q.
Proof. exact gen_traverser_call_is_model. Qed.
Print Assumptions C02_gen_traverser_call_is_model.

(* the property theorems restated about the regenerated program *)
Theorem C02_gen_traverser_resolves : forall root q d,
  gen_traverser_call root q = Ok d ->
  exists path sub vt ctx consumed rest,
    path_and_subpath q = Ok (path, sub) /\ vroot_tuple_of q = Ok vt /\
    walk_outcome root (vt ++ gen_split_path_info path) ctx consumed rest /\
    t_context d = fst ctx /\
    t_view_name d = view_name_of rest /\
    t_subpath d = subpath_of sub rest /\
    t_traversed d = consumed ++ firstn (length vt) rest /\
    t_virtual_root_path d = vt /\ t_root d = fst root /\
    ((length vt <= length consumed /\
        exists v c', descend root vt = Some v /\ t_virtual_root d = fst v /\ consumed = vt ++ c' /\
                     descend v c' = Some ctx /\ exists suffix, t_context d = fst v ++ suffix)
     \/ (length consumed < length vt /\ t_virtual_root d = fst root /\
         exists more, more <> [] /\ vt = consumed ++ more)).
Proof. exact gen_traverser_resolves. Qed.
Print Assumptions C02_gen_traverser_resolves.

Theorem C02_gen_traversed_partial : forall root q,
  q_vroot q = None -> gen_traverser_call root q = spec_traverser root q.
Proof. exact gen_traversed_partial. Qed.
Print Assumptions C02_gen_traversed_partial.

Theorem C02_gen_traversed_refuted :
  exists d s, gen_traverser_call ([], wit_tree) wit_traversed = Ok d /\
              spec_traverser ([], wit_tree) wit_traversed = Ok s /\
              t_traversed s = [ta] /\ t_traversed d = [ta; tx] /\ d <> s.
Proof. exact gen_traversed_refuted. Qed.
Print Assumptions C02_gen_traversed_refuted.

Theorem C02_gen_split_normal : forall p, Forall normal_seg (gen_split_path_info p).
Proof. exact gen_split_normal. Qed.
Print Assumptions C02_gen_split_normal.

Theorem C02_gen_split_never_above_root : forall k p,
  gen_split_path_info (updirs k (slash :: p)) = gen_split_path_info (slash :: p).
Proof. exact gen_split_never_above_root. Qed.
Print Assumptions C02_gen_split_never_above_root.

Theorem C02_gen_split_idempotent : forall p,
  gen_split_path_info (join [slash] (gen_split_path_info p)) = gen_split_path_info p.
Proof. exact gen_split_idempotent. Qed.
Print Assumptions C02_gen_split_idempotent.

Theorem C02_gen_traversal_path_info_normal : forall p l,
  gen_traversal_path_info p = Ok l -> Forall normal_seg l.
Proof. exact gen_traversal_path_info_normal. Qed.
Print Assumptions C02_gen_traversal_path_info_normal.

Theorem C02_gen_dotdot_at_root : forall root p md vr,
  gen_traverser_call root (mkReq (Some (slash :: dot :: dot :: slash :: p)) md vr)
  = gen_traverser_call root (mkReq (Some (slash :: p)) md vr).
Proof. exact gen_dotdot_at_root. Qed.
Print Assumptions C02_gen_dotdot_at_root.

(* one long-lived traverser object: any history of requests on it answers like a fresh
   traverser per request (tied to the source by the facts "__call__ never writes to self",
   "__init__ is self.root = root", "the class has no further attributes") *)
Theorem C02_obj_history_free : forall o qs,
  obj_history o qs = (map (fun q => fst (obj_call (mkObj (o_root o)) q)) qs, o).
Proof. exact obj_history_free. Qed.
Print Assumptions C02_obj_history_free.

(* ---- round 5: the WHOLE of ResourceTreeTraverser.__call__ and find_root are regenerated from the source.
   [gen_call_preamble] = the statements before `root = self.root` (match dictionary / PATH_INFO / virtual-root
   header), [gen_call] = preamble ; tail, [gen_find_root_c02] = traversal.find_root over location.lineage. *)
Theorem C02_gen_call_preamble_is_model : forall q, gen_call_preamble q = call_preamble q.
Proof. exact gen_call_preamble_is_model. Qed.
Print Assumptions C02_gen_call_preamble_is_model.

Theorem C02_gen_call_is_model : forall root q, gen_call root q = traverser_call root q.
Proof. exact gen_call_is_model. Qed.
Print Assumptions C02_gen_call_is_model.

Theorem C02_gen_call_resolves : forall root q d,
  gen_call root q = Ok d ->
  exists path sub vt ctx consumed rest,
    path_and_subpath q = Ok (path, sub) /\ vroot_tuple_of q = Ok vt /\
    walk_outcome root (vt ++ gen_split_path_info path) ctx consumed rest /\
    t_context d = fst ctx /\
    t_view_name d = view_name_of rest /\
    t_subpath d = subpath_of sub rest /\
    t_traversed d = consumed ++ firstn (length vt) rest /\
    t_virtual_root_path d = vt /\ t_root d = fst root /\
    ((length vt <= length consumed /\
        exists v c', descend root vt = Some v /\ t_virtual_root d = fst v /\ consumed = vt ++ c' /\
                     descend v c' = Some ctx /\ exists suffix, t_context d = fst v ++ suffix)
     \/ (length consumed < length vt /\ t_virtual_root d = fst root /\
         exists more, more <> [] /\ vt = consumed ++ more)).
Proof. exact gen_call_resolves. Qed.
Print Assumptions C02_gen_call_resolves.

Theorem C02_gen_call_traversed_partial : forall root q,
  q_vroot q = None -> gen_call root q = spec_traverser root q.
Proof. exact gen_call_traversed_partial. Qed.
Print Assumptions C02_gen_call_traversed_partial.

(* when a route matched, PATH_INFO plays no part *)
Theorem C02_gen_call_preamble_matchdict_wins : forall pi pi' md vr,
  gen_call_preamble (mkReq pi (Some md) vr) = gen_call_preamble (mkReq pi' (Some md) vr).
Proof. exact gen_call_preamble_matchdict_wins. Qed.
Print Assumptions C02_gen_call_preamble_matchdict_wins.

(* the error paths: URLDecodeError exactly for a PATH_INFO (no route matched) whose bytes are not UTF-8; every other
   exception is the decoder's own (UnicodeEncodeError for non-WSGI text, UnicodeDecodeError / UnicodeEncodeError for
   the virtual-root header) *)
Theorem C02_gen_call_errors : forall root q e,
  gen_call root q = Exc e ->
  (e = URLDecodeError /\ q_matchdict q = None /\
     exists raw, q_path_info q = Some raw /\ decode_path_info raw = Exc UnicodeDecodeError)
  \/ (exists raw, (q_path_info q = Some raw /\ q_matchdict q = None \/ q_vroot q = Some raw)
                  /\ decode_path_info raw = Exc e /\ e <> URLDecodeError).
Proof. exact gen_call_errors. Qed.
Print Assumptions C02_gen_call_errors.

Theorem C02_gen_find_root_is_model : forall tree x, gen_find_root_c02 tree x = find_root_walk tree x.
Proof. exact gen_find_root_c02_is_model. Qed.
Print Assumptions C02_gen_find_root_is_model.

(* find_root(resource) is the root of the tree the resource lives in -- for every resource of every tree
   (nothing about the resource itself is consulted but its __parent__ chain) *)
Theorem C02_gen_find_root_is_root : forall tree p n,
  node_at tree p = Some n -> gen_find_root_c02 tree (p, n) = ([], tree).
Proof. exact gen_find_root_c02_is_root. Qed.
Print Assumptions C02_gen_find_root_is_root.

(* traverse(resource, '/...') hands the traverser of the resource that the regenerated find_root computes *)
Theorem C02_traverse_absolute_uses_find_root : forall T root start n path,
  node_at root start = Some n -> is_ascii (slash :: path) = true ->
  traverse_with T root start (PStr (slash :: path)) =
  if has_scheme (slash :: path) then Unsupported
  else T (gen_find_root_c02 root (start, n))
         (mkReq (Some (webob_unquote (hd [] (split_on question (slash :: path))))) None None).
Proof. exact traverse_absolute_uses_find_root. Qed.
Print Assumptions C02_traverse_absolute_uses_find_root.

Theorem C02_gen_traversal_path_is_model : forall p, gen_traversal_path p = traversal_path p.
Proof. exact gen_traversal_path_is_model. Qed.
Print Assumptions C02_gen_traversal_path_is_model.

Theorem C02_gen_traversal_path_normal : forall p l,
  gen_traversal_path p = Ok l -> Forall normal_seg l.
Proof. exact gen_traversal_path_normal. Qed.
Print Assumptions C02_gen_traversal_path_normal.

(* traverse(resource, path) / find_resource: an ABSOLUTE path (text after _join_path_tuple starts with '/') is
   resolved from the root of the tree whichever resource of the tree is passed; a RELATIVE path is resolved from
   the resource passed (it is the `root` of the result and the context lies below it) *)
Theorem C02_traverse_absolute_start_irrelevant : forall T root s1 s2 n1 n2 p r,
  node_at root s1 = Some n1 -> node_at root s2 = Some n2 ->
  api_path_text p = Ok (slash :: r) ->
  traverse_with T root s1 p = traverse_with T root s2 p.
Proof. exact traverse_absolute_start_irrelevant. Qed.
Print Assumptions C02_traverse_absolute_start_irrelevant.

Theorem C02_traverse_relative_starts_at_resource : forall root start n p path d,
  node_at root start = Some n -> api_path_text p = Ok path ->
  hd_error path <> Some slash ->
  traverse_api root start p = Ok d ->
  t_root d = start /\ exists suffix, t_context d = start ++ suffix.
Proof. exact traverse_relative_starts_at_resource. Qed.
Print Assumptions C02_traverse_relative_starts_at_resource.

(* falsy-but-valid inputs: an absent or empty PATH_INFO is '/', an absent / '' / () `traverse` entry is '/', an
   absent `subpath` entry is () -- for every virtual-root header *)
Theorem C02_gen_call_preamble_falsy_inputs : forall vr sp,
  gen_call_preamble (mkReq None None vr) = gen_call_preamble (mkReq (Some [47%N]) None vr) /\
  gen_call_preamble (mkReq (Some []) None vr) = gen_call_preamble (mkReq (Some [47%N]) None vr) /\
  (forall pi, gen_call_preamble (mkReq pi (Some (mkMd None sp)) vr)
              = gen_call_preamble (mkReq pi (Some (mkMd (Some (MStr [47%N])) sp)) vr)) /\
  (forall pi, gen_call_preamble (mkReq pi (Some (mkMd (Some (MStr [])) sp)) vr)
              = gen_call_preamble (mkReq pi (Some (mkMd (Some (MStr [47%N])) sp)) vr)) /\
  (forall pi, gen_call_preamble (mkReq pi (Some (mkMd (Some (MTuple [])) sp)) vr)
              = gen_call_preamble (mkReq pi (Some (mkMd (Some (MStr [47%N])) sp)) vr)) /\
  (forall pi tr, gen_call_preamble (mkReq pi (Some (mkMd tr None)) vr)
                 = gen_call_preamble (mkReq pi (Some (mkMd tr (Some (MTuple [])))) vr)).
Proof. exact gen_call_preamble_falsy_inputs. Qed.
Print Assumptions C02_gen_call_preamble_falsy_inputs.

(* any history of requests on ONE traverser object = the regenerated __call__ applied to each request *)
Theorem C02_gen_call_obj_history : forall o qs,
  obj_history o qs = (map (gen_call (o_root o)) qs, o).
Proof. exact gen_call_obj_history. Qed.
Print Assumptions C02_gen_call_obj_history.

(* completeness of the normalisation: ONLY '', '.' and '..' are special -- any other '/'-free segments (three or more
   dots, '.a', 'a.', '@', ...) come out of split_path_info exactly as they went in *)
Theorem C02_gen_split_keeps_names : forall segs,
  Forall normal_seg segs ->
  gen_split_path_info (join [slash] segs) = segs /\ gen_split_path_info (slash :: join [slash] segs) = segs.
Proof. exact gen_split_keeps_names_both. Qed.
Print Assumptions C02_gen_split_keeps_names.

(* the public normalisers: whenever the text decodes, the regenerated traversal_path_info / traversal_path return the
   normalised segments the property describes (the harness judges the `tpi` / `tp` operations with these specs) *)
Theorem C02_gen_normalisers_meet_spec : forall p l,
  (spec_traversal_path_info p = Some l -> gen_traversal_path_info p = Ok l) /\
  (spec_traversal_path p = Some l -> gen_traversal_path p = Ok l).
Proof. exact gen_normalisers_meet_spec. Qed.
Print Assumptions C02_gen_normalisers_meet_spec.

(* re-entrancy: a request whose item lookups themselves run traversals / path splits / quotings (any operations,
   chosen per resource and key) answers like the cache-free traverser, each nested operation answers like its
   cache-free function, and every later history is unaffected *)
Theorem C02_reentrant_request_history_free : forall inner C root q,
  caches_ok C ->
  let '(v, ans, C2) := reentrant_req_st inner C root q in
  v = traverser_call root q /\
  ans = map pure_op (inner_ops inner root
          (match call_preamble q with Ok (_, path, _, vt, _) => vt ++ split_path_info path | _ => [] end)) /\
  caches_ok C2 /\ forall later, run_ops_st C2 later = map pure_op later.
Proof. exact reentrant_request_history_free. Qed.
Print Assumptions C02_reentrant_request_history_free.

(* the `traverse` entry a route puts into the match dictionary: a value captured by the pattern wins over the traverse=
   option however empty it is; the option fills only an absent entry, with normalised segments (exactly the named
   pieces when those are ordinary names) *)
Theorem C02_traverse_entry_spec : forall captured parts,
  (forall v, captured = Some v -> traverse_entry captured parts = Some v) /\
  (captured = None -> forall ps, parts = Some ps ->
     exists l, traverse_entry captured parts = Some (MTuple l) /\ Forall normal_seg l /\
               (Forall normal_seg ps -> l = ps)) /\
  (captured = None -> parts = None -> traverse_entry captured parts = None).
Proof. exact traverse_entry_spec. Qed.
Print Assumptions C02_traverse_entry_spec.

Theorem C02_gen_join_path_tuple_is_model : forall l, gen_join_path_tuple_c02 l = join_path_tuple l.
Proof. exact gen_join_path_tuple_c02_is_model. Qed.
Print Assumptions C02_gen_join_path_tuple_is_model.

(* a tuple path whose first element is '' is an absolute path text *)
Theorem C02_gen_join_path_tuple_absolute : forall segs p,
  gen_join_path_tuple_c02 ([] :: segs) = Ok p -> hd_error p = Some slash.
Proof. exact gen_join_path_tuple_c02_absolute. Qed.
Print Assumptions C02_gen_join_path_tuple_absolute.

(* re-entrancy about the regenerated __call__, with its order premise regenerated as well: the translator found no
   call of a memoised function at or after the entry of the walk loop (memo_calls_precede_walk), so a request whose
   item lookups run nested operations is: its own cache accesses, then those operations -- and answers like gen_call *)
Theorem C02_reentrant_request_derived :
  memo_calls_precede_walk = true /\
  forall inner C root q, caches_ok C ->
    let '(v, ans, C2) := reentrant_req_st inner C root q in
    v = gen_call root q /\
    ans = map pure_op (inner_ops inner root
            (match gen_call_preamble q with Ok (_, path, _, vt, _) => vt ++ gen_split_path_info path | _ => [] end)) /\
    caches_ok C2 /\ forall later, run_ops_st C2 later = map pure_op later.
Proof. exact reentrant_request_derived. Qed.
Print Assumptions C02_reentrant_request_derived.

(* the remainder a `*stararg` / trailing {name:.*} captures is computed in the model: it is the decoded PATH_INFO
   without the literal pieces and {name} captures in front of it, and nothing else *)
Theorem C02_route_remainder_spec : forall decoded pieces rem,
  route_remainder decoded pieces = Some rem <-> decoded = concat pieces ++ rem.
Proof. exact route_remainder_spec. Qed.
Print Assumptions C02_route_remainder_spec.

(* ---- proof-only round: end-to-end compositions (Proofs/C02_e2e.v) *)
Require Import Verif.Proofs.C02_e2e.

(* the FULL statement for requests without a virtual-root header, about the regenerated __call__: context = the
   resource reached by the consumed segments, view name / subpath from the rest, `traversed` = EXACTLY the consumed
   segments, virtual root = root (cf. C02_traversed_partial, which only says "= spec_traverser") *)
Theorem C02_gen_call_no_vroot_full : forall root q d,
  q_vroot q = None -> gen_call root q = Ok d ->
  exists path sub ctx consumed rest,
    path_and_subpath q = Ok (path, sub) /\
    walk_outcome root (gen_split_path_info path) ctx consumed rest /\
    t_context d = fst ctx /\ t_view_name d = view_name_of rest /\ t_subpath d = subpath_of sub rest /\
    t_traversed d = consumed /\
    t_virtual_root d = fst root /\ t_virtual_root_path d = [] /\ t_root d = fst root.
Proof. exact gen_call_no_vroot_full. Qed.
Print Assumptions C02_gen_call_no_vroot_full.

(* route match -> match dictionary -> traversal, for a `*traverse` remainder: the regenerated traverser walks the
   normalised remainder of the decoded PATH_INFO (whatever the traverse= option says) and returns its outcome *)
Theorem C02_route_star_to_resolution : forall root decoded pieces rem opt pi sp d,
  route_remainder decoded pieces = Some rem ->
  gen_call root (mkReq pi (Some (mkMd (traverse_entry (Some (MTuple (split_path_info (slash :: rem)))) opt) sp)) None)
    = Ok d ->
  decoded = concat pieces ++ rem /\
  exists ctx consumed rest,
    walk_outcome root (split_path_info (slash :: rem)) ctx consumed rest /\
    t_context d = fst ctx /\ t_view_name d = view_name_of rest /\ t_traversed d = consumed /\
    t_virtual_root d = fst root /\ t_virtual_root_path d = [] /\ t_root d = fst root.
Proof. exact route_star_to_resolution. Qed.
Print Assumptions C02_route_star_to_resolution.

(* ... and for a route without capture whose traverse= option names ordinary segments: exactly those are walked *)
Theorem C02_route_option_to_resolution : forall root ps pi sp d,
  Forall normal_seg ps ->
  gen_call root (mkReq pi (Some (mkMd (traverse_entry None (Some ps)) sp)) None) = Ok d ->
  exists ctx consumed rest,
    walk_outcome root ps ctx consumed rest /\
    t_context d = fst ctx /\ t_view_name d = view_name_of rest /\ t_traversed d = consumed /\
    t_virtual_root d = fst root /\ t_virtual_root_path d = [] /\ t_root d = fst root.
Proof. exact route_option_to_resolution. Qed.
Print Assumptions C02_route_option_to_resolution.

(* ---- third proof-only round (Proofs/C02_e2e_str.v): a str-valued `traverse` entry *)
Require Import Verif.Proofs.C02_e2e_str.

(* a match dictionary whose `traverse` entry is a str (no virtual root): the regenerated traverser walks the
   normalised text and every field, `traversed` included, is the outcome of that walk *)
Theorem C02_md_str_resolves : forall root s pi sp d,
  gen_call root (mkReq pi (Some (mkMd (Some (MStr s)) sp)) None) = Ok d ->
  exists ctx consumed rest,
    walk_outcome root (gen_split_path_info s) ctx consumed rest /\
    t_context d = fst ctx /\ t_view_name d = view_name_of rest /\ t_traversed d = consumed /\
    t_virtual_root d = fst root /\ t_virtual_root_path d = [] /\ t_root d = fst root.
Proof. exact md_str_resolves. Qed.
Print Assumptions C02_md_str_resolves.

(* route match -> match dictionary -> traversal for a {traverse} placeholder (the k-th piece of the decoded PATH_INFO):
   the piece contains no '/', wins over any traverse= option, and its normalisation is what is walked *)
Theorem C02_route_str_to_resolution : forall root decoded k opt pi sp d,
  gen_call root (mkReq pi (Some (mkMd (traverse_entry (Some (MStr (route_piece decoded k))) opt) sp)) None) = Ok d ->
  ~ In slash (route_piece decoded k) /\
  exists ctx consumed rest,
    walk_outcome root (gen_split_path_info (route_piece decoded k)) ctx consumed rest /\
    t_context d = fst ctx /\ t_view_name d = view_name_of rest /\ t_traversed d = consumed /\
    t_virtual_root d = fst root /\ t_virtual_root_path d = [] /\ t_root d = fst root.
Proof. exact route_str_to_resolution. Qed.
Print Assumptions C02_route_str_to_resolution.
