(* C12 -- property theorems only. *)
From Coq Require Import List NArith Bool.
Import ListNotations.
Require Import Verif.Lib.Wire Verif.Gen.Facts_C12 Verif.Model.C12 Verif.Proofs.C12.

Theorem C12_strings_differ_spec : forall a b, strings_differ a b = false <-> a = b.
Proof. exact strings_differ_spec. Qed.
Print Assumptions C12_strings_differ_spec.
