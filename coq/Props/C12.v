(* C12 -- property theorems only.  Each is closed by [exact] of a lemma proved in
   Proofs/C12.v or Proofs/C12_ex.v; Print Assumptions beneath each.

   view_outcome c r          what the csrf_view wrapper does for configuration c and request r
                             (Ran | BadOrigin why | BadToken | Raised e), for the repair parameters
                             regenerated from the source ([the_params]);
   view_outcome_p pr c r     the same for arbitrary values of the three repair parameters;
   spec_runs / spec_checked / spec_token_ok / spec_origin_ok   the declarative statement of the property. *)
From Coq Require Import List NArith ZArith Bool.
Import ListNotations.
Require Import Verif.Lib.Wire Verif.Lib.Text Verif.Lib.Utf8 Verif.Gen.Facts_C12 Verif.Model.C12 Verif.Proofs.C12
  Verif.Proofs.C12_url Verif.Proofs.C12_seq Verif.Proofs.C12_ex.
Open Scope N_scope.

(* ---- the gate: the protected body runs iff token and origin conditions hold *)
Theorem C12_csrf_gate : forall c r,
  wf_tokens c r = true -> (view_outcome c r = Ran <-> spec_runs c r = true).
Proof. exact csrf_gate. Qed.
Print Assumptions C12_csrf_gate.

(* for ANY value of the repair parameters: a body that ran had passed both conditions *)
Theorem C12_body_never_runs_on_failure : forall pr c r,
  view_outcome_p pr c r = Ran -> spec_runs c r = true.
Proof. exact body_never_runs_on_failure. Qed.
Print Assumptions C12_body_never_runs_on_failure.

(* every rejection is BadCSRFToken / BadCSRFOrigin (a 400), never another exception *)
Theorem C12_rejection_is_400 : forall c r,
  wf_tokens c r = true -> parse_defined r = true ->
  view_outcome c r = Ran \/ view_outcome c r = BadToken \/ exists w, view_outcome c r = BadOrigin w.
Proof. exact rejection_is_400. Qed.
Print Assumptions C12_rejection_is_400.

(* full statement fails while tokens are compared as latin-1 bytes (witness: body token U+20AC) *)
Theorem C12_rejection_is_400_refuted_when_latin1 :
  exists c r, wf_tokens c r = true /\ parse_defined r = true /\
              view_outcome_p (mkParams true false true) c r = Raised EUnicode.
Proof. exact rejection_is_400_refuted_when_latin1. Qed.
Print Assumptions C12_rejection_is_400_refuted_when_latin1.

(* ... and while urlparse's ValueError is not caught (witness: Origin "https://[") *)
Theorem C12_rejection_is_400_refuted_when_uncaught :
  exists c r, wf_tokens c r = true /\ parse_defined r = true /\
              view_outcome_p (mkParams true true false) c r = Raised EValue.
Proof. exact rejection_is_400_refuted_when_uncaught. Qed.
Print Assumptions C12_rejection_is_400_refuted_when_uncaught.

(* origin is checked first, then the token *)
Theorem C12_rejection_kind : forall c r,
  wf_tokens c r = true -> parse_defined r = true -> spec_checked c r = true ->
  let o := spec_effective c in
  let origin_ok := if o_check_origin o then spec_origin_ok (c_settings c) None (o_allow_no_origin o) r else true in
  (origin_ok = false -> exists w, view_outcome c r = BadOrigin w) /\
  (origin_ok = true -> spec_token_ok (c_storage c) (o_token o) (o_header o) r = false -> view_outcome c r = BadToken).
Proof. exact rejection_kind. Qed.
Print Assumptions C12_rejection_kind.

(* ---- token: byte equality with the stored token; prefix / case-changed / empty tokens fail *)
Theorem C12_token_ok_iff_equal : forall s token header r,
  forallb valid_scalar (expected_token s r) = true ->
  forallb valid_scalar (supplied_token token header r) = true ->
  (check_csrf_token_p (the_params s) s token header r = TPass <-> supplied_token token header r = expected_token s r) /\
  (check_csrf_token_p (the_params s) s token header r = TFail <-> supplied_token token header r <> expected_token s r).
Proof. exact token_pass_iff_equal. Qed.
Print Assumptions C12_token_ok_iff_equal.

Theorem C12_query_token_ignored : forall pr c r q,
  view_outcome_p pr c (with_query r q) = view_outcome_p pr c r.
Proof. exact query_token_ignored. Qed.
Print Assumptions C12_query_token_ignored.

Theorem C12_empty_header_falls_back_to_body : forall t h r,
  header_get h r = Some [] \/ header_get h r = None ->
  supplied_token (Some t) (Some h) r = or_empty (lookup_last t (r_post r)).
Proof. exact empty_header_falls_back. Qed.
Print Assumptions C12_empty_header_falls_back_to_body.

Theorem C12_nonempty_header_wins : forall token h r c v,
  header_get h r = Some (c :: v) -> supplied_token token (Some h) r = c :: v.
Proof. exact nonempty_header_wins. Qed.
Print Assumptions C12_nonempty_header_wins.

Theorem C12_strings_differ_spec : forall a b, strings_differ a b = false <-> a = b.
Proof. exact strings_differ_spec. Qed.
Print Assumptions C12_strings_differ_spec.

(* ---- origin *)
Theorem C12_same_domain_spec : forall h p,
  is_same_domain h p = true <->
  p <> [] /\ (h = lower p \/
              exists rest, lower p = 46 :: rest /\ ((exists pre, h = pre ++ lower p) \/ h = rest)).
Proof. exact same_domain_spec_lemma. Qed.
Print Assumptions C12_same_domain_spec.

(* check_csrf_origin passes exactly on the documented condition -- for any value of the repair parameters *)
Theorem C12_origin_pass_iff : forall pr settings caller allow r,
  fst (check_csrf_origin_p pr settings caller allow r) = OPass <-> spec_origin_ok settings caller allow r = true.
Proof. exact origin_pass_iff. Qed.
Print Assumptions C12_origin_pass_iff.

Theorem C12_origin_ok_meaning : forall settings caller allow r,
  spec_origin_ok settings caller allow r = true <->
  req_scheme r <> s_https \/
  (spec_claim r = NoOrigin /\ allow = true) \/
  (spec_claim r = NullOrigin /\ In s_null (spec_trusted settings caller r)) \/
  (exists o netloc, spec_claim r = Claims o /\ urlparse_m (r_v6 r) o = PUrl s_https netloc /\
                    exists p, In p (spec_trusted settings caller r) /\ same_domain_P netloc p).
Proof. exact origin_ok_meaning. Qed.
Print Assumptions C12_origin_ok_meaning.

(* ---- requests that are not checked *)
Theorem C12_safe_method_unchecked : forall pr c r,
  mem_text (req_method r) (o_safe (effective c)) = true -> view_outcome_p pr c r = Ran.
Proof. exact safe_method_unchecked. Qed.
Print Assumptions C12_safe_method_unchecked.

Theorem C12_opted_out_unchecked : forall pr c r, c_explicit c = Some false -> view_outcome_p pr c r = Ran.
Proof. exact opted_out_unchecked. Qed.
Print Assumptions C12_opted_out_unchecked.

Theorem C12_exception_view_default_unchecked : forall pr c r,
  c_exception_only c = true -> c_explicit c <> Some true -> view_outcome_p pr c r = Ran.
Proof. exact exception_view_default_unchecked. Qed.
Print Assumptions C12_exception_view_default_unchecked.

Theorem C12_callback_false_unchecked : forall pr c r,
  o_callback (effective c) = true -> r_cb r = false -> view_outcome_p pr c r = Ran.
Proof. exact callback_false_unchecked. Qed.
Print Assumptions C12_callback_false_unchecked.

Theorem C12_nothing_configured_unchecked : forall pr c r,
  c_defaults c = None -> c_explicit c <> Some true -> view_outcome_p pr c r = Ran.
Proof. exact nothing_configured_unchecked. Qed.
Print Assumptions C12_nothing_configured_unchecked.

(* ---- histories: checks sharing one trusted-origins list *)
Theorem C12_history_independent : forall s settings caller allow rs,
  origin_history (the_params s) settings caller allow rs =
  (map (fun r => fst (check_csrf_origin_p (the_params s) settings caller allow r)) rs, caller).
Proof. exact history_independent. Qed.
Print Assumptions C12_history_independent.

(* the settings path is history independent whatever the repair parameters (aslist builds a fresh list) *)
Theorem C12_history_independent_settings : forall pr settings allow rs,
  origin_history pr settings None allow rs =
  (map (fun r => fst (check_csrf_origin_p pr settings None allow r)) rs, None).
Proof. exact history_independent_settings. Qed.
Print Assumptions C12_history_independent_settings.

(* full statement fails while the caller's list is appended to in place *)
Theorem C12_history_independent_refuted_when_shared :
  exists settings caller allow r1 r2,
    let pr := mkParams false true true in
    nth 1 (fst (origin_history pr settings (Some caller) allow [r1; r2])) OPass = OPass /\
    fst (check_csrf_origin_p pr settings (Some caller) allow r2) = OFail RNoMatch /\
    snd (origin_history pr settings (Some caller) allow [r1; r2]) <> Some caller.
Proof. exact history_independent_refuted_when_shared. Qed.
Print Assumptions C12_history_independent_refuted_when_shared.

(* ---- the regenerated facts the statements above rely on *)
Theorem C12_facts_repairs :
  copies_trusted = true /\ catches_valueerror = true /\
  enc_utf8_legacy = true /\ enc_utf8_session = true /\ enc_utf8_cookie = true.
Proof. exact Facts_ok_repairs. Qed.
Print Assumptions C12_facts_repairs.

Theorem C12_facts_defaults :
  builtin_require = false /\ builtin_check_origin = true /\ builtin_allow_no_origin = false /\
  sdc_require = true /\ sdc_check_origin = true /\ sdc_allow_no_origin = false /\
  builtin_safe = sdc_safe /\
  sdc_safe = [[71; 69; 84]; [72; 69; 65; 68]; [79; 80; 84; 73; 79; 78; 83]; [84; 82; 65; 67; 69]] /\
  builtin_token = sdc_token /\ builtin_header = sdc_header /\ builtin_token = token_arg_default /\
  builtin_header = header_arg_default.
Proof. exact Facts_ok_defaults. Qed.
Print Assumptions C12_facts_defaults.

(* the model's regenerated names, defaults and strings are the documented ones the specification uses *)
Theorem C12_options_are_documented : forall c, effective c = spec_effective c.
Proof. exact effective_is_spec. Qed.
Print Assumptions C12_options_are_documented.

Theorem C12_own_host_documented : forall r, own_host r = spec_own_host r.
Proof. exact own_host_is_spec. Qed.
Print Assumptions C12_own_host_documented.

Theorem C12_claimed_origin_documented : forall r,
  claimed_origin r =
  match header_get s_origin_hdr r with
  | None => (env_get lit_HTTP_REFERER r, true)
  | Some o => (Some (last (split_on 32 o) []), false)
  end.
Proof. exact claimed_origin_doc. Qed.
Print Assumptions C12_claimed_origin_documented.

(* ---- the converse direction on a concrete family: a same-origin request is not turned away *)
Theorem C12_own_origin_accepted : forall pr settings caller allow r,
  req_scheme r = s_https ->
  header_get s_origin_hdr r = Some (s_https ++ [58; 47; 47] ++ spec_own_host r) ->
  clean_host (spec_own_host r) = true ->
  fst (check_csrf_origin_p pr settings caller allow r) = OPass.
Proof. exact own_origin_accepted. Qed.
Print Assumptions C12_own_origin_accepted.

Theorem C12_same_origin_request_runs : forall c r,
  wf_tokens c r = true ->
  req_scheme r = s_https ->
  header_get s_origin_hdr r = Some (s_https ++ [58; 47; 47] ++ spec_own_host r) ->
  clean_host (spec_own_host r) = true ->
  spec_token_ok (c_storage c) (o_token (spec_effective c)) (o_header (spec_effective c)) r = true ->
  view_outcome c r = Ran.
Proof. exact same_origin_request_runs. Qed.
Print Assumptions C12_same_origin_request_runs.

(* neither the parsed query (request.GET) nor the QUERY_STRING environ entry can influence the outcome *)
Theorem C12_query_string_never_read : forall pr c r v,
  view_outcome_p pr c (with_query_string r v) = view_outcome_p pr c r.
Proof. exact query_string_never_read. Qed.
Print Assumptions C12_query_string_never_read.

(* ================================================================== the urllib.parse.urlsplit fragment *)
(* scheme "://" authority [path/query/fragment]: lower-cased scheme, authority unchanged *)
Theorem C12_urlparse_scheme_authority : forall v6 c0 s n rest,
  is_ascii_alpha c0 = true -> forallb (fun c => memN c url_scheme_chars) (c0 :: s) = true ->
  forallb netloc_char n = true ->
  (rest = [] \/ exists d r, rest = d :: r /\ memN d netloc_delims = true) ->
  urlparse_m v6 ((c0 :: s) ++ [58; 47; 47] ++ n ++ rest) = PUrl (lower (c0 :: s)) n.
Proof. exact urlparse_scheme_authority. Qed.
Print Assumptions C12_urlparse_scheme_authority.

Theorem C12_urlparse_origin_host : forall v6 c0 s h,
  is_ascii_alpha c0 = true -> forallb (fun c => memN c url_scheme_chars) (c0 :: s) = true ->
  forallb host_char h = true ->
  urlparse_m v6 ((c0 :: s) ++ [58; 47; 47] ++ h) = PUrl (lower (c0 :: s)) h.
Proof. exact urlparse_origin_host. Qed.
Print Assumptions C12_urlparse_origin_host.

Theorem C12_urlparse_origin_host_port : forall v6 c0 s h p,
  is_ascii_alpha c0 = true -> forallb (fun c => memN c url_scheme_chars) (c0 :: s) = true ->
  forallb host_char h = true -> forallb digit p = true ->
  urlparse_m v6 ((c0 :: s) ++ [58; 47; 47] ++ h ++ [58] ++ p) = PUrl (lower (c0 :: s)) (h ++ [58] ++ p).
Proof. exact urlparse_origin_host_port. Qed.
Print Assumptions C12_urlparse_origin_host_port.

(* exactly which inputs raise ValueError in the model: a '//' authority whose brackets are
   unbalanced, or balanced with a content urllib's ipaddress check (the oracle) rejects *)
Theorem C12_urlparse_valueerror_iff : forall v6 u,
  urlparse_m v6 u = PValueError <->
  exists n, url_netloc u = Some n /\
            (memN 91 n <> memN 93 n \/
             (memN 91 n = true /\ memN 93 n = true /\ lookup_b (bracket_content n) v6 = Some false)).
Proof. exact urlparse_valueerror_iff. Qed.
Print Assumptions C12_urlparse_valueerror_iff.

Theorem C12_urlparse_valueerror_needs_bracket : forall v6 u,
  urlparse_m v6 u = PValueError -> In 91 u \/ In 93 u.
Proof. exact valueerror_needs_bracket. Qed.
Print Assumptions C12_urlparse_valueerror_needs_bracket.

Theorem C12_urlparse_latin1_no_brackets_parses : forall v6 u,
  memN 91 u = false -> memN 93 u = false -> forallb (fun c => c <? 256) u = true ->
  exists sc n, urlparse_m v6 u = PUrl sc n.
Proof. exact latin1_no_brackets_parses. Qed.
Print Assumptions C12_urlparse_latin1_no_brackets_parses.

Theorem C12_urlparse_netloc_chars_from_input : forall u n c, url_netloc u = Some n -> In c n -> In c u.
Proof. exact netloc_chars_from_input. Qed.
Print Assumptions C12_urlparse_netloc_chars_from_input.

(* ================================================================== token lifecycle of the storage policies *)
Theorem C12_expected_is_held_after_get : forall s r,
  expected_token s r = or_empty (store_after_get s (r_stored r) (r_fresh r)).
Proof. exact expected_is_held_after_get. Qed.
Print Assumptions C12_expected_is_held_after_get.

(* a token is minted exactly when none is held (None; for the session and cookie policies also '') *)
Theorem C12_get_mints_iff_absent : forall s st fresh,
  (token_absent s st = true -> store_after_get s st fresh = Some fresh) /\
  (token_absent s st = false -> store_after_get s st fresh = st).
Proof. exact get_mints_iff_absent. Qed.
Print Assumptions C12_get_mints_iff_absent.

Theorem C12_token_absent_spec : forall s st,
  token_absent s st = true <-> st = None \/ (s <> Legacy /\ st = Some []).
Proof. exact token_absent_spec. Qed.
Print Assumptions C12_token_absent_spec.

Theorem C12_minted_token_is_kept : forall s st fresh fresh',
  fresh <> [] -> store_after_get s (store_after_get s st fresh) fresh' = store_after_get s st fresh.
Proof. exact minted_token_is_kept. Qed.
Print Assumptions C12_minted_token_is_kept.

(* with no stored token an empty supplied token is never accepted (any repair parameters) ... *)
Theorem C12_no_stored_token_empty_supplied_not_accepted : forall pr s token header r,
  token_absent s (r_stored r) = true -> r_fresh r <> [] ->
  supplied_token token header r = [] ->
  check_csrf_token_p pr s token header r <> TPass.
Proof. exact no_stored_token_empty_supplied_not_accepted. Qed.
Print Assumptions C12_no_stored_token_empty_supplied_not_accepted.

(* ... it is rejected (False / BadCSRFToken), and the protected body does not run *)
Theorem C12_no_stored_token_empty_supplied_rejected : forall s token header r,
  token_absent s (r_stored r) = true -> r_fresh r <> [] -> forallb valid_scalar (r_fresh r) = true ->
  supplied_token token header r = [] ->
  check_csrf_token_p (the_params s) s token header r = TFail.
Proof. exact no_stored_token_empty_supplied_rejected. Qed.
Print Assumptions C12_no_stored_token_empty_supplied_rejected.

Theorem C12_no_stored_token_empty_token_body_does_not_run : forall pr c r,
  checks_apply c r = true ->
  token_absent (c_storage c) (r_stored r) = true -> r_fresh r <> [] ->
  supplied_token (o_token (effective c)) (o_header (effective c)) r = [] ->
  view_outcome_p pr c r <> Ran.
Proof. exact no_stored_token_empty_token_body_does_not_run. Qed.
Print Assumptions C12_no_stored_token_empty_token_body_does_not_run.

(* ================================================================== sequences of requests through csrf_view *)
(* In any interleaving of clients (settings-based trusted origins, session / cookie storage whose
   get_csrf_token mints per-client state), the outcomes client k observes and the token it ends up
   holding are those of its own requests alone. *)
Theorem C12_view_history_independent : forall pr c k steps s,
  outcomes_of k steps (fst (run_clients pr c s steps)) = fst (run_client pr c (st_get k s) (requests_of k steps)) /\
  st_get k (snd (run_clients pr c s steps)) = snd (run_client pr c (st_get k s) (requests_of k steps)).
Proof. exact view_history_independent. Qed.
Print Assumptions C12_view_history_independent.

(* every verdict is the single-request verdict on (current request, that client's held token) *)
Theorem C12_run_client_outcomes : forall pr c rs st,
  Forall2 (fun r out => exists held, out = view_outcome_p pr c (with_client_state held r))
          rs (fst (run_client pr c st rs)).
Proof. exact run_client_outcomes. Qed.
Print Assumptions C12_run_client_outcomes.

Theorem C12_client_step_outcome : forall pr c st r,
  fst (client_step pr c st r) = view_outcome_p pr c (with_client_state st r).
Proof. exact client_step_outcome. Qed.
Print Assumptions C12_client_step_outcome.

(* the held token only changes by minting, when none was held and the policy was consulted *)
Theorem C12_client_step_state : forall pr c st r,
  snd (client_step pr c st r) = st \/
  (token_absent (c_storage c) st = true /\ snd (client_step pr c st r) = Some (r_fresh r) /\
   token_stage_reached pr c (with_client_state st r) = true).
Proof. exact client_step_state. Qed.
Print Assumptions C12_client_step_state.

Theorem C12_held_token_is_stable : forall pr c r st,
  token_absent (c_storage c) st = false -> snd (client_step pr c st r) = st.
Proof. exact held_token_is_stable. Qed.
Print Assumptions C12_held_token_is_stable.

(* ================================================================== statement order *)
(* the regenerated `order=` of set_default_csrf_options' action lies strictly before add_view's, so the
   options are registered when any view is derived; C12_options_are_documented (hence the gate and every
   "configured default" statement) depends on this fact *)
Theorem C12_facts_order : (sdc_order <? view_order)%Z = true.
Proof. exact Facts_ok_order. Qed.
Print Assumptions C12_facts_order.

Theorem C12_defaults_always_visible : forall stated_first, defaults_visible stated_first = true.
Proof. exact defaults_always_visible. Qed.
Print Assumptions C12_defaults_always_visible.

Theorem C12_declaration_order_irrelevant : forall pr c b r,
  view_outcome_p pr (with_defaults_first c b) r = view_outcome_p pr c r.
Proof. exact declaration_order_irrelevant. Qed.
Print Assumptions C12_declaration_order_irrelevant.

(* ================================================================== the regenerated program *)
(* Gen/Facts_C12_prog.v is translated from the source on every run (harness/c12/translate.py); it equals the
   reference model, and the property holds of it *)
Require Import Verif.Gen.Facts_C12_prog Verif.Proofs.C12_gen.

Theorem C12_gen_is_same_domain_is_model : forall h p, gen_is_same_domain h p = is_same_domain h p.
Proof. exact gen_is_same_domain_is_model. Qed.
Print Assumptions C12_gen_is_same_domain_is_model.

Theorem C12_gen_policy_get_is_model : forall r,
  gen_legacy_get r (r_stored r) = (expected_token Legacy r, store_after_get Legacy (r_stored r) (r_fresh r)) /\
  gen_session_get r (r_stored r) = (expected_token Session r, store_after_get Session (r_stored r) (r_fresh r)) /\
  gen_cookie_get r (r_stored r) = (expected_token Cookie r, store_after_get Cookie (r_stored r) (r_fresh r)).
Proof. exact gen_policy_get_is_model. Qed.
Print Assumptions C12_gen_policy_get_is_model.

Theorem C12_gen_policy_check_is_model : forall s r sup,
  gen_policy_check s r (r_stored r) sup = (policy_check true s r sup, store_after_get s (r_stored r) (r_fresh r)).
Proof. exact gen_policy_check_is_model. Qed.
Print Assumptions C12_gen_policy_check_is_model.

Theorem C12_gen_check_csrf_token_is_model : forall pr s token header raises r,
  p_utf8 pr = true -> gen_check_csrf_token s token header raises r = check_csrf_token_p pr s token header r.
Proof. exact gen_check_csrf_token_is_model. Qed.
Print Assumptions C12_gen_check_csrf_token_is_model.

Theorem C12_gen_check_csrf_origin_is_model : forall pr settings caller allow raises r,
  p_catch pr = true ->
  gen_check_csrf_origin settings caller allow raises r = fst (check_csrf_origin_p pr settings caller allow r).
Proof. exact gen_check_csrf_origin_is_model. Qed.
Print Assumptions C12_gen_check_csrf_origin_is_model.

Theorem C12_gen_view_outcome_is_model : forall pr c r,
  p_utf8 pr = true -> p_catch pr = true -> gen_view_outcome c r = view_outcome_p pr c r.
Proof. exact gen_view_outcome_is_model. Qed.
Print Assumptions C12_gen_view_outcome_is_model.

Theorem C12_gen_csrf_gate : forall c r,
  wf_tokens c r = true -> (gen_view_outcome c r = Ran <-> spec_runs c r = true).
Proof. exact gen_csrf_gate. Qed.
Print Assumptions C12_gen_csrf_gate.

Theorem C12_gen_body_never_runs_on_failure : forall c r, gen_view_outcome c r = Ran -> spec_runs c r = true.
Proof. exact gen_body_never_runs_on_failure. Qed.
Print Assumptions C12_gen_body_never_runs_on_failure.

Theorem C12_gen_rejection_is_400 : forall c r,
  wf_tokens c r = true -> parse_defined r = true ->
  gen_view_outcome c r = Ran \/ gen_view_outcome c r = BadToken \/ exists w, gen_view_outcome c r = BadOrigin w.
Proof. exact gen_rejection_is_400. Qed.
Print Assumptions C12_gen_rejection_is_400.

Theorem C12_gen_same_domain_spec : forall h p,
  gen_is_same_domain h p = true <->
  p <> [] /\ (h = lower p \/
              exists rest, lower p = 46 :: rest /\ ((exists pre, h = pre ++ lower p) \/ h = rest)).
Proof. exact gen_same_domain_spec. Qed.
Print Assumptions C12_gen_same_domain_spec.

Theorem C12_gen_origin_pass_iff : forall settings caller allow raises r,
  gen_check_csrf_origin settings caller allow raises r = OPass <-> spec_origin_ok settings caller allow r = true.
Proof. exact gen_origin_pass_iff. Qed.
Print Assumptions C12_gen_origin_pass_iff.

Theorem C12_gen_token_ok_iff_equal : forall s token header raises r,
  forallb valid_scalar (expected_token s r) = true ->
  forallb valid_scalar (supplied_token token header r) = true ->
  (gen_check_csrf_token s token header raises r = TPass <-> supplied_token token header r = expected_token s r) /\
  (gen_check_csrf_token s token header raises r = TFail <-> supplied_token token header r <> expected_token s r).
Proof. exact gen_token_ok_iff_equal. Qed.
Print Assumptions C12_gen_token_ok_iff_equal.

Theorem C12_gen_no_stored_token_empty_supplied_rejected : forall s token header raises r,
  token_absent s (r_stored r) = true -> r_fresh r <> [] -> forallb valid_scalar (r_fresh r) = true ->
  supplied_token token header r = [] ->
  gen_check_csrf_token s token header raises r = TFail.
Proof. exact gen_no_stored_token_empty_supplied_rejected. Qed.
Print Assumptions C12_gen_no_stored_token_empty_supplied_rejected.

Theorem C12_gen_policy_lifecycle : forall s r sup,
  snd (gen_policy_check s r (r_stored r) sup) = store_after_get s (r_stored r) (r_fresh r) /\
  (fst (gen_policy_check s r (r_stored r) sup) = TPass -> sup = expected_token s r).
Proof. exact gen_policy_lifecycle. Qed.
Print Assumptions C12_gen_policy_lifecycle.

(* ---- round 5: more of the code regenerated (util.strings_differ, the session object's own token methods,
   the data flow set_default_csrf_options -> DefaultCSRFOptions -> the registered options object) *)
Theorem C12_gen_strings_differ_is_model : forall a b, gen_strings_differ a b = strings_differ a b.
Proof. exact gen_strings_differ_is_model. Qed.
Print Assumptions C12_gen_strings_differ_is_model.

Theorem C12_gen_strings_differ_spec : forall a b, gen_strings_differ a b = false <-> a = b.
Proof. exact gen_strings_differ_spec. Qed.
Print Assumptions C12_gen_strings_differ_spec.

Theorem C12_gen_sess_is_model : forall r st,
  gen_sess_new r st = (r_fresh r, Some (r_fresh r)) /\
  gen_sess_get r st = (session_token st (r_fresh r), session_store st (r_fresh r)).
Proof. exact gen_sess_is_model. Qed.
Print Assumptions C12_gen_sess_is_model.

Theorem C12_gen_directive_options_is_model : forall d, gen_directive_options d = options_of_defaults d.
Proof. exact gen_directive_options_is_model. Qed.
Print Assumptions C12_gen_directive_options_is_model.

Theorem C12_gen_registered_options_from_directive : forall c o,
  registered_options c = Some o -> exists d, c_defaults c = Some d /\ o = gen_directive_options d.
Proof. exact gen_registered_options_from_directive. Qed.
Print Assumptions C12_gen_registered_options_from_directive.

Theorem C12_gen_directive_options_fields : forall d,
  o_require (gen_directive_options d) = dflt (d_require d) true /\
  o_token (gen_directive_options d) = dflt (d_token d) (Some s_token) /\
  o_header (gen_directive_options d) = dflt (d_header d) (Some s_header) /\
  o_safe (gen_directive_options d) = dflt (d_safe d) s_safe /\
  o_check_origin (gen_directive_options d) = dflt (d_check_origin d) true /\
  o_allow_no_origin (gen_directive_options d) = dflt (d_allow_no_origin d) false /\
  o_callback (gen_directive_options d) = d_callback d.
Proof. exact gen_directive_options_fields. Qed.
Print Assumptions C12_gen_directive_options_fields.

(* ---- round 5: the public token API (pyramid.csrf.get_csrf_token / new_csrf_token) called by the view body *)
Theorem C12_gen_api_is_model : forall s r st,
  gen_api_get s r st = (or_empty (store_after_get s st (r_fresh r)), store_after_get s st (r_fresh r)) /\
  gen_api_new s r st = (r_fresh r, Some (r_fresh r)).
Proof. exact gen_api_is_model. Qed.
Print Assumptions C12_gen_api_is_model.

Theorem C12_gen_api_body_store : forall s r st,
  snd (gen_api_get s r st) = body_store s AGet st (r_fresh r) /\
  snd (gen_api_new s r st) = body_store s ANew st (r_fresh r).
Proof. exact gen_api_body_store. Qed.
Print Assumptions C12_gen_api_body_store.

Theorem C12_body_api_never_changes_verdict : forall pr c st a r,
  fst (client_step_a pr c st (a, r)) = view_outcome_p pr c (with_client_state st r).
Proof. exact client_step_a_outcome. Qed.
Print Assumptions C12_body_api_never_changes_verdict.

Theorem C12_rejected_body_has_no_effect : forall pr c st a r,
  fst (client_step_a pr c st (a, r)) <> Ran -> snd (client_step_a pr c st (a, r)) = snd (client_step pr c st r).
Proof. exact rejected_body_has_no_effect. Qed.
Print Assumptions C12_rejected_body_has_no_effect.

Theorem C12_rotation_installs_fresh : forall pr c st r,
  fst (client_step_a pr c st (ANew, r)) = Ran -> snd (client_step_a pr c st (ANew, r)) = Some (r_fresh r).
Proof. exact rotation_installs_fresh. Qed.
Print Assumptions C12_rotation_installs_fresh.

Theorem C12_body_get_state : forall pr c st r,
  fst (client_step_a pr c st (AGet, r)) = Ran -> r_fresh r <> [] ->
  snd (client_step_a pr c st (AGet, r)) = store_after_get (c_storage c) st (r_fresh r).
Proof. exact body_get_state. Qed.
Print Assumptions C12_body_get_state.

Theorem C12_only_held_token_passes : forall pr c t r,
  t <> [] -> checks_apply c (with_client_state (Some t) r) = true ->
  view_outcome_p pr c (with_client_state (Some t) r) = Ran ->
  supplied_token (o_token (effective c)) (o_header (effective c)) (with_client_state (Some t) r) = t.
Proof. exact only_held_token_passes. Qed.
Print Assumptions C12_only_held_token_passes.

Theorem C12_rotated_old_token_refused : forall pr c st r r2,
  fst (client_step_a pr c st (ANew, r)) = Ran -> r_fresh r <> [] ->
  checks_apply c (with_client_state (Some (r_fresh r)) r2) = true ->
  supplied_token (o_token (effective c)) (o_header (effective c)) (with_client_state (Some (r_fresh r)) r2) <> r_fresh r ->
  fst (client_step_a pr c (snd (client_step_a pr c st (ANew, r))) (ANone, r2)) <> Ran.
Proof. exact rotated_old_token_refused. Qed.
Print Assumptions C12_rotated_old_token_refused.

Theorem C12_view_history_independent_with_api : forall pr c k steps s,
  outcomes_of_a k steps (fst (run_clients_a pr c s steps)) = fst (run_client_a pr c (st_get k s) (requests_of_a k steps)) /\
  st_get k (snd (run_clients_a pr c s steps)) = snd (run_client_a pr c (st_get k s) (requests_of_a k steps)).
Proof. exact view_history_independent_a. Qed.
Print Assumptions C12_view_history_independent_with_api.

Theorem C12_rotation_example :
  run_client_a repaired ex_cfg (Some [97; 49; 98; 50; 99; 51; 100; 52]) [(ANew, ex_req_good); (ANone, ex_req_good); (ANone, ex_req_echo)] =
    ([Ran; BadToken; Ran], Some (r_fresh ex_req_good)) /\ r_fresh ex_req_good <> [].
Proof. exact ex_rotation. Qed.
Print Assumptions C12_rotation_example.

(* ---- round 6: the require_csrf view option at two levels (class __view_defaults__ / add_view call), positional directive *)
Theorem C12_view_option_precedence_documented : forall cls call, explicit_of cls call = spec_explicit cls call.
Proof. exact explicit_is_spec. Qed.
Print Assumptions C12_view_option_precedence_documented.

Theorem C12_call_level_wins : forall cls v, explicit_of cls (Some v) = v.
Proof. exact call_level_wins. Qed.
Print Assumptions C12_call_level_wins.

Theorem C12_class_level_only_when_call_silent : forall cls,
  explicit_of cls None = match cls with Some v => v | None => None end.
Proof. exact class_level_only_when_call_silent. Qed.
Print Assumptions C12_class_level_only_when_call_silent.

Theorem C12_call_none_hands_over_to_default : forall c cls,
  c_explicit c = explicit_of cls (Some None) ->
  csrf_enabled c = spec_in_force c /\
  spec_in_force c = (o_require (spec_effective c) && negb (c_exception_only c)
                     && (truthy (o_token (spec_effective c)) || truthy (o_header (spec_effective c)))).
Proof. exact call_none_hands_over_to_default. Qed.
Print Assumptions C12_call_none_hands_over_to_default.

Theorem C12_class_opt_out_stands_when_call_silent : forall pr c r,
  c_explicit c = explicit_of (Some (Some false)) None -> view_outcome_p pr c r = Ran.
Proof. exact class_opt_out_stands_when_call_silent. Qed.
Print Assumptions C12_class_opt_out_stands_when_call_silent.

Theorem C12_facts_positional_order : sdc_positional_order_ok = true.
Proof. exact Facts_ok_positional. Qed.
Print Assumptions C12_facts_positional_order.

Theorem C12_facts_view_option_plumbing : view_option_plumbing_ok = true.
Proof. exact Facts_ok_plumbing. Qed.
Print Assumptions C12_facts_view_option_plumbing.

(* ---- round 7: pyramid.csrf_trusted_origins is read when the request is checked (not when the view was derived) *)
Theorem C12_origin_history_s_const : forall pr settings caller allow rs,
  origin_history_s pr caller allow (map (fun r => (settings, r)) rs) = origin_history pr settings caller allow rs.
Proof. exact origin_history_s_const. Qed.
Print Assumptions C12_origin_history_s_const.

Theorem C12_settings_history_independent : forall st caller allow rs,
  origin_history_s (the_params st) caller allow rs =
  (map (fun sr => fst (check_csrf_origin_p (the_params st) (fst sr) caller allow (snd sr))) rs, caller).
Proof. exact settings_history_independent. Qed.
Print Assumptions C12_settings_history_independent.

Theorem C12_gate_under_current_settings : forall c s r,
  wf_tokens (with_settings c s) r = true ->
  (view_outcome (with_settings c s) r = Ran <-> spec_runs (with_settings c s) r = true).
Proof. exact gate_under_current_settings. Qed.
Print Assumptions C12_gate_under_current_settings.

Theorem C12_settings_only_feed_origin_check : forall c s r,
  effective (with_settings c s) = effective c /\ checks_apply (with_settings c s) r = checks_apply c r /\
  wf_tokens (with_settings c s) r = wf_tokens c r.
Proof. exact settings_only_feed_origin_check. Qed.
Print Assumptions C12_settings_only_feed_origin_check.

Theorem C12_revoked_origin_refused : forall pr c s r,
  checks_apply c r = true -> o_check_origin (effective c) = true ->
  spec_origin_ok s None (o_allow_no_origin (effective c)) r = false ->
  view_outcome_p pr (with_settings c s) r <> Ran.
Proof. exact revoked_origin_refused. Qed.
Print Assumptions C12_revoked_origin_refused.

Theorem C12_gen_api_get_after_new : forall s r st,
  r_fresh r <> [] ->
  gen_api_get s r (snd (gen_api_new s r st)) = (r_fresh r, Some (r_fresh r)).
Proof. exact gen_api_get_after_new. Qed.
Print Assumptions C12_gen_api_get_after_new.

(* ---- last round: views registered through add_exception_view / add_notfound_view / add_forbidden_view *)
Theorem C12_facts_special_views_opt_out : special_views_opt_out = true.
Proof. exact Facts_ok_special. Qed.
Print Assumptions C12_facts_special_views_opt_out.

Theorem C12_special_views_never_checked : forall pr c r,
  c_explicit c = special_explicit -> view_outcome_p pr c r = Ran.
Proof. exact special_views_never_checked. Qed.
Print Assumptions C12_special_views_never_checked.

Theorem C12_exception_view_checked_only_when_told : forall pr c r,
  c_exception_only c = true -> view_outcome_p pr c r <> Ran -> c_explicit c = Some true.
Proof. exact exception_view_checked_only_when_told. Qed.
Print Assumptions C12_exception_view_checked_only_when_told.

Theorem C12_exception_view_told_is_gated : forall c r,
  c_exception_only c = true -> c_explicit c = Some true -> wf_tokens c r = true ->
  (view_outcome c r = Ran <-> spec_runs c r = true).
Proof. exact exception_view_told_is_gated. Qed.
Print Assumptions C12_exception_view_told_is_gated.

(* ---- proof-only round: end-to-end composition (Proofs/C12_e2e.v) *)
Require Import Verif.Proofs.C12_e2e.

Theorem C12_e2e_gate : forall c k steps s,
  let pr := the_params (c_storage c) in
  let mine := requests_of_as k steps in
  let held := held_before_as pr c (st_get k s) mine in
  Forall2 (fun p out =>
             let cs := with_settings c (ss_settings (snd p)) in
             let r' := with_client_state (fst p) (ss_request (snd p)) in
             out = view_outcome cs r' /\
             (out = Ran -> spec_runs cs r' = true) /\
             (wf_tokens cs r' = true -> (out = Ran <-> spec_runs cs r' = true)))
          (combine held mine)
          (outcomes_of_as k steps (fst (run_clients_as pr c s steps))) /\
  st_get k (snd (run_clients_as pr c s steps)) = snd (run_client_as pr c (st_get k s) mine).
Proof. exact e2e_gate. Qed.
Print Assumptions C12_e2e_gate.

Theorem C12_e2e_interleaving_independent : forall pr c k steps s,
  outcomes_of_as k steps (fst (run_clients_as pr c s steps)) = fst (run_client_as pr c (st_get k s) (requests_of_as k steps)) /\
  st_get k (snd (run_clients_as pr c s steps)) = snd (run_client_as pr c (st_get k s) (requests_of_as k steps)).
Proof. exact interleaving_independent_as. Qed.
Print Assumptions C12_e2e_interleaving_independent.

Theorem C12_e2e_constant_settings : forall pr c s0 steps s,
  run_clients_as pr c s (map (fun kx => (fst kx, (s0, snd kx))) steps) = run_clients_a pr (with_settings c s0) s steps.
Proof. exact run_clients_as_const. Qed.
Print Assumptions C12_e2e_constant_settings.

Theorem C12_e2e_configuration : forall c cls call d,
  c_explicit c = explicit_of cls call -> c_defaults c = Some d ->
  forall s, effective (with_settings c s) = gen_directive_options d /\
            c_explicit (with_settings c s) = spec_explicit cls call /\
            o_require (effective (with_settings c s)) = dflt (d_require d) true /\
            o_check_origin (effective (with_settings c s)) = dflt (d_check_origin d) true /\
            o_allow_no_origin (effective (with_settings c s)) = dflt (d_allow_no_origin d) false.
Proof. exact e2e_configuration. Qed.
Print Assumptions C12_e2e_configuration.

Theorem C12_e2e_unchecked_views : forall pr c steps s,
  c_explicit c = Some false -> Forall (fun out => out = Ran) (fst (run_clients_as pr c s steps)).
Proof. exact e2e_unchecked_views. Qed.
Print Assumptions C12_e2e_unchecked_views.

Theorem C12_e2e_special_views : forall pr c steps s,
  c_explicit c = special_explicit -> Forall (fun out => out = Ran) (fst (run_clients_as pr c s steps)).
Proof. exact e2e_special_views. Qed.
Print Assumptions C12_e2e_special_views.

Theorem C12_e2e_example :
  fst (run_clients_as repaired ex_cfg [(1, Some [97; 49; 98; 50; 99; 51; 100; 52])]
         [(1, (ex_dot, (ANew, ex_req_subdomain))); (2, ([], (ANone, ex_req_subdomain)));
          (1, ([], (ANone, ex_req_subdomain))); (1, (ex_dot, (ANone, ex_req_subdomain)))]) =
  [Ran; BadOrigin RNoMatch; BadOrigin RNoMatch; BadToken].
Proof. exact ex_e2e. Qed.
Print Assumptions C12_e2e_example.

(* ---- proof-only round: characterisation of the aslist model (Proofs/C12_aslist.v) *)
Require Import Verif.Proofs.C12_aslist.

Theorem C12_aslist_items : forall v, Forall (fun t => t <> [] /\ forallb nonws t = true) (aslist v).
Proof. exact aslist_items. Qed.
Print Assumptions C12_aslist_items.

Theorem C12_aslist_concat : forall v, concat (aslist v) = filter nonws (concat v).
Proof. exact aslist_concat. Qed.
Print Assumptions C12_aslist_concat.

Theorem C12_aslist_blank : forall v,
  forallb (fun c => memN c py_whitespace) (concat v) = true -> aslist v = [].
Proof. exact aslist_blank. Qed.
Print Assumptions C12_aslist_blank.

(* ---- proof-only round 3: the aslist model splits exactly at whitespace (Proofs/C12_aslist2.v) *)
Require Import Verif.Proofs.C12_aslist2.

Theorem C12_split_is_inverse_of_layout : forall rest pre t0 post,
  forallb isws pre = true -> forallb isws post = true -> good_token t0 ->
  Forall (fun p => good_sep (fst p) /\ good_token (snd p)) rest ->
  py_split (pre ++ t0 ++ tail_layout rest ++ post) [] = t0 :: map snd rest.
Proof. exact split_is_inverse_of_layout. Qed.
Print Assumptions C12_split_is_inverse_of_layout.

Theorem C12_split_at_ws : forall w b, isws w = true -> forall a cur,
  py_split (a ++ w :: b) cur = py_split a cur ++ py_split b [].
Proof. exact split_at_ws. Qed.
Print Assumptions C12_split_at_ws.

Theorem C12_split_token_alone : forall t, t <> [] -> forallb nonws t = true -> py_split t [] = [t].
Proof. exact token_alone. Qed.
Print Assumptions C12_split_token_alone.

Theorem C12_split_blank : forall s, forallb isws s = true -> py_split s [] = [].
Proof. exact split_blank. Qed.
Print Assumptions C12_split_blank.
