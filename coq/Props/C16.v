(* C16 -- property theorems only.  Each is closed by [exact] of a lemma proved
   in Proofs/C16.v; Print Assumptions beneath each. *)
From Coq Require Import List NArith Bool.
Import ListNotations.
Require Import Verif.Lib.Wire Verif.Lib.Text Verif.Lib.PathNorm Verif.Lib.C16Posix
               Verif.Gen.Facts_C16 Verif.Model.C16 Verif.Proofs.C16.
Open Scope N_scope.

(* _secure_path accepts a tuple iff no element is '', '.', '..' and none contains
   '/' (= os.sep) or NUL; the accepted tuple is joined with '/' *)
Theorem C16_secure_path_spec : forall t p,
  secure_path t = Some p <->
  Forall (fun s => s <> [] /\ s <> [dot] /\ s <> [dot; dot] /\ ~ In slash s /\ ~ In 0 s) t /\ p = join [slash] t.
Proof. exact secure_path_spec. Qed.
Print Assumptions C16_secure_path_spec.
