(* C16 -- property theorems only.  Each is closed by [exact] of a lemma proved
   in Proofs/C16.v; Print Assumptions beneath each. *)
From Coq Require Import List NArith Bool.
Import ListNotations.
Require Import Verif.Lib.Wire Verif.Lib.Text Verif.Lib.PathNorm Verif.Lib.C16Posix
               Verif.Gen.Facts_C16 Verif.Model.C16 Verif.Proofs.C16 Verif.Proofs.C16_b.
Open Scope N_scope.

(* the regenerated constants the other theorems are stated over have the
   values of the repaired tree: static_view does not decode request.path_info a
   second time, the route remainder is DOTALL and anchored with \Z,
   add_static_view creates the view with use_subpath=True and the remainder
   is named as the traverser expects *)
Theorem C16_facts_ok :
  view_decodes_again = false /\ route_remainder_dotall = true /\ route_anchor_abs = true /\
  static_use_subpath = true /\ static_route_star = traverser_subpath_key.
Proof. exact facts_ok. Qed.
Print Assumptions C16_facts_ok.

(* _secure_path (over the regenerated insecure-element and invalid-character
   sets) accepts a tuple iff no element is '', '.', '..' and none contains '/'
   (= os.sep) or NUL; the accepted tuple is joined with '/' *)
Theorem C16_secure_path_spec : forall t p,
  secure_path t = Some p <->
  Forall (fun s => s <> [] /\ s <> [dot] /\ s <> [dot; dot] /\ ~ In slash s /\ ~ In 0 s) t /\ p = join [slash] t.
Proof. exact secure_path_spec. Qed.
Print Assumptions C16_secure_path_spec.

(* posixpath: for every absolute docroot r and all plain segments t,
   normpath(join(normpath(r), '/'.join(t))) resolves to the components of r followed by t *)
Theorem C16_normpath_under : forall r t,
  startswith [slash] r = true -> Forall normal_seg t ->
  exists comps, Forall normal_seg comps /\ os_resolve (normpath r) = comps /\
    os_resolve (normpath (pjoin (normpath r) (join [slash] t))) = comps ++ t.
Proof. exact normpath_under. Qed.
Print Assumptions C16_normpath_under.

(* containment (file-system roots): for every sequence of requests handled by one
   view instance -- any request strings, any of the four mountings, any file
   system, any Accept-Encoding answers, any filemap history -- every path
   handed to os.stat / open is absolute, NUL-free, consists of plain names
   only (no '.', '..') and is lexically the root or a path below it.
   Hypotheses: the configured root is an absolute NUL-free path naming an
   existing directory, index is a plain name, extensions contain no '/' *)
Theorem C16_containment_fs : forall c fs rqs,
  wf_fs c -> root_is_dir c fs ->
  Forall (fun rl => contained c (snd rl) = true) (run_model c fs rqs).
Proof. exact containment_fs. Qed.
Print Assumptions C16_containment_fs.

(* a 200 answer (fresh view instance): the body is the content of an existing
   file p, the Content-Encoding label is p's encoding, the client accepts it
   (identity always; a variant only if Accept-Encoding is present and allows
   it), and p is a smallest acceptable existing candidate *)
Theorem C16_variant_acceptable : forall c rq pi fs t body enc vary fm' log,
  serve c rq pi fs [] t = ((R200 body enc vary, fm'), log) ->
  exists name p,
    let keyed := fst (sizes fs (fst (probe c fs (candidates c name)))) in
    spec_acceptable rq enc = true /\
    (exists sz, fs_stat fs p = Some (EFile sz body)) /\
    exists k, In (k, (p, enc)) keyed /\ k = entry_size (fs_stat fs p) /\
      forall k' f', In (k', f') keyed -> spec_acceptable rq (snd f') = true -> k <= k'.
Proof. exact variant_acceptable. Qed.
Print Assumptions C16_variant_acceptable.

(* containment for both kinds of root.  [wf c] = wf_fs c (absolute NUL-free docroot) or
   wf_pkg c (package-relative root: the package directory is a normalised absolute
   path, the docroot is a relative path of plain names -- trailing or doubled
   slashes allowed --, joined as pkg_resources' _fn does); in both cases index is a
   plain name and extensions contain no '/'.  The root must be an existing directory *)
Theorem C16_containment : forall c fs rqs,
  wf c -> root_is_dir c fs ->
  Forall (fun rl => contained c (snd rl) = true) (run_model c fs rqs).
Proof. exact containment. Qed.
Print Assumptions C16_containment.

(* serves_designated_file: for every sequence of requests handled by one view
   instance (any filemap history, reload on or off), every mounting, both kinds
   of root, every file system and Accept-Encoding answer, each response is one
   the declarative specification allows: undecodable path -> Unicode decode
   error; path not below the mount point or with a segment that cannot name a
   file (NUL) -> 404; designated directory -> its index file if the decoded path
   ends with '/', else 301 to path_url + '/' (+ '?' + query string); otherwise
   the content of the designated file or of a smallest acceptable existing
   variant, labelled with its encoding; nothing acceptable exists -> 404.
   [decodable]: for the mounting that is handed request.subpath directly, PATH_INFO
   must be decodable (a router would have rejected it before).  [host_ok]: host_url
   does not end in '/', and '/' is in WebOb's PATH_SAFE.  Where the designated
   name or a variant is a directory the specification is silent (SUnspec) *)
Theorem C16_serves_designated_file : forall c fs rqs,
  wf c -> root_is_dir c fs -> host_ok c -> Forall (decodable c) rqs ->
  Forall (fun x => conforms (fst (snd x)) (spec_response c (fst x) fs) = true)
         (combine rqs (run_model c fs rqs)).
Proof. exact serves_designated_file. Qed.
Print Assumptions C16_serves_designated_file.

(* filemap transparency: whatever the view instance has cached from this file
   system (reload on or off), every answer of a request sequence equals the
   answer a fresh instance gives to that request alone.  No hypothesis on the
   configuration, the file system or the requests *)
Theorem C16_filemap_transparent : forall c fs rqs fm,
  fm_exact c fs fm ->
  map fst (run_requests c fs fm rqs) = map (fun rq => fst (fst (run_request c fs [] rq))) rqs.
Proof. exact filemap_transparent. Qed.
Print Assumptions C16_filemap_transparent.

Theorem C16_filemap_fresh_exact : forall c fs, fm_exact c fs [].
Proof. exact fm_exact_nil. Qed.
Print Assumptions C16_filemap_fresh_exact.
