(* C16 -- property theorems only.  Each is closed by [exact] of a lemma proved
   in Proofs/C16.v; Print Assumptions beneath each. *)
From Coq Require Import List NArith Bool.
Import ListNotations.
Require Import Verif.Lib.Wire Verif.Lib.Text Verif.Lib.PathNorm Verif.Lib.C16Posix
               Verif.Gen.Facts_C16 Verif.Model.C16 Verif.Proofs.C16 Verif.Proofs.C16_b.
Open Scope N_scope.

(* the regenerated constants the other theorems are stated over have the
   values of the repaired tree: static_view does not decode request.path_info a
   second time, the route remainder is DOTALL and anchored with \Z,
   add_static_view creates the view with use_subpath=True and the remainder
   is named as the traverser expects *)
Theorem C16_facts_ok :
  view_decodes_again = false /\ route_remainder_dotall = true /\ route_anchor_abs = true /\
  static_use_subpath = true /\ static_route_star = traverser_subpath_key.
Proof. exact facts_ok. Qed.
Print Assumptions C16_facts_ok.

(* the filemap is per-instance state: static_view.__init__ binds self.filemap to a fresh {} and
   static_view touches no module-level or class-level mutable container (the extractor fails
   closed on anything else) *)
Theorem C16_filemap_per_instance : filemap_per_instance = true.
Proof. exact facts_ok2. Qed.
Print Assumptions C16_filemap_per_instance.

(* ResourceTreeTraverser.__call__ (regenerated): a '{subpath}' string of a matched route is split by
   split_path_info (not decoded a second time), and the view selector is '@@' *)
Theorem C16_traverser_facts_ok :
  traverser_str_decodes_again = false /\ traverser_view_selector = [at_sign; at_sign].
Proof. exact facts_ok3. Qed.
Print Assumptions C16_traverser_facts_ok.

(* _secure_path (over the regenerated insecure-element and invalid-character
   sets) accepts a tuple iff no element is '', '.', '..' and none contains '/'
   (= os.sep) or NUL; the accepted tuple is joined with '/' *)
Theorem C16_secure_path_spec : forall t p,
  secure_path t = Some p <->
  Forall (fun s => s <> [] /\ s <> [dot] /\ s <> [dot; dot] /\ ~ In slash s /\ ~ In 0 s) t /\ p = join [slash] t.
Proof. exact secure_path_spec. Qed.
Print Assumptions C16_secure_path_spec.

(* posixpath: for every absolute docroot r and all plain segments t,
   normpath(join(normpath(r), '/'.join(t))) resolves to the components of r followed by t *)
Theorem C16_normpath_under : forall r t,
  startswith [slash] r = true -> Forall normal_seg t ->
  exists comps, Forall normal_seg comps /\ os_resolve (normpath r) = comps /\
    os_resolve (normpath (pjoin (normpath r) (join [slash] t))) = comps ++ t.
Proof. exact normpath_under. Qed.
Print Assumptions C16_normpath_under.

(* containment (file-system roots): for every sequence of requests handled by one
   view instance -- any request strings, any of the four mountings, any file
   system, any Accept-Encoding answers, any filemap history -- every path
   handed to os.stat / open is absolute, NUL-free, consists of plain names
   only (no '.', '..') and is lexically the root or a path below it.
   Hypotheses: the configured root is an absolute NUL-free path naming an
   existing directory, index is a plain name, extensions contain no '/' *)
Theorem C16_containment_fs : forall c fs rqs,
  wf_fs c -> root_is_dir c fs ->
  Forall (fun rl => contained c (snd rl) = true) (run_model c fs rqs).
Proof. exact containment_fs. Qed.
Print Assumptions C16_containment_fs.

(* a 200 answer (fresh view instance): the body is the content of an existing
   file p, the Content-Encoding label is p's encoding, the client accepts it
   (identity always; a variant only if Accept-Encoding is present and allows
   it), and p is a smallest acceptable existing candidate *)
Theorem C16_variant_acceptable : forall c rq pi fs t body enc vary fm' log,
  serve c rq pi fs [] t = ((R200 body enc vary, fm'), log) ->
  exists name p,
    let keyed := fst (sizes fs (fst (probe c fs (candidates c name)))) in
    spec_acceptable rq enc = true /\
    (exists sz, fs_stat fs p = Some (EFile sz body)) /\
    exists k, In (k, (p, enc)) keyed /\ k = entry_size (fs_stat fs p) /\
      forall k' f', In (k', f') keyed -> spec_acceptable rq (snd f') = true -> k <= k'.
Proof. exact variant_acceptable. Qed.
Print Assumptions C16_variant_acceptable.

(* containment for both kinds of root.  [wf c] = wf_fs c (absolute NUL-free docroot) or
   wf_pkg c (package-relative root: the package directory is a normalised absolute
   path, the docroot is a relative path of plain names -- trailing or doubled
   slashes allowed --, joined as pkg_resources' _fn does); in both cases index is a
   plain name and extensions contain no '/'.  The root must be an existing directory *)
Theorem C16_containment : forall c fs rqs,
  wf c -> root_is_dir c fs ->
  Forall (fun rl => contained c (snd rl) = true) (run_model c fs rqs).
Proof. exact containment. Qed.
Print Assumptions C16_containment.

(* serves_designated_file: for every sequence of requests handled by one view
   instance (any filemap history, reload on or off), every mounting, both kinds
   of root, every file system and Accept-Encoding answer, each response is one
   the declarative specification allows: undecodable path -> Unicode decode
   error; path not below the mount point or with a segment that cannot name a
   file (NUL) -> 404; designated directory -> its index file if the decoded path
   ends with '/', else 301 to path_url + '/' (+ '?' + query string); otherwise
   the content of the designated file or of a smallest acceptable existing
   variant, labelled with its encoding; nothing acceptable exists -> 404.
   [decodable]: for the mounting that is handed request.subpath directly, PATH_INFO
   must be decodable (a router would have rejected it before).  [host_ok]: host_url
   does not end in '/', and '/' is in WebOb's PATH_SAFE.  Where the designated
   name or a variant is a directory the specification is silent (SUnspec) *)
Theorem C16_serves_designated_file : forall c fs rqs,
  wf c -> root_is_dir c fs -> host_ok c -> Forall (decodable c) rqs ->
  Forall (fun x => conforms (fst (snd x)) (spec_response c (fst x) fs) = true)
         (combine rqs (run_model c fs rqs)).
Proof. exact serves_designated_file. Qed.
Print Assumptions C16_serves_designated_file.

(* HTTP_X_VHM_ROOT on the route-mounted views (run_request = the gate below around the request without the header): the
   model's gate, stated with the specification's notions: no segment -> as without the header; first segment names a view
   other than '' -> 404; first segment the bare selector '@@' -> request.subpath is the REST OF THE VIRTUAL ROOT (the
   specification is silent there, containment is not); C16_serves_designated_file / C16_containment above are stated for run_request, i.e. with the header *)
Theorem C16_vroot_gate_spec : forall c,
  vroot_gate c = match c_vroot c with
                 | None => Datatypes.inr GPass
                 | Some v => match Utf8.decode v with
                             | None => Datatypes.inl (RExc 2)
                             | Some u => match split_path_info u with
                                         | [] => Datatypes.inr GPass
                                         | seg :: rest => Datatypes.inr (if empty_text (spec_view_name seg)
                                                                         then GOverride rest else GNoView)
                                         end
                             end
                 end.
Proof. exact vroot_gate_spec. Qed.
Print Assumptions C16_vroot_gate_spec.

(* filemap transparency: whatever the view instance has cached from this file
   system (reload on or off), every answer of a request sequence equals the
   answer a fresh instance gives to that request alone.  No hypothesis on the
   configuration, the file system or the requests *)
Theorem C16_filemap_transparent : forall c fs rqs fm,
  fm_exact c fs fm ->
  map fst (run_requests c fs fm rqs) = map (fun rq => fst (fst (run_request c fs [] rq))) rqs.
Proof. exact filemap_transparent. Qed.
Print Assumptions C16_filemap_transparent.

Theorem C16_filemap_fresh_exact : forall c fs, fm_exact c fs [].
Proof. exact fm_exact_nil. Qed.
Print Assumptions C16_filemap_fresh_exact.

(* the served variant, for ANY history of the view instance (C16_variant_acceptable is the fresh-instance case): every
   200 answer of a request sequence -- whatever the filemap has cached from earlier requests with other Accept-Encoding
   headers -- carries the content of an existing file p, is labelled with p's encoding, that encoding is acceptable to
   the client of THIS request, and no acceptable existing candidate is smaller.  All six mountings, no hypothesis
   on configuration, file system or requests *)
Theorem C16_variant_acceptable_history : forall c fs rqs,
  Forall (fun x : request * (resp * logt) =>
            forall body enc vary, fst (snd x) = R200 body enc vary ->
            exists name p,
              let keyed := fst (sizes fs (fst (probe c fs (candidates c name)))) in
              spec_acceptable (fst x) enc = true /\
              (exists sz, fs_stat fs p = Some (EFile sz body)) /\
              exists k, In (k, (p, enc)) keyed /\ k = entry_size (fs_stat fs p) /\
                forall k' f', In (k', f') keyed -> spec_acceptable (fst x) (snd f') = true -> k <= k')
         (combine rqs (run_model c fs rqs)).
Proof. exact variant_acceptable_fresh. Qed.
Print Assumptions C16_variant_acceptable_history.

(* several view instances in one process (run_multi: requests tagged with the instance that
   serves them, one filemap per instance): every answer of any interleaving equals the answer a
   fresh, lone instance with that configuration gives to that request -- independent of what the
   OTHER instances, and the instance itself, have served before.  No hypothesis on the
   configurations (same docroot twice, same relative docroot in different packages, different
   encodings lists are all covered) *)
Theorem C16_filemap_transparent_multi : forall cs fs rqs fms,
  fms_exact cs fs fms ->
  map fst (run_multi cs fs fms rqs) =
  map (fun ir => fst (fst (run_request (nth (fst ir) cs dflt_cfg) fs [] (snd ir)))) rqs.
Proof. exact multi_transparent. Qed.
Print Assumptions C16_filemap_transparent_multi.

Theorem C16_filemap_fresh_exact_multi : forall cs fs, fms_exact cs fs (map (fun _ => []) cs).
Proof. exact fms_exact_fresh. Qed.
Print Assumptions C16_filemap_fresh_exact_multi.

(* with several instances each response conforms to the specification of ITS OWN configuration
   (root, encodings, index), and each trace stays beneath ITS OWN root *)
Theorem C16_serves_designated_file_multi : forall cs fs rqs,
  (forall i, wf (nth i cs dflt_cfg) /\ root_is_dir (nth i cs dflt_cfg) fs /\ host_ok (nth i cs dflt_cfg)) ->
  Forall (fun ir => decodable (nth (fst ir) cs dflt_cfg) (snd ir)) rqs ->
  Forall (fun x => conforms (fst (snd x)) (spec_response (nth (fst (fst x)) cs dflt_cfg) (snd (fst x)) fs) = true)
         (combine rqs (run_multi_model cs fs rqs)).
Proof. exact multi_conform. Qed.
Print Assumptions C16_serves_designated_file_multi.

Theorem C16_containment_multi : forall cs fs rqs,
  (forall i, wf (nth i cs dflt_cfg) /\ root_is_dir (nth i cs dflt_cfg) fs) ->
  Forall (fun x => contained (nth (fst (fst x)) cs dflt_cfg) (snd (snd x)) = true)
         (combine rqs (run_multi_model cs fs rqs)).
Proof. exact multi_containment. Qed.
Print Assumptions C16_containment_multi.

(* ... and with several instances: every 200 answer of any interleaving is a smallest existing variant acceptable to
   the client of that request, judged with the configuration (encodings, root) of the instance that served it *)
Theorem C16_variant_acceptable_multi : forall cs fs rqs,
  Forall (fun x : (nat * request) * (resp * logt) =>
            forall body enc vary, fst (snd x) = R200 body enc vary ->
            exists name p,
              let keyed := fst (sizes fs (fst (probe (nth (fst (fst x)) cs dflt_cfg) fs
                                                     (candidates (nth (fst (fst x)) cs dflt_cfg) name)))) in
              spec_acceptable (snd (fst x)) enc = true /\
              (exists sz, fs_stat fs p = Some (EFile sz body)) /\
              exists k, In (k, (p, enc)) keyed /\ k = entry_size (fs_stat fs p) /\
                forall k' f', In (k', f') keyed -> spec_acceptable (snd (fst x)) (snd f') = true -> k <= k')
         (combine rqs (run_multi_model cs fs rqs)).
Proof. exact variant_acceptable_multi_fresh. Qed.
Print Assumptions C16_variant_acceptable_multi.

(* the runner used in the correspondence is run_multi; with one instance it is run_requests *)
Theorem C16_run_multi_single : forall c fs rqs fm,
  run_multi [c] fs [fm] (map (pair O) rqs) = run_requests c fs fm rqs.
Proof. exact run_multi_single. Qed.
Print Assumptions C16_run_multi_single.

(* strictness of the UTF-8 decoder the path decoding uses (Lib/Utf8Strict.v): what it accepts is the unique
   canonical encoding of a sequence of scalar values -- no overlong alias of '/' or '.', no surrogates,
   nothing above U+10FFFF, no truncated sequence *)
Require Import Verif.Lib.Utf8Strict.
Theorem C16_utf8_decode_strict : forall bs cs,
  Utf8.decode bs = Some cs -> Utf8.encode cs = bs /\ forallb Utf8.valid_scalar cs = true.
Proof. exact decode_strict. Qed.
Print Assumptions C16_utf8_decode_strict.

Theorem C16_utf8_decode_injective : forall a b cs,
  Utf8.decode a = Some cs -> Utf8.decode b = Some cs -> a = b.
Proof. exact decode_injective. Qed.
Print Assumptions C16_utf8_decode_injective.

(* ------------------------------------------------------------ configuration time ---------------------------------
   [setup]: what the application wrote (root_dir= / path=, package_name=), the package of the module that creates the view
   (for add_static_view: the Configurator's package) and pkg_resources' package directories.  [configure] follows
   static_view.__init__ / asset.resolve_asset_spec and, for add_static_view, Configurator._make_spec + StaticURLInfo.add.
   [designated_dir] says declaratively which directory each FORM designates: an absolute path itself; 'pkg:dir' = dir in
   the directory of pkg; anything else = relative to the directory of package_name= or, without it, of the creating package. *)
Require Import Verif.Proofs.C16_c.

(* the root of the instance the code builds is the designated directory -- every form, every mounting.  [setup_ok]: package
   names are not empty (an empty one is falsy: see the boundary in Example configured_forms), the caller's has no ':' *)
Theorem C16_configured_root : forall s,
  setup_ok s -> spec_root (configure s) = os_resolve (designated_dir s).
Proof. exact configured_root. Qed.
Print Assumptions C16_configured_root.

(* well-formedness of what was written carries over to the instance, so every theorem above applies to it *)
Theorem C16_configured_wf : forall s, wf_setup s -> wf (configure s).
Proof. exact configured_wf. Qed.
Print Assumptions C16_configured_wf.

(* every path handed to the file system (find_resource_path's exists, isdir, getsize, open) lies at or below the
   directory the application designated, in whatever form it was written and whichever way the view was created *)
Theorem C16_containment_configured : forall s fs rqs,
  wf_setup s -> is_dir (walk fs [] (os_resolve (designated_dir s))) = true ->
  Forall (fun rl => forallb (fun e => beneath (os_resolve (designated_dir s)) (snd e)) (snd rl) = true)
         (run_model (configure s) fs rqs).
Proof. exact containment_configured. Qed.
Print Assumptions C16_containment_configured.

(* the specification the correspondence run judges with (root := designated directory) is the specification of the
   instance the code builds *)
Theorem C16_spec_configured : forall s rq fs,
  setup_ok s -> spec_response (configure s) rq fs = spec_response (spec_config s) rq fs.
Proof. exact spec_configured. Qed.
Print Assumptions C16_spec_configured.

(* end to end: configuration as written -> instance -> every answer of every request sequence conforms to the
   specification whose root is the designated directory *)
Theorem C16_serves_designated_configured : forall s fs rqs,
  wf_setup s -> is_dir (walk fs [] (os_resolve (designated_dir s))) = true -> host_ok (s_base s) ->
  Forall (decodable (s_base s)) rqs ->
  Forall (fun x => conforms (fst (snd x)) (spec_response (spec_config s) (fst x) fs) = true)
         (combine rqs (run_model (configure s) fs rqs)).
Proof. exact serves_designated_configured. Qed.
Print Assumptions C16_serves_designated_configured.

(* ------------------------------------------------------------ the regenerated program ------------------------------
   Gen/Facts_C16_gen.v is re-translated from src/pyramid/static.py on every run (harness/c16/translate.py: control
   flow mechanically, leaves through a primitive table).  The regenerated functions equal the hand-written model: *)
Require Import Verif.Lib.Utf8 Verif.Model.C16_prims Verif.Gen.Facts_C16_gen Verif.Proofs.C16_gen.

(* traversal.split_path_info, translated from src/pyramid/traversal.py: equal to the model's splitter (parametrised over the
   regenerated literals) and to Lib/PathNorm.split_path_info, which the specification and every theorem above use *)
Theorem C16_gen_split_path_info_is_model : forall p,
  gen_split_path_info p = split_path_info_f p /\ gen_split_path_info p = split_path_info p.
Proof. exact gen_split_path_info_both. Qed.
Print Assumptions C16_gen_split_path_info_is_model.

Theorem C16_gen_contains_invalid_is_model : forall item, gen_contains_invalid item = contains_invalid_char item.
Proof. exact gen_contains_invalid_is_model. Qed.
Print Assumptions C16_gen_contains_invalid_is_model.

Theorem C16_gen_secure_path_is_model : forall t, gen_secure_path t = secure_path t.
Proof. exact gen_secure_path_is_model. Qed.
Print Assumptions C16_gen_secure_path_is_model.

(* add_slash_redirect: UnicodeDecodeError for an undecodable PATH_INFO, else 301 to path_url + '/' (+ '?' + query string) *)
Theorem C16_gen_add_slash_redirect_is_model : forall c rq pi fm,
  gen_add_slash_redirect c rq pi fm =
  match path_url c pi with
  | None => ((Raise (RExc 2), fm), [])
  | Some u => ((Val (redirect rq u), fm), [])
  end.
Proof. exact gen_add_slash_redirect_is_model. Qed.
Print Assumptions C16_gen_add_slash_redirect_is_model.

(* _compile_content_encodings over mimetypes.encodings_map (an oracle input): encoding -> [extensions], insertion ordered *)
Theorem C16_gen_compile_content_encodings_is_model : forall encmap encs,
  gen_compile_content_encodings encmap encs = compile_encodings encs encmap.
Proof. exact gen_compile_content_encodings_is_model. Qed.
Print Assumptions C16_gen_compile_content_encodings_is_model.

(* the configuration-time functions [configure] is built from, translated from asset.py, config/__init__.py and (the
   statements of StaticURLInfo.add that normalise the spec) config/views.py *)
Theorem C16_gen_resolve_asset_spec_is_model : forall spec pname,
  gen_resolve_asset_spec spec pname = resolve_asset_spec spec pname.
Proof. exact gen_resolve_asset_spec_is_model. Qed.
Print Assumptions C16_gen_resolve_asset_spec_is_model.

Theorem C16_gen_make_spec_is_model : forall cfg_pkg path, gen_make_spec cfg_pkg path = make_spec path cfg_pkg.
Proof. exact gen_make_spec_is_model. Qed.
Print Assumptions C16_gen_make_spec_is_model.

Theorem C16_gen_static_add_spec_is_model : forall spec, gen_static_add_spec spec = static_add_spec spec.
Proof. exact gen_static_add_spec_is_model. Qed.
Print Assumptions C16_gen_static_add_spec_is_model.

(* static_view.__init__ (attribute stores collected into a record; every attribute bound exactly once on every path) *)
Theorem C16_gen_init_is_model : forall encmap caller root_dir package_name use_subpath index reload encs,
  gen_init encmap caller root_dir package_name use_subpath index reload encs =
  init_model encmap caller root_dir package_name use_subpath index reload encs.
Proof. exact gen_init_is_model. Qed.
Print Assumptions C16_gen_init_is_model.

Theorem C16_gen_init_spec : forall encmap caller root_dir package_name use_subpath index reload encs,
  let v := gen_init encmap caller root_dir package_name use_subpath index reload encs in
  (v_package_name v, v_docroot v) = init_root root_dir package_name caller /\
  v_norm_docroot v = normpath (v_docroot v) /\ v_use_subpath v = use_subpath /\ v_index v = index /\
  v_reload v = reload /\ v_encodings v = compile_encodings encs encmap /\ v_filemap v = [].
Proof. exact gen_init_spec. Qed.
Print Assumptions C16_gen_init_spec.

Theorem C16_gen_find_resource_path_is_model : forall c fs n fm,
  gen_find_resource_path c fs n fm = ((Val (frp_value c fs n), fm), [(0, os_path c n)]).
Proof. exact gen_find_resource_path_is_model. Qed.
Print Assumptions C16_gen_find_resource_path_is_model.

Theorem C16_gen_get_resource_name_is_model : forall c rq pi fs sub fm,
  gen_get_resource_name c rq pi fs true sub fm = wrap_rn (get_resource_name c rq pi fs sub) fm /\
  gen_get_resource_name c rq pi fs false sub fm =
    match view_tuple pi with
    | Datatypes.inl r => ((Raise r, fm), [])
    | Datatypes.inr t => wrap_rn (get_resource_name c rq pi fs t) fm
    end.
Proof. intros. split; [apply gen_get_resource_name_subpath|apply gen_get_resource_name_path_info]. Qed.
Print Assumptions C16_gen_get_resource_name_is_model.

Theorem C16_gen_get_possible_files_is_model : forall c fs name fm,
  gen_get_possible_files c fs name fm =
  ((Val (fst (fst (possible_files c fs fm name))), snd (fst (possible_files c fs fm name))),
   snd (possible_files c fs fm name)).
Proof. exact gen_get_possible_files_is_model. Qed.
Print Assumptions C16_gen_get_possible_files_is_model.

Theorem C16_gen_find_best_match_is_model : forall rq files,
  gen_find_best_match rq files = bm_pair (best_match rq files).
Proof. exact gen_find_best_match_is_model. Qed.
Print Assumptions C16_gen_find_best_match_is_model.

(* __call__: value or raised response, filemap afterwards and trace are those of the model's [serve] *)
Theorem C16_gen_call_is_model : forall c rq pi fs sub fm,
  gen_call c rq pi fs true sub fm = rewrap (serve c rq pi fs fm sub) /\
  gen_call c rq pi fs false sub fm =
    match view_tuple pi with
    | Datatypes.inl r => ((Raise r, fm), [])
    | Datatypes.inr t => rewrap (serve c rq pi fs fm t)
    end.
Proof. intros. split; [apply gen_call_subpath_eq|apply gen_call_path_info_eq]. Qed.
Print Assumptions C16_gen_call_is_model.

(* ... and the property theorems hold of the regenerated program itself *)
Theorem C16_gen_secure_path_spec : forall t p,
  gen_secure_path t = Some p <->
  Forall (fun s => s <> [] /\ s <> [dot] /\ s <> [dot; dot] /\ ~ In slash s /\ ~ In 0 s) t /\ p = join [slash] t.
Proof. exact gen_secure_path_spec. Qed.
Print Assumptions C16_gen_secure_path_spec.

Theorem C16_gen_call_contained : forall c rq pi fs b sub fm,
  wf c -> root_is_dir c fs -> fm_ok c fm ->
  contained c (snd (gen_call c rq pi fs b sub fm)) = true /\ fm_ok c (snd (fst (gen_call c rq pi fs b sub fm))).
Proof. exact gen_call_contained. Qed.
Print Assumptions C16_gen_call_contained.

Theorem C16_gen_call_conform : forall c rq pi fs sub fm s t b,
  wf c -> root_is_dir c fs -> host_ok c -> fm_exact c fs fm -> decode pi = Some s ->
  gen_tuple b pi sub = Some t ->
  conforms (out_resp (fst (fst (gen_call c rq pi fs b sub fm))))
           (if forallb seg_ok t then spec_tail c rq fs (Some s) t else S404) = true /\
  fm_exact c fs (snd (fst (gen_call c rq pi fs b sub fm))).
Proof. exact gen_call_conform. Qed.
Print Assumptions C16_gen_call_conform.

Theorem C16_gen_call_transparent : forall c rq pi fs b sub fm,
  fm_exact c fs fm ->
  out_resp (fst (fst (gen_call c rq pi fs b sub fm))) = out_resp (fst (fst (gen_call c rq pi fs b sub []))).
Proof. exact gen_call_transparent. Qed.
Print Assumptions C16_gen_call_transparent.

(* ------------------------------------------------------------ proof-only round: end to end for the regenerated program ----
   [created_view s encmap us]: the instance the REGENERATED constructor builds from what was written -- gen_init directly,
   or for add_static_view gen_make_spec, gen_static_add_spec and then gen_init called by pyramid.config;
   [view_config]: the configuration the request functions read off its attributes. *)
Require Import Verif.Proofs.C16_d.

(* the regenerated constructor yields exactly the instance [configure] describes, for every form of spec and both ways
   of creating the view *)
Theorem C16_created_view_config : forall s encmap us, view_config s (created_view s encmap us) = configure s.
Proof. exact created_view_config. Qed.
Print Assumptions C16_created_view_config.

(* configuration as written -> gen_init -> gen_call (gen_get_resource_name, gen_get_possible_files, gen_find_resource_path,
   gen_find_best_match): every os.stat / open of one call, for any request, either way of obtaining the path tuple and any
   filemap history that respects the root, is at or below the DESIGNATED directory; the filemap keeps respecting it *)
Theorem C16_gen_end_to_end_contained : forall s fs encmap us rq pi b sub fm,
  wf_setup s -> is_dir (walk fs [] (os_resolve (designated_dir s))) = true ->
  let c := view_config s (created_view s encmap us) in
  fm_ok c fm ->
  forallb (fun e => beneath (os_resolve (designated_dir s)) (snd e)) (snd (gen_call c rq pi fs b sub fm)) = true /\
  fm_ok c (snd (fst (gen_call c rq pi fs b sub fm))).
Proof. exact gen_end_to_end_contained. Qed.
Print Assumptions C16_gen_end_to_end_contained.

(* X-VHM-ROOT starting with the bare view selector '@@' on a route mounting (the specification is silent about which
   file that designates): the request is answered as request.subpath = rest of the virtual root, and every access
   stays at or below the root *)
Theorem C16_vroot_override_contained : forall c fs fm rq t,
  wf c -> root_is_dir c fs -> fm_ok c fm -> vroot_gate c = Datatypes.inr (GOverride t) ->
  contained c (snd (run_request c fs fm rq)) = true /\ fm_ok c (snd (fst (run_request c fs fm rq))).
Proof. exact vroot_override_contained. Qed.
Print Assumptions C16_vroot_override_contained.

Theorem C16_vroot_override_serves : forall c fs fm rq t p0,
  routed_by_route (c_mount c) = true -> Utf8.decode (Percent.unquote (r_raw rq)) = Some p0 ->
  vroot_gate c = Datatypes.inr (GOverride t) -> route_matches c p0 = true ->
  run_request c fs fm rq = serve c rq (Percent.unquote (r_raw rq)) fs fm t.
Proof. exact vroot_override_serves. Qed.
Print Assumptions C16_vroot_override_serves.

(* ... and conformance end to end for the regenerated program: the answer of the regenerated __call__ on the instance the
   regenerated constructor built conforms to the specification whose root is the designated directory *)
Theorem C16_gen_end_to_end_conform : forall s fs encmap us rq pi b sub fm p t,
  wf_setup s -> is_dir (walk fs [] (os_resolve (designated_dir s))) = true -> host_ok (s_base s) ->
  let c := view_config s (created_view s encmap us) in
  fm_exact c fs fm -> Utf8.decode pi = Some p -> gen_tuple b pi sub = Some t ->
  conforms (out_resp (fst (fst (gen_call c rq pi fs b sub fm))))
           (if forallb seg_ok t then spec_tail (spec_config s) rq fs (Some p) t else S404) = true /\
  fm_exact c fs (snd (fst (gen_call c rq pi fs b sub fm))).
Proof. exact gen_end_to_end_conform. Qed.
Print Assumptions C16_gen_end_to_end_conform.

(* ------------------------------------------------------------ third proof-only round: the served variant, regenerated program *)
Require Import Verif.Proofs.C16_e.

(* every 200 answer of one call of the regenerated __call__ -- any configuration, either way of obtaining the path tuple,
   whatever the filemap has cached from this file system -- is the content of an existing file p, labelled with p's
   encoding, acceptable to the client of this request, and no acceptable existing candidate is smaller *)
Theorem C16_gen_call_variant_ok : forall c rq pi fs b sub fm,
  fm_exact c fs fm ->
  forall body enc vary, out_resp (fst (fst (gen_call c rq pi fs b sub fm))) = R200 body enc vary ->
  exists name p,
    let keyed := fst (sizes fs (fst (probe c fs (candidates c name)))) in
    spec_acceptable rq enc = true /\
    (exists sz, fs_stat fs p = Some (EFile sz body)) /\
    exists k, In (k, (p, enc)) keyed /\ k = entry_size (fs_stat fs p) /\
      forall k' f', In (k', f') keyed -> spec_acceptable rq (snd f') = true -> k <= k'.
Proof. exact gen_call_variant_ok. Qed.
Print Assumptions C16_gen_call_variant_ok.

(* ... from the configuration as written: written configuration -> gen_init -> gen_call; no hypothesis on what was written *)
Theorem C16_gen_end_to_end_variant : forall s fs encmap us rq pi b sub fm,
  let c := view_config s (created_view s encmap us) in
  fm_exact c fs fm ->
  forall body enc vary, out_resp (fst (fst (gen_call c rq pi fs b sub fm))) = R200 body enc vary ->
  exists name p,
    let keyed := fst (sizes fs (fst (probe c fs (candidates c name)))) in
    spec_acceptable rq enc = true /\
    (exists sz, fs_stat fs p = Some (EFile sz body)) /\
    exists k, In (k, (p, enc)) keyed /\ k = entry_size (fs_stat fs p) /\
      forall k' f', In (k', f') keyed -> spec_acceptable rq (snd f') = true -> k <= k'.
Proof. exact gen_end_to_end_variant. Qed.
Print Assumptions C16_gen_end_to_end_variant.
