(* C15 -- property theorems only.  The programs [lookup_prog] / [register_prog] are the instruction
   lists translated from the Python source on this run (Gen/Facts_C15.v); every theorem quantifies
   over all resolution-order oracles [sro], all initial registrations [R0] and ALL traces (any number
   of threads, any number of steps, any interleaving; every instruction atomic).
   The system is also parametric in the contents of the cache key ([key_mode], regenerated fact
   [cache_key_mode]): the theorems below are for [KeyFull] (the key contains the view classifier); for
   [KeyTriad] see C15_lookup_fresh_ordinary_only_partial / C15_lookup_fresh_KeyTriad_refuted at the end,
   and C15_lookup_fresh_current(_refuted) for which of them applies to the tree at hand. *)
From Coq Require Import List NArith Bool.
Import ListNotations.
Require Import Verif.Lib.Wire Verif.Lib.C15Prog Verif.Lib.C15Init Verif.Gen.Facts_C15 Verif.Model.C15 Verif.Proofs.C15.
Require Import Verif.Proofs.C15_sched Verif.Proofs.C15_lock Verif.Proofs.C15_hist.

(* the translated programs are the ones the development is about (parameters: write through the
   local, [if views:] guard present, cache cleared by swapping in a new dictionary after registering) *)
Theorem C15_facts_programs :
  lookup_prog = std_lookup Local true /\ register_prog = std_register Swap /\
  register_prog_fallback = register_prog.
Proof. exact (conj facts_lookup_prog (conj facts_register_prog facts_register_prog_fallback)). Qed.
Print Assumptions C15_facts_programs.

(* cache_inv: whenever no registration is between its two instructions, every entry of the current
   cache equals lookup_all of the registrations and is non-empty, and every in-flight lookup that
   holds the current dictionary has partial results consistent with the registrations *)
Theorem C15_cache_inv : forall sro R0 tr,
  let st := exec sro KeyFull lookup_prog register_prog tr (init R0) in
  quietb st = true ->
  (forall k vs, dget (heap st (cur st)) k = Some vs -> vs = lookup_all sro (R st) k /\ vs <> []) /\
  (forall i t vs, threads st i = Some t -> tkind t = KLookup -> cont t <> [] ->
                  tc t = Some (cur st) -> tviews t = Some vs ->
                  exists dn, dn ++ pending sro (tkey t) (cont t) = slots_of sro (tkey t) /\
                             vs = lookup_over (R st) dn).
Proof. exact cache_inv. Qed.
Print Assumptions C15_cache_inv.

(* lookup_fresh: a lookup that starts when no registration is in progress, and during which the
   registrations do not change, returns lookup_all of the registrations in force -- whatever happened
   before (tr1: identical or different lookups, cold or warm cache, lookups still in flight) and
   whatever other threads do meanwhile (tr2) *)
Theorem C15_lookup_fresh : forall sro R0 tr1 k tr2,
  let st1 := exec sro KeyFull lookup_prog register_prog tr1 (init R0) in
  let st2 := exec sro KeyFull lookup_prog register_prog (SpawnLookup k :: tr2) st1 in
  quietb st1 = true ->
  reg_free sro KeyFull lookup_prog register_prog st1 (SpawnLookup k :: tr2) = true ->
  exists t, threads st2 (ntid st1) = Some t /\ tkind t = KLookup /\ tkey t = k /\
            (cont t = [] -> tres t = Some (lookup_all sro (R st1) k)).
Proof. exact lookup_fresh. Qed.
Print Assumptions C15_lookup_fresh.

(* no_stale_after_register: thread i registers [tups ti] (first instruction), anything that does not
   register happens -- lookups may be in progress across the registration -- and once no registration
   is in progress (so i has cleared the cache) every lookup that starts sees the NEW registrations *)
Theorem C15_no_stale_after_register : forall sro R0 tr0 i ti trm k tr2,
  let st0 := exec sro KeyFull lookup_prog register_prog tr0 (init R0) in
  let st1 := exec sro KeyFull lookup_prog register_prog (Step i :: trm) st0 in
  let st2 := exec sro KeyFull lookup_prog register_prog (SpawnLookup k :: tr2) st1 in
  threads st0 i = Some ti -> tkind ti = KRegister -> cont ti = register_prog ->
  reg_free sro KeyFull lookup_prog register_prog (do_label sro KeyFull lookup_prog register_prog st0 (Step i)) trm = true ->
  quietb st1 = true ->
  reg_free sro KeyFull lookup_prog register_prog st1 (SpawnLookup k :: tr2) = true ->
  exists t, threads st2 (ntid st1) = Some t /\ tkind t = KLookup /\ tkey t = k /\
            (cont t = [] -> tres t = Some (lookup_all sro (rapply (tups ti) (R st0)) k)).
Proof. exact no_stale_after_register. Qed.
Print Assumptions C15_no_stale_after_register.

(* misses_not_cached: no dictionary ever holds an empty answer, and when no registration is in
   progress a key whose lookup finds nothing is absent from the current cache *)
Theorem C15_misses_not_cached : forall sro R0 tr,
  let st := exec sro KeyFull lookup_prog register_prog tr (init R0) in
  (forall c k vs, dget (heap st c) k = Some vs -> vs <> []) /\
  (quietb st = true -> forall k, lookup_all sro (R st) k = [] -> dget (heap st (cur st)) k = None).
Proof. exact misses_not_cached. Qed.
Print Assumptions C15_misses_not_cached.

(* concurrent_equals_sequential: registrations fixed, any number of lookup threads interleaved in any
   way: every finished lookup returned lookup_all of its key, which is the answer of every
   single-threaded run of the same lookup *)
Theorem C15_concurrent_equals_sequential : forall sro R0 tr j t,
  reg_free sro KeyFull lookup_prog register_prog (init R0) tr = true ->
  threads (exec sro KeyFull lookup_prog register_prog tr (init R0)) j = Some t -> tkind t = KLookup -> cont t = [] ->
  tres t = Some (lookup_all sro R0 (tkey t)) /\
  forall n t0,
    threads (exec sro KeyFull lookup_prog register_prog (SpawnLookup (tkey t) :: repeat (Step 0) n) (init R0)) 0 = Some t0 ->
    cont t0 = [] -> tres t = tres t0.
Proof. exact concurrent_equals_sequential. Qed.
Print Assumptions C15_concurrent_equals_sequential.

(* the executable expectation with which the harness judges the implementation is sound: whenever it
   constrains lookup j, the lookup of the model returns exactly that *)
Theorem C15_expect_sound : forall sro R0 tr j vs t,
  expect sro KeyFull lookup_prog register_prog (init R0) tr (fun _ => None) j = Some vs ->
  threads (exec sro KeyFull lookup_prog register_prog tr (init R0)) j = Some t -> cont t = [] ->
  tkind t = KLookup /\ tres t = Some vs.
Proof. exact expect_sound. Qed.
Print Assumptions C15_expect_sound.

(* requests (_call_view): the candidate list is only read (regenerated fact), so a request whose lookup
   the expectation constrains is answered by the first accepting candidate of lookup_all -- independent
   of which requests were served before *)
Theorem C15_request_answer_sound : forall sro R0 tr j vs t tbl,
  expect sro KeyFull lookup_prog register_prog (init R0) tr (fun _ => None) j = Some vs ->
  threads (exec sro KeyFull lookup_prog register_prog tr (init R0)) j = Some t -> cont t = [] ->
  call_view_reads_only = true /\ multiview_stateless = true /\
  request_answer tbl (tres t) = Some (first_answer tbl vs).
Proof. exact (fun sro R0 tr j vs t tbl He Ht Hc =>
               conj facts_call_view_reads_only
                    (conj facts_multiview_stateless (request_answer_sound sro R0 tr j vs t tbl He Ht Hc))). Qed.
Print Assumptions C15_request_answer_sound.

(* the wire glue is covered: the state reported by the scheduler of nested schedules is [exec] of the
   label trace it reports (any programs, any nested schedule, any fuel) *)
Theorem C15_sched_sound : forall sro km LP RP fuel ops st0,
  let s := run_ops sro km LP RP fuel ops (st0, [], []) in
  sstate s = exec sro km LP RP (rev (strace s)) st0.
Proof. exact sched_sound. Qed.
Print Assumptions C15_sched_sound.

(* the lock: at most one thread is between Lock and Unlock, and it is the holder *)
Theorem C15_lock_mutual_exclusion : forall sro R0 tr i j ti tj,
  let st := exec sro KeyFull lookup_prog register_prog tr (init R0) in
  threads st i = Some ti -> threads st j = Some tj ->
  in_critical ti = true -> in_critical tj = true -> i = j /\ lock st = Some i.
Proof. exact mutual_exclusion. Qed.
Print Assumptions C15_lock_mutual_exclusion.

(* the holder releases the lock within two of its own steps, after which every thread waiting at Lock
   is enabled *)
Theorem C15_lock_holder_releases : forall sro R0 tr i,
  let st := exec sro KeyFull lookup_prog register_prog tr (init R0) in
  lock st = Some i ->
  lock (exec sro KeyFull lookup_prog register_prog [Step i; Step i] st) = None /\
  forall j tj rest, threads st j = Some tj -> cont tj = Lock :: rest ->
                    enabled (exec sro KeyFull lookup_prog register_prog [Step i; Step i] st) j = true.
Proof. exact holder_releases. Qed.
Print Assumptions C15_lock_holder_releases.

(* no deadlock: in every reachable state with an unfinished thread some thread is enabled, and its
   step executes an instruction *)
Theorem C15_no_deadlock : forall sro R0 tr j,
  let st := exec sro KeyFull lookup_prog register_prog tr (init R0) in
  unfinished st j = true ->
  exists i t t', enabled st i = true /\ threads st i = Some t /\
                 threads (do_label sro KeyFull lookup_prog register_prog st (Step i)) i = Some t' /\
                 tpc t' = S (tpc t).
Proof. exact no_deadlock. Qed.
Print Assumptions C15_no_deadlock.

(* what the lock is needed for: nothing, as far as this property goes.  Without the lock, and even when
   [cache[key] = views] is split into a read of the dictionary and a write-back (read-modify-write, so
   that concurrent writers can lose each other's entry -- Example lost_update_is_only_a_miss), lookups
   are still fresh and misses are still never cached, over all traces.  (Removing the lock in the source
   is therefore benign for C15; the check reports it as a broken tie without a failing input.) *)
Theorem C15_lookup_fresh_without_lock :
  fresh_claim KeyFull (lookup_with wb_nolock) register_prog /\
  fresh_claim KeyFull (lookup_with wb_nolock_split) register_prog.
Proof. exact (conj lookup_fresh_nolock lookup_fresh_nolock_split). Qed.
Print Assumptions C15_lookup_fresh_without_lock.

Theorem C15_misses_not_cached_without_lock :
  misses_claim KeyFull (lookup_with wb_nolock) register_prog /\
  misses_claim KeyFull (lookup_with wb_nolock_split) register_prog.
Proof. exact (conj misses_not_cached_nolock misses_not_cached_nolock_split). Qed.
Print Assumptions C15_misses_not_cached_without_lock.

(* every other value of the program parameters is refuted by a concrete schedule (also replayed on
   the implementation by the violation search) *)
Theorem C15_lookup_fresh_Reread_refuted : ~ fresh_claim KeyFull (std_lookup Reread true) (std_register Swap).
Proof. exact lookup_fresh_Reread_refuted. Qed.
Print Assumptions C15_lookup_fresh_Reread_refuted.

Theorem C15_lookup_fresh_InPlace_refuted : ~ fresh_claim KeyFull (std_lookup Local true) (std_register InPlace).
Proof. exact lookup_fresh_InPlace_refuted. Qed.
Print Assumptions C15_lookup_fresh_InPlace_refuted.

Theorem C15_lookup_fresh_NoClear_refuted : ~ fresh_claim KeyFull (std_lookup Local true) [RegisterAdapter].
Proof. exact lookup_fresh_NoClear_refuted. Qed.
Print Assumptions C15_lookup_fresh_NoClear_refuted.

Theorem C15_lookup_fresh_ClearFirst_refuted : ~ fresh_claim KeyFull (std_lookup Local true) [Clear Swap; RegisterAdapter].
Proof. exact lookup_fresh_ClearFirst_refuted. Qed.
Print Assumptions C15_lookup_fresh_ClearFirst_refuted.

Theorem C15_misses_not_cached_Unguarded_refuted : ~ misses_claim KeyFull (std_lookup Local false) (std_register Swap).
Proof. exact misses_not_cached_Unguarded_refuted. Qed.
Print Assumptions C15_misses_not_cached_Unguarded_refuted.

(* ---- the cache key and the view classifier ----
   full statement: fresh_claim cache_key_mode lookup_prog register_prog.  It holds iff the key contains
   the classifier: *)
Theorem C15_lookup_fresh_current :
  cache_key_mode = KeyFull -> fresh_claim cache_key_mode lookup_prog register_prog.
Proof. exact lookup_fresh_current. Qed.
Print Assumptions C15_lookup_fresh_current.

Theorem C15_lookup_fresh_current_refuted :
  cache_key_mode = KeyTriad -> ~ fresh_claim cache_key_mode lookup_prog register_prog.
Proof. exact lookup_fresh_current_refuted. Qed.
Print Assumptions C15_lookup_fresh_current_refuted.

(* with the key (request_iface, context_iface, view_name): an exception-view lookup and an ordinary
   lookup of the same triad share one entry -- refuted by a concrete history (only an exception view is
   registered; exception lookup, then ordinary lookup: answered with the exception view) *)
Theorem C15_lookup_fresh_KeyTriad_refuted : ~ fresh_claim KeyTriad (std_lookup Local true) (std_register Swap).
Proof. exact lookup_fresh_KeyTriad_refuted. Qed.
Print Assumptions C15_lookup_fresh_KeyTriad_refuted.

(* ... and what remains true with that key: histories in which every lookup is an ordinary one *)
Theorem C15_lookup_fresh_ordinary_only_partial : forall sro R0 tr1 k tr2,
  ordinary_only (tr1 ++ SpawnLookup k :: tr2) = true ->
  let st1 := exec sro KeyTriad lookup_prog register_prog tr1 (init R0) in
  let st2 := exec sro KeyTriad lookup_prog register_prog (SpawnLookup k :: tr2) st1 in
  quietb st1 = true ->
  reg_free sro KeyTriad lookup_prog register_prog st1 (SpawnLookup k :: tr2) = true ->
  exists t, threads st2 (ntid st1) = Some t /\ tkind t = KLookup /\ tkey t = k /\
            (cont t = [] -> tres t = Some (lookup_all sro (R st1) k)).
Proof. exact lookup_fresh_ordinary_only_partial. Qed.
Print Assumptions C15_lookup_fresh_ordinary_only_partial.

(* ---- the remaining theorems without the lock (both lock-free bodies of [if views:]) ---- *)
Theorem C15_no_stale_after_register_without_lock :
  no_stale_claim KeyFull (lookup_with wb_nolock) register_prog /\
  no_stale_claim KeyFull (lookup_with wb_nolock_split) register_prog.
Proof. exact (conj (no_stale_any _ HwbN) (no_stale_any _ HwbS)). Qed.
Print Assumptions C15_no_stale_after_register_without_lock.

Theorem C15_concurrent_equals_sequential_without_lock :
  concurrent_claim KeyFull (lookup_with wb_nolock) register_prog /\
  concurrent_claim KeyFull (lookup_with wb_nolock_split) register_prog.
Proof. exact (conj (concurrent_any _ HwbN) (concurrent_any _ HwbS)). Qed.
Print Assumptions C15_concurrent_equals_sequential_without_lock.

Theorem C15_expect_sound_without_lock :
  expect_claim KeyFull (lookup_with wb_nolock) register_prog /\
  expect_claim KeyFull (lookup_with wb_nolock_split) register_prog.
Proof. exact (conj (expect_any _ HwbN) (expect_any _ HwbS)). Qed.
Print Assumptions C15_expect_sound_without_lock.

(* ---- re-initialisation of a live registry (Registry.__init__ run again: pyramid.testing.tearDown) ----
   [init_prog] is translated from Registry.__init__ on this run.  Histories are label traces separated by
   re-initialisations made in idle states (no lookup or registration in flight). *)
Theorem C15_facts_init_router :
  init_prog_ok init_prog = true /\ router_resets_iface = true /\ router_sets_route_iface = true.
Proof. exact (conj facts_init_prog facts_router_iface). Qed.
Print Assumptions C15_facts_init_router.

(* lookup_fresh along histories: whatever happened before -- including any number of re-initialisations of
   the registry after lookups were served -- a lookup that starts when no registration is in progress
   returns lookup_all of the registrations in force *)
Theorem C15_hist_lookup_fresh : forall sro R0 hs k tr2,
  reinit_idle sro KeyFull lookup_prog register_prog init_prog hs (init R0) = true ->
  let st1 := hexec sro KeyFull lookup_prog register_prog init_prog hs (init R0) in
  let st2 := exec sro KeyFull lookup_prog register_prog (SpawnLookup k :: tr2) st1 in
  quietb st1 = true ->
  reg_free sro KeyFull lookup_prog register_prog st1 (SpawnLookup k :: tr2) = true ->
  exists t, threads st2 (ntid st1) = Some t /\ tkind t = KLookup /\ tkey t = k /\
            (cont t = [] -> tres t = Some (lookup_all sro (R st1) k)).
Proof. exact hist_lookup_fresh. Qed.
Print Assumptions C15_hist_lookup_fresh.

(* ... and for EVERY init program that clears the cache and drops the registrations, in whichever order
   (harmless rewrites of Registry.__init__ keep the theorem) *)
Theorem C15_hist_lookup_fresh_any_order : forall IP, init_prog_ok IP = true ->
  hist_fresh_claim KeyFull lookup_prog register_prog IP.
Proof. exact hist_lookup_fresh_any_order. Qed.
Print Assumptions C15_hist_lookup_fresh_any_order.

(* right after a re-initialisation nothing is registered, the current cache is empty and every lookup
   finds nothing -- whichever lookups were served (and cached) before *)
Theorem C15_reinit_forgets : forall sro R0 hs k tr2,
  reinit_idle sro KeyFull lookup_prog register_prog init_prog (hs ++ [HReinit]) (init R0) = true ->
  let st1 := hexec sro KeyFull lookup_prog register_prog init_prog (hs ++ [HReinit]) (init R0) in
  let st2 := exec sro KeyFull lookup_prog register_prog (SpawnLookup k :: tr2) st1 in
  R st1 = [] /\ heap st1 (cur st1) = [] /\
  (reg_free sro KeyFull lookup_prog register_prog st1 (SpawnLookup k :: tr2) = true ->
   exists t, threads st2 (ntid st1) = Some t /\ tkind t = KLookup /\ tkey t = k /\
             (cont t = [] -> tres t = Some [])).
Proof. exact reinit_forgets. Qed.
Print Assumptions C15_reinit_forgets.

(* cache_inv / misses_not_cached along histories *)
Theorem C15_hist_cache : forall sro R0 hs,
  reinit_idle sro KeyFull lookup_prog register_prog init_prog hs (init R0) = true ->
  let st := hexec sro KeyFull lookup_prog register_prog init_prog hs (init R0) in
  (forall c k vs, dget (heap st c) k = Some vs -> vs <> []) /\
  (quietb st = true -> forall k,
      (forall vs, dget (heap st (cur st)) k = Some vs -> vs = lookup_all sro (R st) k) /\
      (lookup_all sro (R st) k = [] -> dget (heap st (cur st)) k = None)).
Proof. exact hist_cache. Qed.
Print Assumptions C15_hist_cache.

(* the expectation the harness judges histories with (hexpect) is sound *)
Theorem C15_hist_expect_sound : forall sro R0 hs j vs t,
  reinit_idle sro KeyFull lookup_prog register_prog init_prog hs (init R0) = true ->
  hexpect sro KeyFull lookup_prog register_prog init_prog (init R0) hs (fun _ => None) j = Some vs ->
  threads (hexec sro KeyFull lookup_prog register_prog init_prog hs (init R0)) j = Some t -> cont t = [] ->
  tkind t = KLookup /\ tres t = Some vs.
Proof. exact hist_expect_sound. Qed.
Print Assumptions C15_hist_expect_sound.

(* the wire glue for histories: the state reported is hexec of the history reported *)
Theorem C15_tops_sound : forall sro km LP RP IP fuel ts st0,
  let '(st', hs', _) := run_tops sro km LP RP IP fuel ts (st0, [], []) in
  st' = hexec sro km LP RP IP (rev hs') st0.
Proof. exact tops_sound. Qed.
Print Assumptions C15_tops_sound.

(* an init program that keeps the cache (lock creation AND clear skipped on a live registry) is refuted *)
Theorem C15_hist_fresh_NoClear_refuted :
  ~ hist_fresh_claim KeyFull (std_lookup Local true) (std_register Swap) [IResetAdapters].
Proof. exact hist_fresh_NoClear_refuted. Qed.
Print Assumptions C15_hist_fresh_NoClear_refuted.

(* ---- the request type a Router dispatch looks views up with (Router.handle_request, facts
   router_resets_iface / router_sets_route_iface) ----
   it is a function of the route that matches NOW, whatever earlier dispatches left on the request object *)
Theorem C15_dispatch_history_free : forall ms m,
  dispatch_last router_resets_iface router_sets_route_iface (ms ++ [m]) = fresh_iface m.
Proof. exact dispatch_last_history_free. Qed.
Print Assumptions C15_dispatch_history_free.

Theorem C15_dispatch_NoReset_refuted : ~ (forall prev m, dispatch_iface false true prev m = fresh_iface m).
Proof. exact dispatch_NoReset_refuted. Qed.
Print Assumptions C15_dispatch_NoReset_refuted.

(* end to end: the lookup made by the last dispatch of any chain of dispatches of ONE request object, after
   any history, returns lookup_all of the key a brand-new request for the same URL is looked up with *)
Theorem C15_redispatch_fresh : forall sro R0 hs cl cx nm ms m tr2,
  reinit_idle sro KeyFull lookup_prog register_prog init_prog hs (init R0) = true ->
  let st1 := hexec sro KeyFull lookup_prog register_prog init_prog hs (init R0) in
  let k := (cl, dispatch_last router_resets_iface router_sets_route_iface (ms ++ [m]), cx, nm) in
  let st2 := exec sro KeyFull lookup_prog register_prog (SpawnLookup k :: tr2) st1 in
  quietb st1 = true ->
  reg_free sro KeyFull lookup_prog register_prog st1 (SpawnLookup k :: tr2) = true ->
  exists t, threads st2 (ntid st1) = Some t /\ tkind t = KLookup /\
            (cont t = [] -> tres t = Some (lookup_all sro (R st1) (cl, fresh_iface m, cx, nm))).
Proof. exact redispatch_fresh. Qed.
Print Assumptions C15_redispatch_fresh.

(* ---- _call_view: generated = model ----
   [gen_call_view] is the Gallina function translated from pyramid.view._call_view on this run (the loop over
   the candidate list, the try/except PredicateMismatch, what is returned / re-raised afterwards); what ONE
   candidate does with the request is the oracle [call].  It equals the reference model, hence the request is
   answered by the first candidate of the list that does not raise PredicateMismatch *)
Theorem C15_gen_call_view_is_model : forall call vs, gen_call_view call vs = model_call_view call vs false.
Proof. exact gen_call_view_is_model. Qed.
Print Assumptions C15_gen_call_view_is_model.

Theorem C15_call_view_first_answer : forall tbl vs,
  outcome_view (gen_call_view (call_of tbl) vs) = first_answer tbl vs.
Proof. exact call_view_first_answer. Qed.
Print Assumptions C15_call_view_first_answer.

(* ---- round 6 ---- *)
(* a commit on the live registry that fails midway: the view actions [acts] executed before the action that
   raised stay in force; each of them is the whole register program (registration AND cache clear in ONE
   action), so after any history -- warm cache or not -- every lookup that starts afterwards sees exactly the
   registrations of the executed actions.  (A clear scheduled as a separate, later action of the commit would
   be dropped by the failure: that program is [RegisterAdapter] alone, refuted by C15_lookup_fresh_NoClear_refuted.) *)
Theorem C15_partial_commit_fresh : forall sro R0 hs acts k tr2,
  reinit_idle sro KeyFull lookup_prog register_prog init_prog hs (init R0) = true ->
  let st0 := hexec sro KeyFull lookup_prog register_prog init_prog hs (init R0) in
  let st1 := exec sro KeyFull lookup_prog register_prog (commit_trace (ntid st0) acts) st0 in
  let st2 := exec sro KeyFull lookup_prog register_prog (SpawnLookup k :: tr2) st1 in
  quietb st0 = true ->
  reg_free sro KeyFull lookup_prog register_prog st1 (SpawnLookup k :: tr2) = true ->
  exists t, threads st2 (ntid st1) = Some t /\ tkind t = KLookup /\ tkey t = k /\
            (cont t = [] -> tres t = Some (lookup_all sro (commit_R acts (R st0)) k)).
Proof. exact partial_commit_fresh. Qed.
Print Assumptions C15_partial_commit_fresh.

(* every theorem takes the resolution orders as a fixed oracle; the regenerated fact says nothing in src/pyramid
   rewrites them, and the refutation says why that matters: rewrite the resolution order of an interface that
   sits in a warm cache key (no clear) and the next lookup is stale *)
Theorem C15_facts_spec_orders_immutable : spec_orders_immutable = true.
Proof. exact facts_spec_orders_immutable. Qed.
Print Assumptions C15_facts_spec_orders_immutable.

Theorem C15_sro_change_refuted : ~ sro_change_claim (std_lookup Local true) (std_register Swap).
Proof. exact sro_change_refuted. Qed.
Print Assumptions C15_sro_change_refuted.

(* ordinary and exception-view lookups (request.invoke_exception_view: request_iface.combined) of a request object
   after any chain of dispatches: the key is the one of a brand-new request for the last URL *)
Theorem C15_redispatch_lookup_fresh : forall sro R0 hs cl cx nm ms m tr2,
  reinit_idle sro KeyFull lookup_prog register_prog init_prog hs (init R0) = true ->
  let st1 := hexec sro KeyFull lookup_prog register_prog init_prog hs (init R0) in
  let k := (cl, lookup_iface cl (dispatch_last router_resets_iface router_sets_route_iface (ms ++ [m])), cx, nm) in
  let st2 := exec sro KeyFull lookup_prog register_prog (SpawnLookup k :: tr2) st1 in
  quietb st1 = true ->
  reg_free sro KeyFull lookup_prog register_prog st1 (SpawnLookup k :: tr2) = true ->
  exists t, threads st2 (ntid st1) = Some t /\ tkind t = KLookup /\
            (cont t = [] -> tres t = Some (lookup_all sro (R st1) (cl, lookup_iface cl (fresh_iface m), cx, nm))).
Proof. exact redispatch_lookup_fresh. Qed.
Print Assumptions C15_redispatch_lookup_fresh.

(* ---- round 7 ---- *)
(* regenerated from ViewMethodsMixin.invoke_exception_view and add_route.register_route_request_iface (both were
   shape pins): exception views are looked up with the COMBINED interface of the request's own request type
   (C15_redispatch_lookup_fresh is about this key), and a route's request interface is created exactly once *)
Theorem C15_facts_excview_route : excview_uses_combined = true /\ route_iface_created_once = true.
Proof. exact facts_excview_route. Qed.
Print Assumptions C15_facts_excview_route.

Theorem C15_lookup_iface_spec : forall cl rq,
  lookup_iface cl rq = if N.eqb cl 1 then combined_iface rq else rq.
Proof. exact lookup_iface_spec. Qed.
Print Assumptions C15_lookup_iface_spec.

(* a re-initialisation interleaved with a lookup (outside the property's quantifier): with the order of
   Registry.__init__ -- cache cleared first, registrations dropped afterwards -- a lookup running between the two
   steps leaves a stale entry; this is why histories re-initialise in idle states only (Example
   reinit_interleaved_reset_first: the other order is safe on the same schedule) *)
Theorem C15_reinit_interleaved_refuted :
  ~ reinit_interleaved_claim (std_lookup Local true) (std_register Swap) [INewLock; IClear Swap; IResetAdapters].
Proof. exact reinit_interleaved_refuted. Qed.
Print Assumptions C15_reinit_interleaved_refuted.

(* ---- last round ---- *)
Theorem C15_facts_excview_forward_clear :
  add_exception_view_forwards = true /\ clear_mode_registry = Swap /\ clear_mode_fallback = Swap.
Proof. exact facts_excview_forward_clear. Qed.
Print Assumptions C15_facts_excview_forward_clear.

(* ---- proof-only round ---- *)
Require Import Verif.Proofs.C15_safe.

(* the positive counterpart of C15_reinit_interleaved_refuted: for EVERY init program whose last instruction is
   the cache clear (whatever precedes it), split at ANY point, with ANY trace of lookups and registrations
   running at the split point, after ANY history that ends idle with an empty current cache: once every thread
   has finished, every lookup that starts is fresh *)
Theorem C15_reinit_interleaved_safe_order : forall body m sro R0 hs pre post trm k tr2,
  reinit_idle sro KeyFull lookup_prog register_prog init_prog hs (init R0) = true ->
  let stH := hexec sro KeyFull lookup_prog register_prog init_prog hs (init R0) in
  idleb stH = true -> heap stH (cur stH) = [] ->
  pre ++ post = body ++ [IClear m] ->
  let st0 := reinit pre stH in
  let st1 := reinit post (exec sro KeyFull lookup_prog register_prog trm st0) in
  idleb st1 = true ->
  let st2 := exec sro KeyFull lookup_prog register_prog (SpawnLookup k :: tr2) st1 in
  reg_free sro KeyFull lookup_prog register_prog st1 (SpawnLookup k :: tr2) = true ->
  exists t, threads st2 (ntid st1) = Some t /\ tkind t = KLookup /\ tkey t = k /\
            (cont t = [] -> tres t = Some (lookup_all sro (R st1) k)).
Proof. exact reinit_interleaved_safe_order. Qed.
Print Assumptions C15_reinit_interleaved_safe_order.

(* composition of C15_reinit_forgets and C15_partial_commit_fresh, without a quietness hypothesis: after any
   history the registry is re-initialised and a commit fails midway -- later lookups see exactly the executed
   view actions on an EMPTY registry *)
Theorem C15_reinit_then_commit_fresh : forall sro R0 hs acts k tr2,
  reinit_idle sro KeyFull lookup_prog register_prog init_prog (hs ++ [HReinit]) (init R0) = true ->
  let st0 := hexec sro KeyFull lookup_prog register_prog init_prog (hs ++ [HReinit]) (init R0) in
  let st1 := exec sro KeyFull lookup_prog register_prog (commit_trace (ntid st0) acts) st0 in
  let st2 := exec sro KeyFull lookup_prog register_prog (SpawnLookup k :: tr2) st1 in
  reg_free sro KeyFull lookup_prog register_prog st1 (SpawnLookup k :: tr2) = true ->
  exists t, threads st2 (ntid st1) = Some t /\ tkind t = KLookup /\ tkey t = k /\
            (cont t = [] -> tres t = Some (lookup_all sro (commit_R acts []) k)).
Proof. exact reinit_then_commit_fresh. Qed.
Print Assumptions C15_reinit_then_commit_fresh.

(* ---- third proof-only round ---- *)
Require Import Verif.Proofs.C15_more.

(* requests along histories (traces separated by re-initialisations): whenever the expectation the harness judges
   with constrains the lookup of a request, the model -- running the function GENERATED from _call_view -- answers
   it with the first candidate of lookup_all that does not raise PredicateMismatch *)
Theorem C15_hist_request_answer_sound : forall sro R0 hs j vs t tbl,
  reinit_idle sro KeyFull lookup_prog register_prog init_prog hs (init R0) = true ->
  hexpect sro KeyFull lookup_prog register_prog init_prog (init R0) hs (fun _ => None) j = Some vs ->
  threads (hexec sro KeyFull lookup_prog register_prog init_prog hs (init R0)) j = Some t -> cont t = [] ->
  request_answer tbl (tres t) = Some (first_answer tbl vs).
Proof. exact hist_request_answer_sound. Qed.
Print Assumptions C15_hist_request_answer_sound.

(* lookup_fresh along histories with re-initialisations holds without the lock as well (both lock-free bodies) *)
Theorem C15_hist_lookup_fresh_without_lock :
  hist_fresh_claim KeyFull (lookup_with wb_nolock) register_prog init_prog /\
  hist_fresh_claim KeyFull (lookup_with wb_nolock_split) register_prog init_prog.
Proof. exact hist_lookup_fresh_nolock. Qed.
Print Assumptions C15_hist_lookup_fresh_without_lock.
