(* C15 -- property theorems only. *)
From Coq Require Import List NArith Bool.
Import ListNotations.
Require Import Verif.Lib.Wire Verif.Lib.C15Prog Verif.Gen.Facts_C15 Verif.Model.C15 Verif.Proofs.C15.

Theorem C15_facts_lookup_prog : lookup_prog = std_lookup Local true.
Proof. exact facts_lookup_prog. Qed.
Print Assumptions C15_facts_lookup_prog.
