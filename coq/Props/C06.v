(* C06 -- property theorems only.  Each is closed by [exact] of a lemma proved in Proofs/C06.v;
   Print Assumptions beneath each.

   Vocabulary (Model/C06.v, Model/C01.v, Model/C17.v):
     [C01.pat]         a compiled route pattern (items = literals / placeholders with their language, star)
     [to_pattern p]    what _compile_route keeps of the same pattern for generation (C17's [pattern])
     [generate g kw]   Route.generate: the quoted path for the keyword dictionary kw
     [kw_caps p kw]    the texts the supplied values stand for, in placeholder order, remainder last
                       (str as is, bytes as UTF-8, other values stringified, a remainder sequence joined by '/')
     [C01.render]      the pattern's text with captures in place;  [C01.caps_ok]: every capture lies in
                       its placeholder's language (for a bare {name}: non-empty, no '/')
     [sep_val]         separability of the pattern for these values;  [separable]: for all values
     [match_back]      request.path_info (strict UTF-8 of PATH_INFO) matched by the route's compiled pattern
     [roundtrip]       generate, percent-decode as a WSGI server does, [match_back]
     [spec_dict]       the promised match dictionary, written down from the supplied values *)
From Coq Require Import List NArith ZArith Bool.
Import ListNotations.
Require Import Verif.Lib.Wire Verif.Lib.Text Verif.Lib.PathNorm Verif.Lib.Utf8 Verif.Lib.Percent.
Require Verif.Gen.Facts_C01 Verif.Model.C01 Verif.Proofs.C01.
Require Import Verif.Gen.Facts_C17 Verif.Model.C17 Verif.Proofs.C17.
Require Import Verif.Gen.Facts_C06 Verif.Model.C06 Verif.Proofs.C06 Verif.Proofs.C06_total Verif.Proofs.C06_ext.
Open Scope N_scope.

(* the regenerated literals are the ones the composition was written for: '%(name)s' slots for both
   kinds of placeholder, joined with '' and applied with '%', UTF-8 on the way out and on the way
   back, latin-1 PATH_INFO, one '/' before extra elements *)
Theorem C06_facts_ok : gen_sources_ok = true.
Proof. exact gen_sources_ok_true. Qed.
Print Assumptions C06_facts_ok.

(* the safe sets at the generator's call sites lie inside PATH_SAFE, which is ASCII and contains none of '%', '?', '#' *)
Theorem C06_safe_sets_ok :
  safe_sub compile_prefix_safe && safe_sub compile_literal_safe && safe_sub [47]
  && good_safe [47] && forallb (fun c => c <? 128) compile_value_safe
  && negb (memN 37 compile_value_safe) && negb (memN 63 compile_value_safe) && negb (memN 35 compile_value_safe) = true.
Proof. exact Facts_ok_safe_sets. Qed.
Print Assumptions C06_safe_sets_ok.

(* translation between the two halves of _compile_route: the text C17's generation pattern stands
   for under a keyword dictionary is C01's rendering of the matcher's pattern with the values' texts
   as captures (and it is defined exactly when every placeholder has a value that stands for a text) *)
Theorem C06_pattern_translation : forall p kw,
  gtext (to_pattern p) kw = olet caps := kw_caps p kw in Some (C01.render (C01.items p) caps).
Proof. exact gtext_to_pattern. Qed.
Print Assumptions C06_pattern_translation.

(* a generated path percent-decodes to the UTF-8 bytes of the pattern text with the values in
   place, and those bytes decode (strictly) to that text: what request.path_info will be *)
Theorem C06_generate_decodes : forall p kw u, generate (to_pattern p) kw = Ok u ->
  exists caps, kw_caps p kw = Some caps
    /\ forallb valid_scalar (C01.render (C01.items p) caps) = true
    /\ qform u (encode (C01.render (C01.items p) caps))
    /\ unquote u = encode (C01.render (C01.items p) caps)
    /\ Utf8.decode (unquote u) = Some (C01.render (C01.items p) caps).
Proof. exact generate_decodes. Qed.
Print Assumptions C06_generate_decodes.

(* generate_ascii: every character of a generated path is '%', an unreserved character or a member
   of PATH_SAFE; in particular it is ASCII and contains neither '?' nor '#' *)
Theorem C06_generate_ascii : forall g kw u, generate g kw = Ok u ->
  Forall gen_char u /\ Forall ascii u /\ ~ In 63 u /\ ~ In 35 u.
Proof. exact generate_ascii. Qed.
Print Assumptions C06_generate_ascii.

(* generate_keeps_literals: the decoded path contains the pattern's literal pieces, in order, as UTF-8 *)
Theorem C06_generate_keeps_literals : forall p kw u, generate (to_pattern p) kw = Ok u ->
  in_order (map encode (lits (C01.items p))) (unquote u).
Proof. exact generate_keeps_literals. Qed.
Print Assumptions C06_generate_keeps_literals.

(* under separability a path has one decomposition along the pattern only *)
Theorem C06_decomposition_unique : forall O st its caps caps',
  sep_val O st its caps = true -> C01.caps_ok O st its caps = true -> C01.caps_ok O st its caps' = true ->
  C01.render its caps = C01.render its caps' -> caps = caps'.
Proof. exact sep_val_unique. Qed.
Print Assumptions C06_decomposition_unique.

(* separators that can never occur in the preceding placeholder make the pattern separable for all admissible values *)
Theorem C06_separable_sufficient : forall O st its caps,
  separable O st its = true -> C01.caps_ok O st its caps = true -> sep_val O st its caps = true.
Proof. exact separable_sep_val. Qed.
Print Assumptions C06_separable_sufficient.

(* route_roundtrip_normalising: whatever the remainder value looks like, matching the decoded
   generated path returns the dictionary built from the values' texts: {name} -> text, remainder ->
   split_path_info of the joined text (C01's mandated normalisation: '', '.', '..' and embedded
   slashes do not survive) *)
Theorem C06_route_roundtrip_normalising : forall O p kw u caps,
  generate (to_pattern p) kw = Ok u -> u <> [] -> kw_caps p kw = Some caps ->
  C01.caps_ok O (C01.star p) (C01.items p) caps = true ->
  sep_val O (C01.star p) (C01.items p) caps = true ->
  match_back O p (unquote u) = Some (C01.mk_dict (C01.items p) (C01.star p) caps).
Proof. exact route_roundtrip_normalising. Qed.
Print Assumptions C06_route_roundtrip_normalising.

(* the declarative dictionary ([spec_dict]: written from the supplied values) is that dictionary *)
Theorem C06_spec_dict_is_captures : forall p kw caps, kw_caps p kw = Some caps ->
  spec_dict p kw = Some (C01.mk_dict (C01.items p) (C01.star p) caps).
Proof. exact spec_dict_mk. Qed.
Print Assumptions C06_spec_dict_is_captures.

(* route_roundtrip (central): for a separable pattern and admissible values, generating and
   matching again yields the stringified values *)
Theorem C06_route_roundtrip : forall O p kw u caps,
  generate (to_pattern p) kw = Ok u -> u <> [] -> kw_caps p kw = Some caps ->
  C01.caps_ok O (C01.star p) (C01.items p) caps = true ->
  sep_val O (C01.star p) (C01.items p) caps = true ->
  exists d, spec_dict p kw = Some d /\ roundtrip O p kw = Some d.
Proof. exact route_roundtrip. Qed.
Print Assumptions C06_route_roundtrip.

Theorem C06_route_roundtrip_separable : forall O p kw u caps,
  generate (to_pattern p) kw = Ok u -> u <> [] -> kw_caps p kw = Some caps ->
  C01.caps_ok O (C01.star p) (C01.items p) caps = true ->
  separable O (C01.star p) (C01.items p) = true ->
  exists d, spec_dict p kw = Some d /\ roundtrip O p kw = Some d.
Proof. exact route_roundtrip_separable. Qed.
Print Assumptions C06_route_roundtrip_separable.

(* a remainder given as a sequence of normal segments comes back as exactly that sequence ... *)
Theorem C06_remainder_normal_identity : forall l shown ts,
  map_opt spec_text l = Some ts -> Forall normal_seg ts -> star_segs (KSeq l shown) = Some ts.
Proof. exact star_segs_normal. Qed.
Print Assumptions C06_remainder_normal_identity.

(* ... and any other remainder value as split_path_info of the text it stands for *)
Theorem C06_remainder_normalised : forall v t, val_text true v = Some t -> star_segs v = Some (split_path_info t).
Proof. exact star_segs_normalising. Qed.
Print Assumptions C06_remainder_normalised.

(* generate_missing_key: a placeholder (or named remainder) without a value is a KeyError, as soon as
   the literals and the supplied values themselves can be quoted *)
Theorem C06_generate_missing_key : forall p kw n tpl d,
  In n (slot_names p) -> assoc n kw = None ->
  gen_template (to_pattern p) = Ok tpl -> build_newdict (to_pattern p) kw = Ok d ->
  generate (to_pattern p) kw = Err EKey.
Proof. exact generate_missing_key. Qed.
Print Assumptions C06_generate_missing_key.

Theorem C06_generate_ok_all_keys : forall p kw u n,
  generate (to_pattern p) kw = Ok u -> In n (slot_names p) -> assoc n kw <> None.
Proof. exact generate_ok_all_keys. Qed.
Print Assumptions C06_generate_ok_all_keys.

(* route_url_prefix: the route URL is scheme://authority followed by the route path (which carries
   the QUOTED script name: depends on the regenerated fact route_path_script_quoted) *)
Theorem C06_route_url_prefix : forall O ds e name els o kw u,
  o_app_url o = None -> route_url [] e (gen_routes O ds) name els o kw = Ok u ->
  exists p, route_path [] e (gen_routes O ds) name els o kw = Ok p /\ u = host_part e o ++ p.
Proof. exact route_url_prefix. Qed.
Print Assumptions C06_route_url_prefix.

(* the server cuts the mount point off exactly *)
Theorem C06_script_name_cut : forall e qs g,
  quoted_script_name e = Ok qs -> Forall ascii g ->
  wsgi_path_info (e_script e) (qs ++ g) = Some (unquote g).
Proof. exact script_name_cut. Qed.
Print Assumptions C06_script_name_cut.

(* the whole way back for route_path without extra elements: urlsplit's cut into path / query /
   fragment, SCRIPT_NAME / PATH_INFO, the route's matcher: the supplied values *)
Theorem C06_route_path_way_back : forall O p e rs n o kw P caps,
  Verif.Proofs.C17.wf_query (o_query o) -> Verif.Proofs.C17.wf_anchor (o_anchor o) ->
  assoc n rs = Some (to_pattern p) ->
  route_path [] e rs n [] o kw = Ok P ->
  kw_caps p kw = Some caps -> C01.render (C01.items p) caps <> [] ->
  C01.caps_ok O (C01.star p) (C01.items p) caps = true ->
  sep_val O (C01.star p) (C01.items p) caps = true ->
  exists base qt f pi,
    cut_ref P = (base, qt, f)
    /\ wsgi_path_info (e_script e) base = Some pi
    /\ match_back O p pi = Some (C01.mk_dict (C01.items p) (C01.star p) caps).
Proof. exact route_path_way_back. Qed.
Print Assumptions C06_route_path_way_back.

(* generation succeeds whenever the property speaks about the case: the pattern's literals are
   Unicode scalar values, every supplied value stands for a text, every placeholder has a value *)
Theorem C06_generate_succeeds : forall p kw caps,
  forallb (forallb valid_scalar) (lits (C01.items p)) = true ->
  wf_kw (C01.star p) kw = true -> kw_caps p kw = Some caps ->
  exists u, generate (to_pattern p) kw = Ok u.
Proof. exact Verif.Proofs.C06_total.generate_succeeds. Qed.
Print Assumptions C06_generate_succeeds.

(* ---------------------------------------------------------------- second part (Proofs/C06_ext.v) *)

(* every pattern that comes out of the parser starts with a literal beginning with '/' ... *)
Theorem C06_parsed_leading_slash : forall O dflt src p,
  C01.parse_core O dflt src = C01.Ok p -> exists l r, C01.items p = C01.Lit (47 :: l) :: r.
Proof. exact parse_core_leading_slash. Qed.
Print Assumptions C06_parsed_leading_slash.

(* ... so a generated path starts with a raw '/' (in particular it is not empty) *)
Theorem C06_generated_starts_with_slash : forall O dflt src p kw u,
  C01.parse_core O dflt src = C01.Ok p -> generate (to_pattern p) kw = Ok u -> exists u', u = 47 :: u'.
Proof. exact generated_starts_with_slash. Qed.
Print Assumptions C06_generated_starts_with_slash.

(* route_roundtrip for parsed patterns: no side condition on the generated path *)
Theorem C06_route_roundtrip_parsed : forall O dflt src p kw u caps,
  C01.parse_core O dflt src = C01.Ok p ->
  generate (to_pattern p) kw = Ok u -> kw_caps p kw = Some caps ->
  C01.caps_ok O (C01.star p) (C01.items p) caps = true ->
  sep_val O (C01.star p) (C01.items p) caps = true ->
  exists d, spec_dict p kw = Some d /\ roundtrip O p kw = Some d.
Proof. exact route_roundtrip_parsed. Qed.
Print Assumptions C06_route_roundtrip_parsed.

(* the text each form of value stands for: str itself, bytes decoded as ONE UTF-8 string, int / bool / float
   stringified, a remainder sequence element-wise and joined by '/', any other sequence stringified *)
Theorem C06_value_forms :
  (forall b t, val_text b (KScalar (PStr t)) = if forallb valid_scalar t then Some t else None)
  /\ (forall b bs, val_text b (KScalar (PBytes bs)) = Utf8.decode bs)
  /\ (forall b z, val_text b (KScalar (PInt z)) = Some (show_Z z))
  /\ (forall b k s, val_text b (KScalar (PNum k s)) = if forallb valid_scalar s then Some s else None)
  /\ (forall l shown, val_text true (KSeq l shown) = olet ts := map_opt spec_text l in Some (join [47] ts))
  /\ (forall l shown, val_text false (KSeq l shown) = if forallb valid_scalar shown then Some shown else None).
Proof. exact val_text_forms. Qed.
Print Assumptions C06_value_forms.

(* the round trip spelled out for each form of a whole remainder value *)
Theorem C06_route_roundtrip_remainder_forms : forall O p kw u caps r,
  generate (to_pattern p) kw = Ok u -> u <> [] -> kw_caps p kw = Some caps ->
  C01.caps_ok O (C01.star p) (C01.items p) caps = true ->
  sep_val O (C01.star p) (C01.items p) caps = true ->
  C01.star p = Some r -> r <> [] ->
  exists d, roundtrip O p kw = Some d
    /\ (forall t, assoc r kw = Some (KScalar (PStr t)) -> In (r, C01.MSegs (split_path_info t)) d)
    /\ (forall bs, assoc r kw = Some (KScalar (PBytes bs)) ->
          exists t, Utf8.decode bs = Some t /\ In (r, C01.MSegs (split_path_info t)) d)
    /\ (forall z, assoc r kw = Some (KScalar (PInt z)) -> In (r, C01.MSegs (split_path_info (show_Z z))) d)
    /\ (forall l shown, assoc r kw = Some (KSeq l shown) ->
          exists ts, map_opt spec_text l = Some ts
            /\ In (r, C01.MSegs (if forallb normal_segb ts then ts else split_path_info (join [47] ts))) d).
Proof. exact route_roundtrip_remainder_forms. Qed.
Print Assumptions C06_route_roundtrip_remainder_forms.

(* ... and for each form of a {name} value *)
Theorem C06_route_roundtrip_hole_forms : forall O p kw u caps n,
  generate (to_pattern p) kw = Ok u -> u <> [] -> kw_caps p kw = Some caps ->
  C01.caps_ok O (C01.star p) (C01.items p) caps = true ->
  sep_val O (C01.star p) (C01.items p) caps = true ->
  In n (C01.hole_names (C01.items p)) -> C01.star p <> Some n -> NoDup (C01.hole_names (C01.items p)) ->
  exists d t, roundtrip O p kw = Some d /\ cap_of (C01.star p) kw n = Some t /\ In (n, C01.MText t) d
    /\ (forall x, assoc n kw = Some (KScalar (PStr x)) -> t = x)
    /\ (forall bs, assoc n kw = Some (KScalar (PBytes bs)) -> Utf8.decode bs = Some t)
    /\ (forall z, assoc n kw = Some (KScalar (PInt z)) -> t = show_Z z).
Proof. exact route_roundtrip_hole_forms. Qed.
Print Assumptions C06_route_roundtrip_hole_forms.

(* every '%' of a generated path / of a route path starts a %HH escape (C17's pct_ok, reused) *)
Theorem C06_generate_pct : forall p kw u, generate (to_pattern p) kw = Ok u -> pct_ok u = true.
Proof. exact generate_pct_ok. Qed.
Print Assumptions C06_generate_pct.

Theorem C06_route_path_pct : forall c e rs n els o kw P,
  Verif.Proofs.C17.wf_query (o_query o) -> Verif.Proofs.C17.wf_anchor (o_anchor o) ->
  join_elements_c c els = join_elements els ->
  route_path c e rs n els o kw = Ok P -> pct_ok P = true.
Proof. exact route_path_pct. Qed.
Print Assumptions C06_route_path_pct.

(* extra positional elements (with or without a remainder): each is quoted on its own (decode_segments
   of the appended text gives the elements back one by one, so a '/' inside an element stays inside it),
   they follow the path after exactly one '/', and the server sees the pattern text with the values in
   place followed by the elements *)
Theorem C06_route_path_elements_decode : forall p e rs n els o kw P caps,
  Verif.Proofs.C17.wf_query (o_query o) -> Verif.Proofs.C17.wf_anchor (o_anchor o) ->
  assoc n rs = Some (to_pattern p) -> route_path [] e rs n els o kw = Ok P -> kw_caps p kw = Some caps ->
  exists ets base qt f pi,
    spec_elements els = Some ets
    /\ (els <> [] -> exists s, join_elements els = Ok s /\ decode_segments s = Some ets
                               /\ exists pre, base = pre ++ s /\ (endswith_char 47 pre = true \/ pre = []))
    /\ cut_ref P = (base, qt, f)
    /\ wsgi_path_info (e_script e) base = Some pi
    /\ Utf8.decode pi = Some (C01.render (C01.items p) caps ++ elements_suffix (C01.render (C01.items p) caps) ets).
Proof. exact route_path_elements_decode. Qed.
Print Assumptions C06_route_path_elements_decode.

(* with a remainder the elements extend it: the route matches its own URL to the dictionary built from
   the captures with the elements appended to the remainder's text *)
Theorem C06_route_path_elements_remainder : forall O dflt src p e rs n els o kw P hc st r ets,
  C01.parse_core O dflt src = C01.Ok p ->
  Verif.Proofs.C17.wf_query (o_query o) -> Verif.Proofs.C17.wf_anchor (o_anchor o) ->
  assoc n rs = Some (to_pattern p) -> route_path [] e rs n els o kw = Ok P ->
  C01.star p = Some r -> kw_caps p kw = Some (hc ++ [st]) -> length hc = length (C01.hole_names (C01.items p)) ->
  spec_elements els = Some ets ->
  let caps' := hc ++ [st ++ elements_suffix (C01.render (C01.items p) (hc ++ [st])) ets] in
  C01.caps_ok O (C01.star p) (C01.items p) caps' = true -> sep_val O (C01.star p) (C01.items p) caps' = true ->
  exists base qt f pi,
    cut_ref P = (base, qt, f) /\ wsgi_path_info (e_script e) base = Some pi
    /\ match_back O p pi = Some (C01.mk_dict (C01.items p) (C01.star p) caps').
Proof. exact route_path_elements_remainder. Qed.
Print Assumptions C06_route_path_elements_remainder.

(* urlsplit of scheme://netloc<rest> *)
Theorem C06_url_split_authority : forall sch netloc rest,
  scheme_ok sch = true -> forallb netloc_char netloc = true ->
  (rest = [] \/ exists r, rest = 47 :: r) -> forallb clean rest = true ->
  url_split (sch ++ [58; 47; 47] ++ netloc ++ rest) =
  Ok (mkSplit (map lower sch) netloc (fst (fst (cut_ref rest))) (snd (fst (cut_ref rest))) (snd (cut_ref rest))).
Proof. exact url_split_authority. Qed.
Print Assumptions C06_url_split_authority.

(* route_url end to end: urlsplit finds scheme and netloc, its path component leads the server to
   PATH_INFO, the route matches PATH_INFO to the supplied values *)
Theorem C06_route_url_way_back : forall O dflt src p e rs n o kw U caps sch netloc,
  C01.parse_core O dflt src = C01.Ok p ->
  Verif.Proofs.C17.wf_query (o_query o) -> Verif.Proofs.C17.wf_anchor (o_anchor o) ->
  o_app_url o = None ->
  host_part e o = sch ++ [58; 47; 47] ++ netloc -> scheme_ok sch = true -> forallb netloc_char netloc = true ->
  (e_script e = [] \/ exists s, e_script e = 47 :: s) ->
  assoc n rs = Some (to_pattern p) -> route_url [] e rs n [] o kw = Ok U ->
  kw_caps p kw = Some caps ->
  C01.caps_ok O (C01.star p) (C01.items p) caps = true ->
  sep_val O (C01.star p) (C01.items p) caps = true ->
  exists s pi, url_split U = Ok s /\ u_scheme s = map lower sch /\ u_netloc s = netloc
    /\ wsgi_path_info (e_script e) (u_path s) = Some pi
    /\ match_back O p pi = Some (C01.mk_dict (C01.items p) (C01.star p) caps).
Proof. exact route_url_way_back. Qed.
Print Assumptions C06_route_url_way_back.

(* ---------------------------------------------------------------- histories (Proofs/C06_hist.v) *)
Require Import Verif.Proofs.C06_hist.

(* regenerated fact: quote_path_segment stringifies the segment before the cache lookup and stores under that key *)
Theorem C06_segment_key_stringified : segment_key_stringified = true.
Proof. exact Facts_ok_segment_key. Qed.
Print Assumptions C06_segment_key_stringified.

(* one call against any sound cache ([sound]: every entry was computed for its own stringified key) *)
Theorem C06_generate_cache_transparent : forall c g kw, sound c ->
  exists c', generate_ck true c g kw = (generate g kw, c') /\ sound c'.
Proof. exact generate_cache_transparent. Qed.
Print Assumptions C06_generate_cache_transparent.

(* generation is history-independent: in any sequence of generations in one process, starting from an
   empty cache, every call is answered exactly as if it were the only one *)
Theorem C06_generation_history_independent : forall g calls,
  history_ck segment_key_stringified [] g calls = map (generate g) calls.
Proof. exact generation_history_independent. Qed.
Print Assumptions C06_generation_history_independent.

(* with the cache keyed on the raw segment the statement is false: rest=(1,) then rest=(True,) *)
Theorem C06_raw_key_history_refuted : history_ck false [] hist_pat hist_calls <> map (generate hist_pat) hist_calls.
Proof. exact raw_key_history_refuted. Qed.
Print Assumptions C06_raw_key_history_refuted.

(* ---------------------------------------------------------------- histories on one request object (Proofs/C06_req.v) *)
Require Import Verif.Proofs.C06_req.

(* regenerated fact: no function on the way of URL generation writes to the request *)
Theorem C06_request_state_not_written : request_state_written = false.
Proof. exact Facts_ok_request_state. Qed.
Print Assumptions C06_request_state_not_written.

(* any history of SCRIPT_NAME changes, path_info_pop calls and generations on one request object, whatever the
   element cache [c] holds from earlier generations in the process: every generation answers with route_url /
   route_path of the environ as it is at that step *)
Theorem C06_request_generation_stateless : forall e rs target script pinfo memo c steps,
  run_req request_state_written e rs target (mkRS script pinfo memo) c steps = spec_req e rs target script pinfo steps.
Proof. exact request_generation_stateless. Qed.
Print Assumptions C06_request_generation_stateless.

(* ... and there route_url = scheme://authority ++ route_path for the CURRENT SCRIPT_NAME *)
Theorem C06_request_history_prefix : forall e rs target steps script pinfo s u p,
  In (s, (Ok u, p)) (spec_req e rs target script pinfo steps) ->
  (forall els o kw, In (RGen els o kw) steps -> o_app_url o = None) ->
  exists els o kw P, In (RGen els o kw) steps /\ p = Ok P /\ u = host_part (env_with e s) o ++ P.
Proof. exact request_history_prefix. Qed.
Print Assumptions C06_request_history_prefix.

(* a quoted script name kept on the request refutes it: '/x' under '/a', SCRIPT_NAME := '/b', again *)
Theorem C06_request_memo_refuted :
  run_req true req_env [([114], req_pat)] [114] (mkRS [47; 97] [] None) [] req_steps
  <> spec_req req_env [([114], req_pat)] [114] [47; 97] [] req_steps.
Proof. exact request_memo_refuted. Qed.
Print Assumptions C06_request_memo_refuted.

(* ---------------------------------------------------------------- placeholders outside the modelled sublanguage (Proofs/C06_open.v) *)
Require Import Verif.Proofs.C06_open.

(* what the executable open specification promises when it names a dictionary: the pattern read with its
   regexes set aside, every supplied value in its placeholder's language (for a regex: the oracle table says
   re.fullmatch), the supplied values the ONLY way of cutting the decoded path along the pattern (every
   alternative refuted by the table; an unknown answer counts as "may match"), and the dictionary built from them *)
Theorem C06_open_spec_meaning : forall O tbl ds target e els o kw path d sel,
  spec_route_open O tbl ds target e els o kw = SRoute path (Some d) sel ->
  exists src p regs caps,
    find_src target ds = Some src /\ parse_open O src = C01.Ok (p, regs) /\ kw_caps p kw = Some caps
    /\ path = C01.render (C01.items p) caps
    /\ caps_in (map (lang_must O tbl) regs) (C01.star p) (C01.items p) caps = true
    /\ all_decs_open (map (lang_may O tbl) regs) (C01.star p) (C01.items p) path = [caps]
    /\ d = C01.mk_dict (C01.items p) (C01.star p) caps.
Proof. exact spec_route_open_meaning. Qed.
Print Assumptions C06_open_spec_meaning.

(* where C01 reads a pattern, the open reading finds the same literals, names and remainder *)
Theorem C06_open_parse_agrees : forall O d src p, C01.parse_core O (Some d) src = C01.Ok p ->
  exists regs, parse_open O src = C01.Ok (erase_pat p, regs).
Proof. exact parse_open_agrees. Qed.
Print Assumptions C06_open_parse_agrees.

(* with truthful languages the open enumeration of decompositions is C01's declarative one *)
Theorem C06_open_enumeration_faithful : forall O st its langs s,
  Forall2 same_lang langs (hole_langs O its) ->
  all_decs_open langs st its s = C01.all_decs O st its s.
Proof. exact all_decs_open_faithful. Qed.
Print Assumptions C06_open_enumeration_faithful.

(* for a modelled pattern the open specification's hypothesis is enough: when the supplied values are the only
   way of cutting the path, the compiled pattern finds exactly them (and they lie in the placeholders' languages) *)
Theorem C06_only_way_match : forall O p caps,
  only_way (hole_langs O (C01.items p)) (C01.star p) (C01.items p) caps = true ->
  C01.match_pat O p (C01.render (C01.items p) caps) = Some (C01.mk_dict (C01.items p) (C01.star p) caps)
  /\ C01.caps_ok O (C01.star p) (C01.items p) caps = true.
Proof. exact only_way_match. Qed.
Print Assumptions C06_only_way_match.

(* the round trip under the weakest hypothesis: no separability condition, only "no other way" *)
Theorem C06_route_roundtrip_only_way : forall O p kw u caps,
  generate (to_pattern p) kw = Ok u -> u <> [] -> kw_caps p kw = Some caps ->
  only_way (hole_langs O (C01.items p)) (C01.star p) (C01.items p) caps = true ->
  exists d, spec_dict p kw = Some d /\ roundtrip O p kw = Some d.
Proof. exact route_roundtrip_only_way. Qed.
Print Assumptions C06_route_roundtrip_only_way.

(* ---------------------------------------------------------------- remainder followed by extra elements (Proofs/C06_b.v) *)
Require Import Verif.Proofs.C06_b.

(* text level: normal segments joined by '/', then the suffix route_url appends for normal extra elements
   (one '/' unless what stands before already ends with one), split again: the segments followed by the elements *)
Theorem C06_remainder_with_elements_normal : forall pre ts ets,
  Forall normal_seg ts -> Forall normal_seg ets ->
  split_path_info (join [47] ts ++ elements_suffix (pre ++ join [47] ts) ets) = ts ++ ets.
Proof. exact remainder_with_elements_normal. Qed.
Print Assumptions C06_remainder_with_elements_normal.

(* end to end: a remainder supplied as a sequence of normal segments, normal extra elements: the route matches
   its own route_path and the remainder comes back as the supplied segments followed by the elements *)
Theorem C06_route_path_remainder_then_elements : forall O dflt src p e rs n els o kw P hc r ets l shown ts,
  C01.parse_core O dflt src = C01.Ok p ->
  Verif.Proofs.C17.wf_query (o_query o) -> Verif.Proofs.C17.wf_anchor (o_anchor o) ->
  assoc n rs = Some (to_pattern p) -> route_path [] e rs n els o kw = Ok P ->
  C01.star p = Some r -> kw_caps p kw = Some (hc ++ [join [47] ts]) ->
  length hc = length (C01.hole_names (C01.items p)) ->
  assoc r kw = Some (KSeq l shown) -> map_opt spec_text l = Some ts ->
  Forall normal_seg ts -> spec_elements els = Some ets -> Forall normal_seg ets ->
  let caps' := hc ++ [join [47] ts ++ elements_suffix (C01.render (C01.items p) (hc ++ [join [47] ts])) ets] in
  C01.caps_ok O (C01.star p) (C01.items p) caps' = true -> sep_val O (C01.star p) (C01.items p) caps' = true ->
  exists base qt f pi d,
    cut_ref P = (base, qt, f) /\ wsgi_path_info (e_script e) base = Some pi
    /\ match_back O p pi = Some d /\ In (r, C01.MSegs (ts ++ ets)) d.
Proof. exact route_path_remainder_then_elements. Qed.
Print Assumptions C06_route_path_remainder_then_elements.

(* ---------------------------------------------------------------- the generator closure translated from the source (Proofs/C06_gen.v) *)
Require Import Verif.Gen.Code_C06 Verif.Proofs.C06_gen.

(* one iteration of the translated loop `for k, v in dict.items()` = one step of the reference model: quote the
   value (bytes decoded, the remainder's sequence element-wise, anything else stringified), store it, go on *)
Theorem C06_gen_body_is_model : forall sf star x acc K c,
  gen_generator_body sf star x acc K c = step_model sf star x acc K c.
Proof. exact gen_body_is_model. Qed.
Print Assumptions C06_gen_body_is_model.

(* generated = model for the whole closure (loop + `gen % newdict`), for every cache state *)
Theorem C06_gen_generator_is_model : forall sf star tpl kw c,
  gen_generator sf star tpl kw c = generator_model sf star tpl kw c.
Proof. exact gen_generator_is_model. Qed.
Print Assumptions C06_gen_generator_is_model.

(* the reference closure is what the cache-threaded Route.generate of the property theorems runs *)
Theorem C06_generate_ck_closure : forall sf c g kw,
  generate_ck sf c g kw =
  match gen_template g with
  | Err e => (Err e, c)
  | Ok tpl => generator_model sf (p_star g) tpl kw c
  end.
Proof. exact generate_ck_closure. Qed.
Print Assumptions C06_generate_ck_closure.

(* the extracted runner answers the history stream with the translated program; it answers as the reference runner *)
Theorem C06_run_generated_is_model : forall o d calls,
  run_hist gen_generator o d calls = run_hist generator_model o d calls.
Proof. exact run_generated_is_model. Qed.
Print Assumptions C06_run_generated_is_model.

(* history independence for the translated program: any sequence of generations from an empty cache *)
Theorem C06_generated_history_independent : forall g calls,
  history_g (gen_generator segment_key_stringified) [] g calls = map (generate g) calls.
Proof. exact generated_history_independent. Qed.
Print Assumptions C06_generated_history_independent.

(* ---------------------------------------------------------------- separability implies "no other way" (Proofs/C06_uniq.v) *)
Require Import Verif.Proofs.C06_uniq.

(* under separability and admissible captures the declarative enumeration of the rendered path is exactly [caps] *)
Theorem C06_sep_val_all_decs : forall O st its caps,
  sep_val O st its caps = true -> C01.caps_ok O st its caps = true ->
  C01.all_decs O st its (C01.render its caps) = [caps].
Proof. exact sep_val_all_decs. Qed.
Print Assumptions C06_sep_val_all_decs.

(* ... so [only_way], the hypothesis of the open specification and of C06_route_roundtrip_only_way, is the weaker
   one (Example only_way_weaker: two adjacent placeholders [a-z]+ and \d+, never separable, path /a1 has one way only) *)
Theorem C06_sep_val_only_way : forall O p caps,
  sep_val O (C01.star p) (C01.items p) caps = true ->
  C01.caps_ok O (C01.star p) (C01.items p) caps = true ->
  only_way (hole_langs O (C01.items p)) (C01.star p) (C01.items p) caps = true.
Proof. exact sep_val_only_way. Qed.
Print Assumptions C06_sep_val_only_way.

(* ---------------------------------------------------------------- the host_url form (Proofs/C06_host.v) *)
Require Import Verif.Proofs.C06_host.

(* webob's host_url is scheme://netloc with a clean netloc whenever HTTP_HOST / SERVER_NAME / SERVER_PORT are clean *)
Theorem C06_webob_host_url_form : forall e,
  match e_http_host e with Some h => forallb netloc_char h | None => true end = true ->
  forallb netloc_char (e_server_name e) = true -> forallb netloc_char (e_server_port e) = true ->
  exists netloc, webob_host_url e = e_scheme e ++ [58; 47; 47] ++ netloc /\ forallb netloc_char netloc = true.
Proof. exact webob_host_url_form. Qed.
Print Assumptions C06_webob_host_url_form.

(* route_url end to end with the host form proved instead of assumed (no _scheme/_host/_port/_app_url overrides) *)
Theorem C06_route_url_way_back_env : forall O dflt src p e rs n o kw U caps,
  C01.parse_core O dflt src = C01.Ok p ->
  Verif.Proofs.C17.wf_query (o_query o) -> Verif.Proofs.C17.wf_anchor (o_anchor o) ->
  o_app_url o = None -> o_scheme o = None -> o_host o = None -> o_port o = None ->
  scheme_ok (e_scheme e) = true ->
  match e_http_host e with Some h => forallb netloc_char h | None => true end = true ->
  forallb netloc_char (e_server_name e) = true -> forallb netloc_char (e_server_port e) = true ->
  (e_script e = [] \/ exists s, e_script e = 47 :: s) ->
  assoc n rs = Some (to_pattern p) -> route_url [] e rs n [] o kw = Ok U ->
  kw_caps p kw = Some caps ->
  C01.caps_ok O (C01.star p) (C01.items p) caps = true ->
  sep_val O (C01.star p) (C01.items p) caps = true ->
  exists s pi, url_split U = Ok s /\ u_scheme s = map lower (e_scheme e)
    /\ wsgi_path_info (e_script e) (u_path s) = Some pi
    /\ match_back O p pi = Some (C01.mk_dict (C01.items p) (C01.star p) caps).
Proof. exact route_url_way_back_env. Qed.
Print Assumptions C06_route_url_way_back_env.

(* ---------------------------------------------------------------- extra elements without a remainder (Proofs/C06_nomatch.v) *)
Require Import Verif.Proofs.C06_nomatch.

(* no placeholder class contains '/': the route does not match the text its own admissible values give when
   anything containing a '/' is appended (every matched path has exactly the slashes of the literals) *)
Theorem C06_no_match_with_slash_suffix : forall O its caps sfx,
  slash_free O its = true -> C01.caps_ok O None its caps = true -> In 47 sfx ->
  C01.match_pat O (C01.mkPat its None) (C01.render its caps ++ sfx) = None.
Proof. exact no_match_with_slash_suffix. Qed.
Print Assumptions C06_no_match_with_slash_suffix.

(* no remainder, '/'-free placeholder classes, rendered path not ending in '/', at least one extra element:
   the decoded path route_url / route_path produce is NOT matched by the route (Example elements_no_match_example:
   /a/{x} + 'e' -> /a/v/e unmatched; with {x:.+} the same path is matched as x = 'v/e') *)
Theorem C06_elements_without_remainder_no_match : forall O its caps ets,
  slash_free O its = true -> C01.caps_ok O None its caps = true -> ets <> [] ->
  endswith_char 47 (C01.render its caps) = false ->
  C01.match_pat O (C01.mkPat its None)
    (C01.render its caps ++ elements_suffix (C01.render its caps) ets) = None.
Proof. exact elements_without_remainder_no_match. Qed.
Print Assumptions C06_elements_without_remainder_no_match.
