(* C06 -- property theorems only.  Each is closed by [exact] of a lemma proved in Proofs/C06.v;
   Print Assumptions beneath each.

   Vocabulary (Model/C06.v, Model/C01.v, Model/C17.v):
     [C01.pat]         a compiled route pattern (items = literals / placeholders with their language, star)
     [to_pattern p]    what _compile_route keeps of the same pattern for generation (C17's [pattern])
     [generate g kw]   Route.generate: the quoted path for the keyword dictionary kw
     [kw_caps p kw]    the texts the supplied values stand for, in placeholder order, remainder last
                       (str as is, bytes as UTF-8, other values stringified, a remainder sequence joined by '/')
     [C01.render]      the pattern's text with captures in place;  [C01.caps_ok]: every capture lies in
                       its placeholder's language (for a bare {name}: non-empty, no '/')
     [sep_val]         separability of the pattern for these values;  [separable]: for all values
     [match_back]      request.path_info (strict UTF-8 of PATH_INFO) matched by the route's compiled pattern
     [roundtrip]       generate, percent-decode as a WSGI server does, [match_back]
     [spec_dict]       the promised match dictionary, written down from the supplied values *)
From Coq Require Import List NArith ZArith Bool.
Import ListNotations.
Require Import Verif.Lib.Wire Verif.Lib.Text Verif.Lib.PathNorm Verif.Lib.Utf8 Verif.Lib.Percent.
Require Verif.Gen.Facts_C01 Verif.Model.C01 Verif.Proofs.C01.
Require Import Verif.Gen.Facts_C17 Verif.Model.C17 Verif.Proofs.C17.
Require Import Verif.Gen.Facts_C06 Verif.Model.C06 Verif.Proofs.C06 Verif.Proofs.C06_total.
Open Scope N_scope.

(* the regenerated literals are the ones the composition was written for: '%(name)s' slots for both
   kinds of placeholder, joined with '' and applied with '%', UTF-8 on the way out and on the way
   back, latin-1 PATH_INFO, one '/' before extra elements *)
Theorem C06_facts_ok : gen_sources_ok = true.
Proof. exact gen_sources_ok_true. Qed.
Print Assumptions C06_facts_ok.

(* the safe sets at the generator's call sites lie inside PATH_SAFE, which is ASCII and contains none of '%', '?', '#' *)
Theorem C06_safe_sets_ok :
  safe_sub compile_prefix_safe && safe_sub compile_literal_safe && safe_sub [47]
  && good_safe [47] && forallb (fun c => c <? 128) compile_value_safe
  && negb (memN 37 compile_value_safe) && negb (memN 63 compile_value_safe) && negb (memN 35 compile_value_safe) = true.
Proof. exact Facts_ok_safe_sets. Qed.
Print Assumptions C06_safe_sets_ok.

(* translation between the two halves of _compile_route: the text C17's generation pattern stands
   for under a keyword dictionary is C01's rendering of the matcher's pattern with the values' texts
   as captures (and it is defined exactly when every placeholder has a value that stands for a text) *)
Theorem C06_pattern_translation : forall p kw,
  gtext (to_pattern p) kw = olet caps := kw_caps p kw in Some (C01.render (C01.items p) caps).
Proof. exact gtext_to_pattern. Qed.
Print Assumptions C06_pattern_translation.

(* a generated path percent-decodes to the UTF-8 bytes of the pattern text with the values in
   place, and those bytes decode (strictly) to that text: what request.path_info will be *)
Theorem C06_generate_decodes : forall p kw u, generate (to_pattern p) kw = Ok u ->
  exists caps, kw_caps p kw = Some caps
    /\ forallb valid_scalar (C01.render (C01.items p) caps) = true
    /\ qform u (encode (C01.render (C01.items p) caps))
    /\ unquote u = encode (C01.render (C01.items p) caps)
    /\ Utf8.decode (unquote u) = Some (C01.render (C01.items p) caps).
Proof. exact generate_decodes. Qed.
Print Assumptions C06_generate_decodes.

(* generate_ascii: every character of a generated path is '%', an unreserved character or a member
   of PATH_SAFE; in particular it is ASCII and contains neither '?' nor '#' *)
Theorem C06_generate_ascii : forall g kw u, generate g kw = Ok u ->
  Forall gen_char u /\ Forall ascii u /\ ~ In 63 u /\ ~ In 35 u.
Proof. exact generate_ascii. Qed.
Print Assumptions C06_generate_ascii.

(* generate_keeps_literals: the decoded path contains the pattern's literal pieces, in order, as UTF-8 *)
Theorem C06_generate_keeps_literals : forall p kw u, generate (to_pattern p) kw = Ok u ->
  in_order (map encode (lits (C01.items p))) (unquote u).
Proof. exact generate_keeps_literals. Qed.
Print Assumptions C06_generate_keeps_literals.

(* under separability a path has one decomposition along the pattern only *)
Theorem C06_decomposition_unique : forall O st its caps caps',
  sep_val O st its caps = true -> C01.caps_ok O st its caps = true -> C01.caps_ok O st its caps' = true ->
  C01.render its caps = C01.render its caps' -> caps = caps'.
Proof. exact sep_val_unique. Qed.
Print Assumptions C06_decomposition_unique.

(* separators that can never occur in the preceding placeholder make the pattern separable for all admissible values *)
Theorem C06_separable_sufficient : forall O st its caps,
  separable O st its = true -> C01.caps_ok O st its caps = true -> sep_val O st its caps = true.
Proof. exact separable_sep_val. Qed.
Print Assumptions C06_separable_sufficient.

(* route_roundtrip_normalising: whatever the remainder value looks like, matching the decoded
   generated path returns the dictionary built from the values' texts: {name} -> text, remainder ->
   split_path_info of the joined text (C01's mandated normalisation: '', '.', '..' and embedded
   slashes do not survive) *)
Theorem C06_route_roundtrip_normalising : forall O p kw u caps,
  generate (to_pattern p) kw = Ok u -> u <> [] -> kw_caps p kw = Some caps ->
  C01.caps_ok O (C01.star p) (C01.items p) caps = true ->
  sep_val O (C01.star p) (C01.items p) caps = true ->
  match_back O p (unquote u) = Some (C01.mk_dict (C01.items p) (C01.star p) caps).
Proof. exact route_roundtrip_normalising. Qed.
Print Assumptions C06_route_roundtrip_normalising.

(* the declarative dictionary ([spec_dict]: written from the supplied values) is that dictionary *)
Theorem C06_spec_dict_is_captures : forall p kw caps, kw_caps p kw = Some caps ->
  spec_dict p kw = Some (C01.mk_dict (C01.items p) (C01.star p) caps).
Proof. exact spec_dict_mk. Qed.
Print Assumptions C06_spec_dict_is_captures.

(* route_roundtrip (central): for a separable pattern and admissible values, generating and
   matching again yields the stringified values *)
Theorem C06_route_roundtrip : forall O p kw u caps,
  generate (to_pattern p) kw = Ok u -> u <> [] -> kw_caps p kw = Some caps ->
  C01.caps_ok O (C01.star p) (C01.items p) caps = true ->
  sep_val O (C01.star p) (C01.items p) caps = true ->
  exists d, spec_dict p kw = Some d /\ roundtrip O p kw = Some d.
Proof. exact route_roundtrip. Qed.
Print Assumptions C06_route_roundtrip.

Theorem C06_route_roundtrip_separable : forall O p kw u caps,
  generate (to_pattern p) kw = Ok u -> u <> [] -> kw_caps p kw = Some caps ->
  C01.caps_ok O (C01.star p) (C01.items p) caps = true ->
  separable O (C01.star p) (C01.items p) = true ->
  exists d, spec_dict p kw = Some d /\ roundtrip O p kw = Some d.
Proof. exact route_roundtrip_separable. Qed.
Print Assumptions C06_route_roundtrip_separable.

(* a remainder given as a sequence of normal segments comes back as exactly that sequence ... *)
Theorem C06_remainder_normal_identity : forall l shown ts,
  map_opt spec_text l = Some ts -> Forall normal_seg ts -> star_segs (KSeq l shown) = Some ts.
Proof. exact star_segs_normal. Qed.
Print Assumptions C06_remainder_normal_identity.

(* ... and any other remainder value as split_path_info of the text it stands for *)
Theorem C06_remainder_normalised : forall v t, val_text true v = Some t -> star_segs v = Some (split_path_info t).
Proof. exact star_segs_normalising. Qed.
Print Assumptions C06_remainder_normalised.

(* generate_missing_key: a placeholder (or named remainder) without a value is a KeyError, as soon as
   the literals and the supplied values themselves can be quoted *)
Theorem C06_generate_missing_key : forall p kw n tpl d,
  In n (slot_names p) -> assoc n kw = None ->
  gen_template (to_pattern p) = Ok tpl -> build_newdict (to_pattern p) kw = Ok d ->
  generate (to_pattern p) kw = Err EKey.
Proof. exact generate_missing_key. Qed.
Print Assumptions C06_generate_missing_key.

Theorem C06_generate_ok_all_keys : forall p kw u n,
  generate (to_pattern p) kw = Ok u -> In n (slot_names p) -> assoc n kw <> None.
Proof. exact generate_ok_all_keys. Qed.
Print Assumptions C06_generate_ok_all_keys.

(* route_url_prefix: the route URL is scheme://authority followed by the route path (which carries
   the QUOTED script name: depends on the regenerated fact route_path_script_quoted) *)
Theorem C06_route_url_prefix : forall O ds e name els o kw u,
  o_app_url o = None -> route_url [] e (gen_routes O ds) name els o kw = Ok u ->
  exists p, route_path [] e (gen_routes O ds) name els o kw = Ok p /\ u = host_part e o ++ p.
Proof. exact route_url_prefix. Qed.
Print Assumptions C06_route_url_prefix.

(* the server cuts the mount point off exactly *)
Theorem C06_script_name_cut : forall e qs g,
  quoted_script_name e = Ok qs -> Forall ascii g ->
  wsgi_path_info (e_script e) (qs ++ g) = Some (unquote g).
Proof. exact script_name_cut. Qed.
Print Assumptions C06_script_name_cut.

(* the whole way back for route_path without extra elements: urlsplit's cut into path / query /
   fragment, SCRIPT_NAME / PATH_INFO, the route's matcher: the supplied values *)
Theorem C06_route_path_way_back : forall O p e rs n o kw P caps,
  Verif.Proofs.C17.wf_query (o_query o) -> Verif.Proofs.C17.wf_anchor (o_anchor o) ->
  assoc n rs = Some (to_pattern p) ->
  route_path [] e rs n [] o kw = Ok P ->
  kw_caps p kw = Some caps -> C01.render (C01.items p) caps <> [] ->
  C01.caps_ok O (C01.star p) (C01.items p) caps = true ->
  sep_val O (C01.star p) (C01.items p) caps = true ->
  exists base qt f pi,
    cut_ref P = (base, qt, f)
    /\ wsgi_path_info (e_script e) base = Some pi
    /\ match_back O p pi = Some (C01.mk_dict (C01.items p) (C01.star p) caps).
Proof. exact route_path_way_back. Qed.
Print Assumptions C06_route_path_way_back.

(* generation succeeds whenever the property speaks about the case: the pattern's literals are
   Unicode scalar values, every supplied value stands for a text, every placeholder has a value *)
Theorem C06_generate_succeeds : forall p kw caps,
  forallb (forallb valid_scalar) (lits (C01.items p)) = true ->
  wf_kw (C01.star p) kw = true -> kw_caps p kw = Some caps ->
  exists u, generate (to_pattern p) kw = Ok u.
Proof. exact Verif.Proofs.C06_total.generate_succeeds. Qed.
Print Assumptions C06_generate_succeeds.
