(* C07 -- property theorems only. *)
From Coq Require Import List NArith Bool.
Import ListNotations.
Require Import Verif.Lib.Wire Verif.Lib.PathNorm Verif.Lib.C07Types Verif.Gen.Facts_C07 Verif.Model.C02 Verif.Model.C07 Verif.Proofs.C07.

Theorem C07_facts_ok :
  url_vroot_mode = UrlTupleCompare /\ c07_name_default = [] /\ c07_root_tuple = [[]] /\
  c07_trail_elt = [] /\ c07_trail_sep = [slash] /\ c07_vtuple_head = [[]] /\
  c07_elements_sep = [slash] /\ c07_script_quoted = true.
Proof. exact facts_ok7. Qed.
Print Assumptions C07_facts_ok.
