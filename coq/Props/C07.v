(* C07 -- property theorems only.  Each is closed by [exact] of a lemma proved
   in Proofs/C07.v; Print Assumptions beneath each.

   Vocabulary (Model/C07.v, Model/C02.v):
     good_resource root r = Some names   r is a resource of the tree whose lineage names are admissible
                                         (non-empty, no '/', not '.' / '..', not starting '@@', Unicode scalar
                                         values) and which item lookup along those names reaches (consistency)
     find7 root start p                  pyramid.traversal.find_resource(resource at [start], p)
     resource_path_tuple / resource_path the path tuple / string of a resource
     resource_url_adapter m              ResourceURL(resource, request); m = which text of the virtual-root block
     inside root vt r = Some v           r lies in the subtree of the resource v found at the virtual-root segments
     header_segments vroot = Some vt     the HTTP_X_VHM_ROOT header decodes to the segments vt ([] when absent)
     request_back                        context / view name / context seen by the view when the URL path is requested *)
From Coq Require Import List NArith Bool.
Import ListNotations.
Require Import Verif.Lib.Wire Verif.Lib.Text Verif.Lib.PathNorm Verif.Lib.Utf8 Verif.Lib.Percent Verif.Lib.C07Types
               Verif.Gen.Facts_C02 Verif.Gen.Facts_C07 Verif.Model.C02 Verif.Model.C07
               Verif.Proofs.C02_memo Verif.Proofs.C07_rt Verif.Proofs.C07 Verif.Proofs.C07_hist Verif.Proofs.C07_c17
               Verif.Gen.Code_C07 Verif.Proofs.C07_gen Verif.Proofs.C07_elt Verif.Proofs.C07_elt2 Verif.Proofs.C07_elt3.
Require Verif.Proofs.C02_gen.
Require Verif.Model.C17.

(* the regenerated facts are the ones the proofs were written against (in
   particular: ResourceURL compares decoded segments) *)
Theorem C07_facts_ok :
  url_vroot_mode = UrlTupleCompare /\ c07_name_default = [] /\ c07_root_tuple = [[]] /\
  c07_trail_elt = [] /\ c07_trail_sep = [slash] /\ c07_vtuple_head = [[]] /\
  c07_elements_sep = [slash] /\ c07_script_quoted = true /\
  c07_elements_safe = path_segment_safe /\ c07_script_safe = path_segment_safe ++ [slash].
Proof. exact facts_ok7. Qed.
Print Assumptions C07_facts_ok.

(* find_path_tuple: the path tuple resolves back to the very resource, from any starting resource *)
Theorem C07_find_path_tuple : forall root r a names, good_resource root r = Some names ->
  xbind (resource_path_tuple root r []) (fun t => find7 root a (PTuple t)) = Val (FoundAt r).
Proof. exact find_path_tuple. Qed.
Print Assumptions C07_find_path_tuple.

(* find_path_string: so does the path string (quote -> ascii -> webob unquote -> UTF-8 -> split -> walk) *)
Theorem C07_find_path_string : forall root r a names, good_resource root r = Some names ->
  xbind (resource_path root r []) (fun s => find7 root a (PStr s)) = Val (FoundAt r).
Proof. exact find_path_string. Qed.
Print Assumptions C07_find_path_string.

(* relative_absolute_agree, partial: excluded is exactly the class "the first
   relative segment reads <letters>:" (scheme_like); the common answer is the
   item lookup from [a] (spec_lookup), in particular KeyError for a missing name.
   Full statement (false of the code, see C07_relative_absolute_agree_refuted):
   the same without the hypothesis [scheme_like rel = false]. *)
Theorem C07_relative_absolute_agree_partial : forall root a r names_a rel,
  good_resource root a = Some names_a -> forallb admissible rel = true -> scheme_like rel = false ->
  exists f, spec_lookup root a rel = Some f /\
    find7 root a (PTuple rel) = Val f /\
    xbind (resource_path_tuple root a rel) (fun t => find7 root r (PTuple t)) = Val f.
Proof. exact relative_absolute_agree. Qed.
Print Assumptions C07_relative_absolute_agree_partial.

Theorem C07_relative_absolute_agree_str_partial : forall root a r names_a rel s_abs,
  good_resource root a = Some names_a -> forallb admissible rel = true -> scheme_like rel = false ->
  abs_string root a (qpath rel) = Val s_abs ->
  exists f, spec_lookup root a rel = Some f /\
    find7 root a (PStr (qpath rel)) = Val f /\ find7 root r (PStr s_abs) = Val f.
Proof. exact relative_absolute_agree_str. Qed.
Print Assumptions C07_relative_absolute_agree_str_partial.

Theorem C07_relative_absolute_agree_refuted :
  good_resource wit7 [] = Some [] /\ forallb admissible [n_http; n_x] = true /\
  forallb admissible [n_colon; n_c] = true /\
  scheme_like [n_http; n_x] = true /\ scheme_like [n_colon; n_c] = true /\
  spec_lookup wit7 [] [n_http; n_x] = Some (FoundAt [3; 0]) /\
  find7 wit7 [] (PTuple [n_http; n_x]) = Val (FoundAt [4]) /\
  find7 wit7 [] (PTuple ([] :: [n_http; n_x])) = Val (FoundAt [3; 0]) /\
  spec_lookup wit7 [] [n_colon; n_c] = Some (FoundAt [5; 0]) /\
  find7 wit7 [] (PTuple [n_colon; n_c]) = Err ETypeError /\
  find7 wit7 [] (PTuple ([] :: [n_colon; n_c])) = Val (FoundAt [5; 0]).
Proof. exact relative_absolute_agree_refuted. Qed.
Print Assumptions C07_relative_absolute_agree_refuted.

(* the excluded class, read on the joined text webob sees: it is decided by the first segment as given *)
Theorem C07_scheme_like_first_segment : forall s r, forallb valid_scalar s = true ->
  has_scheme (qpath (s :: r)) = has_scheme s.
Proof. exact scheme_like_first_segment. Qed.
Print Assumptions C07_scheme_like_first_segment.

(* the absolute form of a lookup needs no side condition *)
Theorem C07_absolute_lookup : forall root a r names_a rel,
  good_resource root a = Some names_a -> forallb admissible rel = true ->
  exists f, spec_lookup root a rel = Some f /\
    xbind (resource_path_tuple root a rel) (fun t => find7 root r (PTuple t)) = Val f.
Proof. exact absolute_lookup. Qed.
Print Assumptions C07_absolute_lookup.

(* find_missing: a missing name raises KeyError, relative and absolute *)
Theorem C07_find_missing : forall root a names_a rel x,
  good_resource root a = Some names_a -> forallb admissible rel = true -> has_scheme (qpath rel) = false ->
  node_at root a = Some x -> descend (a, x) rel = None ->
  find7 root a (PTuple rel) = Val KeyErr /\
  xbind (resource_path_tuple root a rel) (fun t => find7 root a (PTuple t)) = Val KeyErr.
Proof. exact find_missing. Qed.
Print Assumptions C07_find_missing.

(* resource_url_shape: application URL (host part ++ SCRIPT_NAME as UTF-8, percent-quoted with the path safe
   set -- webob's quoting is proved to coincide) + (virtual) path with trailing slash + quoted elements;
   spec_virtual_path omits the virtual-root prefix exactly when the resource is inside *)
Theorem C07_resource_url_shape : forall root r names els vroot vt sn d host,
  good_resource root r = Some names -> header_segments vroot = Some vt ->
  forallb (forallb valid_scalar) els = true -> decode_path_info sn = Ok d ->
  application_url host sn = Val (host ++ Percent.quote c07_script_safe (Utf8.encode d)) /\
  resource_url UrlTupleCompare root r els vroot sn (Some host)
    = Val ((host ++ Percent.quote c07_script_safe (Utf8.encode d)) ++ spec_virtual_path root r names vt
           ++ join [slash] (map q els)) /\
  request_resource_path UrlTupleCompare root r els vroot sn
    = Val (Percent.quote c07_script_safe (Utf8.encode d) ++ spec_virtual_path root r names vt
           ++ join [slash] (map q els)).
Proof. exact resource_url_shape. Qed.
Print Assumptions C07_resource_url_shape.

(* resource_url_roundtrip: without a virtual root *)
Theorem C07_resource_url_roundtrip : forall root r names sn d host,
  good_resource root r = Some names -> decode_path_info sn = Ok d ->
  resource_url UrlTupleCompare root r [] None sn (Some host)
    = Val ((host ++ Percent.quote c07_script_safe (Utf8.encode d)) ++ slashed names) /\
  request_back UrlTupleCompare root r None = Val (r, [], Some r).
Proof. exact resource_url_roundtrip. Qed.
Print Assumptions C07_resource_url_roundtrip.

(* vroot_trim_iff_inside (full statement, for the repaired adapter) *)
Theorem C07_vroot_trim_iff_inside : forall root r names vroot vt u,
  good_resource root r = Some names -> header_segments vroot = Some vt -> vt <> [] ->
  resource_url_adapter UrlTupleCompare root r vroot = Val u ->
  (ru_vp u <> ru_pp u <-> exists v, inside root vt r = Some v) /\
  (forall v, inside root vt r = Some v ->
     ru_pp u = (slash :: qpath vt) ++ ru_vp u /\ ru_vp u = slashed (skipn (length vt) names)).
Proof. exact vroot_trim_iff_inside. Qed.
Print Assumptions C07_vroot_trim_iff_inside.

Theorem C07_url_virtual_path : forall root r names vroot vt,
  good_resource root r = Some names -> header_segments vroot = Some vt ->
  exists u, resource_url_adapter UrlTupleCompare root r vroot = Val u /\
            ru_vp u = spec_virtual_path root r names vt /\ ru_pp u = slashed names.
Proof. exact url_virtual_path. Qed.
Print Assumptions C07_url_virtual_path.

(* ... and for a resource inside the virtual root the URL still traverses back
   to it when requested with the same header *)
Theorem C07_url_traverses_back : forall root r names vroot vt v,
  good_resource root r = Some names -> header_segments vroot = Some vt -> inside root vt r = Some v ->
  request_back UrlTupleCompare root r vroot = Val (r, [], Some r).
Proof. exact url_traverses_back. Qed.
Print Assumptions C07_url_traverses_back.

(* the two refutations for the unrepaired text of the block (UrlStringPrefix) *)
Theorem C07_vroot_trim_refuted_sibling :
  good_resource wit7 [1] = Some [n_onetwo] /\ header_segments (Some h_one) = Some [n_one] /\
  inside wit7 [n_one] [1] = None /\
  spec_virtual_path wit7 [1] [n_onetwo] [n_one] = [47; 111; 110; 101; 116; 119; 111; 47]%N /\
  exists u, resource_url_adapter UrlStringPrefix wit7 [1] (Some h_one) = Val u /\
            ru_vp u = [116; 119; 111; 47]%N /\ ru_vp u <> ru_pp u.
Proof. exact vroot_trim_refuted_sibling. Qed.
Print Assumptions C07_vroot_trim_refuted_sibling.

Theorem C07_vroot_trim_refuted_quoting :
  good_resource wit7 [2; 0] = Some [n_ab; n_c] /\ header_segments (Some h_ab) = Some [n_ab] /\
  inside wit7 [n_ab] [2; 0] = Some [2] /\
  spec_virtual_path wit7 [2; 0] [n_ab; n_c] [n_ab] = [47; 99; 47]%N /\
  (exists u, resource_url_adapter UrlStringPrefix wit7 [2; 0] (Some h_ab) = Val u /\
             ru_vp u = [47; 97; 37; 50; 48; 98; 47; 99; 47]%N /\ ru_vp u = ru_pp u) /\
  request_back UrlStringPrefix wit7 [2; 0] (Some h_ab) = Val ([2], n_ab, None) /\
  virtual_root UrlStringPrefix wit7 [2; 0] (Some h_ab) = Val (FoundAt []).
Proof. exact vroot_trim_refuted_quoting. Qed.
Print Assumptions C07_vroot_trim_refuted_quoting.

(* virtual_root_inverts: virtual_root() is the resource at the header path whenever the resource is inside *)
Theorem C07_virtual_root_inverts : forall root r names vroot vt v,
  good_resource root r = Some names -> header_segments vroot = Some vt -> inside root vt r = Some v ->
  virtual_root UrlTupleCompare root r vroot = Val (FoundAt v).
Proof. exact virtual_root_inverts. Qed.
Print Assumptions C07_virtual_root_inverts.

(* the round trip lemmas C02 left open *)
Theorem C07_webob_unquote_quoted_path : forall segs tail,
  Forall (fun s => forallb valid_scalar s = true) segs -> (tail = [] \/ exists t, tail = slash :: t) ->
  webob_unquote (qpath segs ++ tail) = join [slash] (map Utf8.encode segs) ++ webob_unquote tail.
Proof. exact wu_qpath. Qed.
Print Assumptions C07_webob_unquote_quoted_path.

Theorem C07_path_info_decodes : forall segs trail,
  Forall (fun s => forallb valid_scalar s = true) segs -> Forall normal_seg segs ->
  decode_path_info (wire_path segs trail) = Ok (text_path segs trail) /\
  split_path_info (text_path segs trail) = segs.
Proof. exact path_info_decodes. Qed.
Print Assumptions C07_path_info_decodes.

(* the executable spec the harness judges the implementation with ([spec_obs], extracted next to the model)
   demands, observation by observation, only what the model of the repaired code delivers
   (meets: equality; for the ResourceURL observation, equality of the virtual path) -- outside the
   scheme-like class for the two relative lookups (observations 4 and 6) *)
Theorem C07_spec_obs_sound : forall c i sv,
  nth_error (spec_obs c) i = Some sv -> sv <> none_val ->
  (i = 4 \/ i = 6 -> scheme_like (c_rel c) = false) ->
  exists mv, nth_error (model_obs UrlTupleCompare c) i = Some mv /\ meets i mv sv.
Proof. exact spec_obs_sound. Qed.
Print Assumptions C07_spec_obs_sound.

(* ---- names outside the property: what the round trip does with them *)
(* for ANY names that are text: the tuple path is decoded back to "/" n1 "/" ... "/" nk, normalised, walked *)
Theorem C07_find_abs_general : forall root start names,
  Forall (fun s => forallb valid_scalar s = true) names ->
  find7 root start (PTuple ([] :: names)) = Val (walk_result ([], root) (segments_of names)).
Proof. exact find_abs_general. Qed.
Print Assumptions C07_find_abs_general.

(* one odd name among admissible ones: '' and '.' are skipped (lookup continues from the parent), '..' also
   drops the name before it, 'x/y' is looked up as two names, '@@v' is a KeyError and '@@' returns the parent *)
Theorem C07_odd_name_outcomes : forall root start pre post,
  forallb admissible pre = true -> forallb admissible post = true ->
  (forall n, n = [] \/ n = [dot] ->
     find7 root start (PTuple ([] :: pre ++ n :: post)) = Val (lookup_result ([], root) (pre ++ post))) /\
  find7 root start (PTuple ([] :: pre ++ [dot; dot] :: post)) = Val (lookup_result ([], root) (removelast pre ++ post)) /\
  (forall x y, forallb admissible [x; y] = true ->
     find7 root start (PTuple ([] :: pre ++ (x ++ slash :: y) :: post)) = Val (lookup_result ([], root) (pre ++ x :: y :: post))) /\
  (forall n p, normal_seg n -> forallb valid_scalar n = true -> spec_is_selector n = true ->
     descend ([], root) pre = Some p ->
     find7 root start (PTuple ([] :: pre ++ n :: post))
       = Val (match skipn 2 n with [] => FoundAt (fst p) | _ => KeyErr end)).
Proof. exact odd_name_outcomes. Qed.
Print Assumptions C07_odd_name_outcomes.

(* whatever else the names are: a resource with an inadmissible name in its lineage is never found back *)
Theorem C07_inadmissible_never_found_back : forall root r a names,
  names_at root r = Some names -> Forall (fun s => forallb valid_scalar s = true) names ->
  existsb (fun s => negb (normal_segb s && negb (spec_is_selector s))) names = true ->
  exists f, xbind (resource_path_tuple root r []) (fun t => find7 root a (PTuple t)) = Val f /\ f <> FoundAt r.
Proof. exact inadmissible_never_found_back. Qed.
Print Assumptions C07_inadmissible_never_found_back.

(* a name that is not text (lone surrogate) cannot be written into a path at all *)
Theorem C07_surrogate_name_unencodable : forall root r names els,
  names_at root r = Some names -> existsb (fun s => negb (forallb valid_scalar s)) names = true ->
  resource_path root r els = Err (EExn UnicodeEncodeError) /\
  forall a, xbind (resource_path_tuple root r []) (fun t => find7 root a (PTuple t)) = Err (EExn UnicodeEncodeError).
Proof. exact surrogate_name_unencodable. Qed.
Print Assumptions C07_surrogate_name_unencodable.

(* ---- the history clause: every case of a history run in one process, over the lru_cache of split_path_info
   and _join_path_tuple and the _segment_cache dictionary in ANY state earlier calls can have produced
   (caches_ok: every entry is a true (key, value) pair), answers exactly like the cache-free model *)
Theorem C07_history_free : forall m cs C, caches_ok C -> run_cases_st m C cs = map (model_obs m) cs.
Proof. exact history_free7. Qed.
Print Assumptions C07_history_free.

Theorem C07_memoised_case : forall m c C, caches_ok C ->
  fst (model_obs_st m c C) = model_obs m c /\ caches_ok (snd (model_obs_st m c C)).
Proof. exact model_obs_st_ok. Qed.
Print Assumptions C07_memoised_case.

(* the quoted SCRIPT_NAME inside the application URL / resource_path is the value of C17's model of
   Request._quoted_script_name (about which C17 proves well-formedness and decoding) *)
Theorem C07_script_name_is_c17 : forall e sn d,
  decode_path_info sn = Ok d -> Verif.Model.C17.e_script e = d -> forallb valid_scalar d = true ->
  exists t, quoted_script_name sn = Val t /\ Verif.Model.C17.quoted_script_name e = Verif.Model.C17.Ok t.
Proof. exact quoted_script_name_is_c17. Qed.
Print Assumptions C07_script_name_is_c17.

(* ================================================================== regenerated code = reference model
   gen_* (Gen/Code_C07.v) are written by harness/c07/translate.py from the CURRENT source on every run. *)
Theorem C07_generated_lineage_is_model : forall root p, gen_lineage root p = lineage_pos p.
Proof. exact generated_lineage_is_model. Qed.
Print Assumptions C07_generated_lineage_is_model.

Theorem C07_generated_inside_is_model : forall root r1 r2, gen_inside root r1 r2 = pos_prefixb r2 r1.
Proof. exact generated_inside_is_model. Qed.
Print Assumptions C07_generated_inside_is_model.

Theorem C07_generated_resource_path_list_is_model : forall root r names els, names_at root r = Some names ->
  gen_resource_path_list root r els = resource_path_list names els.
Proof. exact generated_resource_path_list_is_model. Qed.
Print Assumptions C07_generated_resource_path_list_is_model.

Theorem C07_generated_resource_path_tuple_is_model : forall root r names els, names_at root r = Some names ->
  Val (gen_resource_path_tuple root r els) = resource_path_tuple root r els.
Proof. exact generated_resource_path_tuple_is_model. Qed.
Print Assumptions C07_generated_resource_path_tuple_is_model.

Theorem C07_generated_quote_path_segment_is_model : forall root seg safe,
  gen_quote_path_segment root seg safe = lift (quote_path_segment_safe seg safe).
Proof. exact generated_quote_path_segment_is_model. Qed.
Print Assumptions C07_generated_quote_path_segment_is_model.

Theorem C07_generated_join_path_tuple_is_model : forall root l, gen_join_path_tuple root l = lift (join_path_tuple l).
Proof. exact generated_join_path_tuple_is_model. Qed.
Print Assumptions C07_generated_join_path_tuple_is_model.

Theorem C07_generated_resource_path_is_model : forall root r names els, names_at root r = Some names ->
  gen_resource_path root r els = resource_path root r els.
Proof. exact generated_resource_path_is_model. Qed.
Print Assumptions C07_generated_resource_path_is_model.

Theorem C07_generated_find_root_is_model : forall root r, gen_find_root root r = [].
Proof. exact generated_find_root_is_model. Qed.
Print Assumptions C07_generated_find_root_is_model.

Theorem C07_generated_traverse_str_is_model : forall root r n path, node_at root r = Some n ->
  gen_traverse_str root r path = traverse7 root r (PStr path).
Proof. exact generated_traverse_str_is_model. Qed.
Print Assumptions C07_generated_traverse_str_is_model.

Theorem C07_generated_traverse_tuple_is_model : forall root r n l, node_at root r = Some n ->
  gen_traverse_tuple root r l = traverse7 root r (PTuple l).
Proof. exact generated_traverse_tuple_is_model. Qed.
Print Assumptions C07_generated_traverse_tuple_is_model.

Theorem C07_generated_find_resource_str_is_model : forall root r n path, node_at root r = Some n ->
  gen_find_resource_str root r path = find7 root r (PStr path).
Proof. exact generated_find_resource_str_is_model. Qed.
Print Assumptions C07_generated_find_resource_str_is_model.

Theorem C07_generated_find_resource_tuple_is_model : forall root r n l, node_at root r = Some n ->
  gen_find_resource_tuple root r l = find7 root r (PTuple l).
Proof. exact generated_find_resource_tuple_is_model. Qed.
Print Assumptions C07_generated_find_resource_tuple_is_model.

Theorem C07_generated_virtual_root_is_model : forall root r n vroot, node_at root r = Some n ->
  gen_virtual_root root r vroot = virtual_root url_vroot_mode root r vroot.
Proof. exact generated_virtual_root_is_model. Qed.
Print Assumptions C07_generated_virtual_root_is_model.

(* the property, restated about the regenerated functions *)
Theorem C07_gen_find_path_tuple : forall root r a na names,
  good_resource root r = Some names -> node_at root a = Some na ->
  gen_find_resource_tuple root a (gen_resource_path_tuple root r []) = Val (FoundAt r).
Proof. exact gen_find_path_tuple. Qed.
Print Assumptions C07_gen_find_path_tuple.

Theorem C07_gen_find_path_string : forall root r a na names,
  good_resource root r = Some names -> node_at root a = Some na ->
  xbind (gen_resource_path root r []) (fun s => gen_find_resource_str root a s) = Val (FoundAt r).
Proof. exact gen_find_path_string. Qed.
Print Assumptions C07_gen_find_path_string.

Theorem C07_gen_relative_absolute_agree_partial : forall root a r nr names_a rel,
  good_resource root a = Some names_a -> node_at root r = Some nr ->
  forallb admissible rel = true -> scheme_like rel = false ->
  exists f, spec_lookup root a rel = Some f /\
    gen_find_resource_tuple root a rel = Val f /\
    gen_find_resource_tuple root r (gen_resource_path_tuple root a rel) = Val f.
Proof. exact gen_relative_absolute_agree. Qed.
Print Assumptions C07_gen_relative_absolute_agree_partial.

Theorem C07_gen_virtual_root_inverts : forall root r names vroot vt v,
  url_vroot_mode = UrlTupleCompare ->
  good_resource root r = Some names -> header_segments vroot = Some vt -> inside root vt r = Some v ->
  gen_virtual_root root r vroot = Val (FoundAt v).
Proof. exact gen_virtual_root_inverts. Qed.
Print Assumptions C07_gen_virtual_root_inverts.

(* the functions regenerated by C02's translator that this property stands on (Gen/Facts_C02.v is rewritten from the
   current source by every C07 run as well): their equality theorems are part of THIS build *)
Theorem C07_generated_split_path_info_is_model : forall p, gen_split_path_info p = split_path_info p.
Proof. exact Verif.Proofs.C02_gen.gen_split_path_info_is_model. Qed.
Print Assumptions C07_generated_split_path_info_is_model.

Theorem C07_generated_decode_path_info_is_model : forall p, gen_decode_path_info p = decode_path_info p.
Proof. exact Verif.Proofs.C02_gen.gen_decode_path_info_is_model. Qed.
Print Assumptions C07_generated_decode_path_info_is_model.

Theorem C07_generated_traverser_call_is_model : forall root q,
  Verif.Proofs.C02_gen.gen_traverser_call root q = traverser_call root q.
Proof. exact Verif.Proofs.C02_gen.gen_traverser_call_is_model. Qed.
Print Assumptions C07_generated_traverser_call_is_model.

(* ------------------------------------------------------------------ elements of any type (Proofs/C07_elt.v)
     seg = SStr text | SBytes bytes | SObj key printed    a str, a bytes object, any other object (what str() prints of it,
                                                          and its equality class as a dictionary / lru_cache key)
     seg_texts els = Some ts        every bytes element is UTF-8; ts = the texts the elements stand for
     elts_texts els = Some ts       moreover all of them are Unicode scalar values
     resource_path_e / resource_path_tuple_e / resource_url_e / request_resource_path_e   the functions for such elements
     resource_path_second raw ..    resource_path(r, *els2) in a process that has answered resource_path(r, *els1); raw =
                                    _join_path_tuple is lru_cached on the raw tuple (regenerated fact c07_join_raw_key) *)
Theorem C07_typed_elements_are_their_texts : forall m root r els ts vroot sn host,
  seg_texts els = Some ts ->
  resource_path_e root r els = resource_path root r ts /\
  resource_url_e m root r els vroot sn host = resource_url m root r ts vroot sn host /\
  request_resource_path_e m root r els vroot sn = request_resource_path m root r ts vroot sn.
Proof. exact typed_elements_are_their_texts. Qed.
Print Assumptions C07_typed_elements_are_their_texts.

Theorem C07_resource_path_with_elements : forall root r names els ts,
  good_resource root r = Some names -> elts_texts els = Some ts ->
  resource_path_tuple_e root r els = Val (map SStr ([] :: names) ++ els) /\
  resource_path_e root r els = Val (slash :: join [slash] (map q (names ++ ts))).
Proof. exact resource_path_with_elements. Qed.
Print Assumptions C07_resource_path_with_elements.

Theorem C07_resource_url_with_elements : forall root r names els ts vroot vt sn d host,
  good_resource root r = Some names -> header_segments vroot = Some vt ->
  elts_texts els = Some ts -> decode_path_info sn = Ok d ->
  resource_url_e UrlTupleCompare root r els vroot sn (Some host)
    = Val ((host ++ Percent.quote c07_script_safe (Utf8.encode d)) ++ spec_virtual_path root r names vt
           ++ join [slash] (map q ts)) /\
  request_resource_path_e UrlTupleCompare root r els vroot sn
    = Val (Percent.quote c07_script_safe (Utf8.encode d) ++ spec_virtual_path root r names vt
           ++ join [slash] (map q ts)).
Proof. exact resource_url_e_shape. Qed.
Print Assumptions C07_resource_url_with_elements.

Theorem C07_undecodable_bytes_element : forall root r names pre ts b post,
  good_resource root r = Some names -> elts_texts pre = Some ts -> Utf8.decode b = None ->
  resource_path_e root r (pre ++ SBytes b :: post) = Err (EExn UnicodeDecodeError).
Proof. exact resource_path_e_bad_bytes. Qed.
Print Assumptions C07_undecodable_bytes_element.

(* the memo of _join_path_tuple: transparent when it is not keyed on the raw tuple; keyed on the raw tuple it is still
   transparent for str / bytes elements and for element lists that print alike -- and REFUTED otherwise (1, then True) *)
Theorem C07_join_memo_transparent : forall raw root r e1 e2,
  raw = false \/ forallb seg_plain e2 = true \/ (exists ts, seg_texts e1 = Some ts /\ seg_texts e2 = Some ts) ->
  resource_path_second raw root r e1 e2 = resource_path_e root r e2.
Proof. exact join_memo_transparent. Qed.
Print Assumptions C07_join_memo_transparent.

Theorem C07_join_memo_raw_key_refuted :
  resource_path_second true (Node None) [] [SObj 0 t_1] [SObj 0 t_True] = Val (slash :: t_1) /\
  resource_path_e (Node None) [] [SObj 0 t_True] = Val (slash :: t_True).
Proof. exact resource_path_second_refuted. Qed.
Print Assumptions C07_join_memo_raw_key_refuted.

Theorem C07_spec_ext_sound : forall raw c e1 e2 i sv,
  nth_error (spec_ext c e1 e2) i = Some sv -> sv <> none_val ->
  (i = 4 -> raw = false \/ forallb seg_plain e2 = true \/ seg_texts e1 = seg_texts e2) ->
  nth_error (model_ext UrlTupleCompare raw c e1 e2) i = Some sv.
Proof. exact spec_ext_sound. Qed.
Print Assumptions C07_spec_ext_sound.

(* ------------------------------------------------------------------ proof-only round (Proofs/C07_elt2.v) *)
(* generate-then-resolve for elements of any type: resource_path(r, *els) is the path of the descendant r' of r that the
   elements name (bytes as UTF-8, other objects printed), and find_resource leads from any start resource to r' *)
Theorem C07_typed_path_is_descendant_path : forall root r r' names els ts,
  good_resource root r = Some names -> good_resource root r' = Some (names ++ ts) -> elts_texts els = Some ts ->
  resource_path_e root r els = resource_path root r' [].
Proof. exact typed_path_is_descendant_path. Qed.
Print Assumptions C07_typed_path_is_descendant_path.

Theorem C07_typed_path_resolves_to_descendant : forall root r r' a names els ts,
  good_resource root r = Some names -> good_resource root r' = Some (names ++ ts) -> elts_texts els = Some ts ->
  xbind (resource_path_e root r els) (fun s => find7 root a (PStr s)) = Val (FoundAt r').
Proof. exact typed_path_resolves_to_descendant. Qed.
Print Assumptions C07_typed_path_resolves_to_descendant.

(* the code as it is now (regenerated fact c07_join_raw_key = false: no memo on _join_path_tuple): the second typed call
   does not depend on what was asked before, and the spec of observations 16..22 is met without a side condition *)
Theorem C07_second_call_history_free : forall root r e1 e2,
  resource_path_second c07_join_raw_key root r e1 e2 = resource_path_e root r e2.
Proof. exact second_call_history_free. Qed.
Print Assumptions C07_second_call_history_free.

Theorem C07_spec_ext_sound_now : forall c e1 e2 i sv,
  nth_error (spec_ext c e1 e2) i = Some sv -> sv <> none_val ->
  nth_error (model_ext UrlTupleCompare c07_join_raw_key c e1 e2) i = Some sv.
Proof. exact spec_ext_sound_now. Qed.
Print Assumptions C07_spec_ext_sound_now.

(* ------------------------------------------------------------------ third proof-only round (Proofs/C07_elt3.v) *)
(* the URL form of generate-then-resolve for elements of any type: r inside the virtual root, the elements naming its
   descendant r' (also inside): request.resource_url(r, *els) followed by "/" IS request.resource_url(r'), and requesting
   that path under the same header traverses back to r' with an empty view name *)
Theorem C07_typed_url_is_descendant_url : forall root r r' names els ts vroot vt v v' sn d host,
  good_resource root r = Some names -> good_resource root r' = Some (names ++ ts) ->
  elts_texts els = Some ts -> ts <> [] -> header_segments vroot = Some vt ->
  inside root vt r = Some v -> inside root vt r' = Some v' -> decode_path_info sn = Ok d ->
  xbind (resource_url_e UrlTupleCompare root r els vroot sn (Some host)) (fun u => Val (u ++ [slash]))
    = resource_url UrlTupleCompare root r' [] vroot sn (Some host) /\
  request_back UrlTupleCompare root r' vroot = Val (r', [], Some r').
Proof. exact typed_url_is_descendant_url. Qed.
Print Assumptions C07_typed_url_is_descendant_url.

Theorem C07_virtual_path_extends : forall root r r' names ts vt v v',
  good_resource root r = Some names -> ts <> [] ->
  inside root vt r = Some v -> inside root vt r' = Some v' ->
  spec_virtual_path root r names vt ++ join [slash] (map q ts) ++ [slash] = spec_virtual_path root r' (names ++ ts) vt.
Proof. exact virtual_path_extends. Qed.
Print Assumptions C07_virtual_path_extends.
