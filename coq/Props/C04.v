(* C04 -- property theorems only. *)
From Coq Require Import List NArith ZArith Bool.
Import ListNotations.
Require Import Verif.Lib.Wire Verif.Gen.Facts_C04 Verif.Model.C04 Verif.Proofs.C04.

Theorem C04_facts_repaired_shape : cfg_current = cfg_fixed.
Proof. exact facts_current_fixed. Qed.
Print Assumptions C04_facts_repaired_shape.
