(* C04 -- property theorems only.  Each is closed by [exact] of a lemma proved in
   Proofs/C04*.v; Print Assumptions beneath each.
   TODO (unproved), compared on every generated case instead (see harness/c04/NOTES.md):
     generator_resumable    : wf -> obs (commit acts) = spec_exec acts   (re-entrant)
     a run-level (rather than generator-step-level) statement of deferred_when_reached for re-entrant runs
     (the run-level forms of the late-addition clause and of declaration order within a phase ARE proved:
     C04_late_addition_refused / C04_late_refusal_names_last_phase / C04_run_first_pending) *)
From Coq Require Import List NArith ZArith Bool Sorted.
Import ListNotations.
Require Import Verif.Lib.Wire Verif.Lib.C04Sort Verif.Gen.Facts_C04 Verif.Model.C04 Verif.Model.C04_entry Verif.Model.C04_err Verif.Gen.Exec_C04.
Require Import Verif.Proofs.C04 Verif.Proofs.C04_flat Verif.Proofs.C04_decide Verif.Proofs.C04_safe Verif.Proofs.C04_groups Verif.Proofs.C04_spec Verif.Proofs.C04_mono Verif.Proofs.C04_one Verif.Proofs.C04_defer Verif.Proofs.C04_step Verif.Proofs.C04_all Verif.Proofs.C04_order Verif.Proofs.C04_gen Verif.Proofs.C04_late Verif.Proofs.C04_entry Verif.Proofs.C04_pos Verif.Proofs.C04_err Verif.Proofs.C04_text.
Require Import Verif.Proofs.C04_sim Verif.Proofs.C04_sim2 Verif.Proofs.C04_sim3.

(* ---- the control flow of ActionState.execute_actions and of ActionConfiguratorMixin.action is REGENERATED from the
   source on every run (harness/c04/translate.py -> Gen/Exec_C04.v); it equals the hand-written model *)
Theorem C04_generated_execute_actions_is_model : forall cfg fuel acts,
  gen_execute_actions cfg fuel acts = exec cfg fuel cstate0 gen0 acts log0.
Proof. exact gen_execute_actions_exec. Qed.
Print Assumptions C04_generated_execute_actions_is_model.

Theorem C04_generated_config_action_is_model : forall includepath i d o adds,
  gen_config_action includepath i d o adds = declare includepath i d o adds.
Proof. exact gen_config_action_declare. Qed.
Print Assumptions C04_generated_config_action_is_model.

(* ---- the ENTRY DOORS are regenerated from the source as well: ActionState.action, expand_action_tuple,
   normalize_actions (run by resolveConflicts on everything it is handed) and ConflictResolverState.__init__ *)
Theorem C04_generated_state_action_is_model : forall acts i d o p adds,
  gen_state_action acts i d o p adds = state_action acts i d o p adds.
Proof. exact gen_state_action_model. Qed.
Print Assumptions C04_generated_state_action_is_model.

Theorem C04_generated_state_action_defaults :
  gen_state_action_default_order = Some 0%Z /\ gen_state_action_default_includepath = [].
Proof. exact gen_state_action_defaults. Qed.
Print Assumptions C04_generated_state_action_defaults.

Theorem C04_generated_expand_action_tuple_is_model : forall i adds t,
  gen_expand_action_tuple i adds t = expand_tuple i adds t.
Proof. exact gen_expand_model. Qed.
Print Assumptions C04_generated_expand_action_tuple_is_model.

Theorem C04_generated_normalize_actions_is_model : forall l, gen_normalize_actions l = normalize l.
Proof. exact gen_normalize_model. Qed.
Print Assumptions C04_generated_normalize_actions_is_model.

Theorem C04_generated_resolver_state_is_model : gen_cstate0 = cstate0.
Proof. exact gen_cstate0_model. Qed.
Print Assumptions C04_generated_resolver_state_is_model.

(* dicts pass through normalize_actions untouched -- what [restart] (remaining_actions.extend(normalize_actions(..)))
   relies on -- so a commit of ready-made dicts is the commit of those very actions *)
Theorem C04_normalize_keeps_dicts : forall cfg st l,
  gen_normalize_actions (map RDict l) = Some l /\ restart_raw st (map RDict l) = Some (restart st l) /\
  commit_raw cfg (map RDict l) = Some (commit_with cfg l).
Proof.
  exact (fun cfg st l => conj (eq_trans (gen_normalize_model _) (normalize_dicts l))
                              (conj (restart_raw_dicts st l) (commit_raw_dicts cfg l))).
Qed.
Print Assumptions C04_normalize_keeps_dicts.

(* THE DOORS AGREE: declared through Configurator.action, ActionState.action, as a ready-made dict, or as an old-style
   tuple of 7 or 8 positions, an action reaches remaining_actions with the same discriminator, include chain and phase;
   a 6-tuple says phase 0, a tuple of 1..4 positions says root chain and phase 0; no position at all or more than 8 is a
   TypeError (None) *)
Theorem C04_entry_doors_agree : forall p i d o adds,
  let a := declare p i d o adds in
  gen_config_action p i d o adds = a /\
  gen_state_action [] i d o p adds = [a] /\
  gen_normalize_actions [RDict a] = Some [a] /\
  gen_normalize_actions [RTuple i adds (tuple7 d p o)] = Some [a] /\
  gen_normalize_actions [RTuple i adds (tuple7 d p o ++ [TOther])] = Some [a] /\
  gen_normalize_actions [RTuple i adds (firstn 6 (tuple7 d p o))] = Some [declare p i d (Some 0%Z) adds] /\
  (forall k, (1 <= k <= 4)%nat ->
     gen_normalize_actions [RTuple i adds (firstn k (tuple7 d p o))] = Some [declare [] i d (Some 0%Z) adds]) /\
  gen_normalize_actions [RTuple i adds []] = None /\
  gen_normalize_actions [RTuple i adds (tuple7 d p o ++ [TOther; TOther])] = None.
Proof. exact entry_doors_agree. Qed.
Print Assumptions C04_entry_doors_agree.

Theorem C04_commit_tuple_door : forall cfg p i d o adds rest,
  commit_raw cfg (RTuple i adds (tuple7 d p o) :: map RDict rest) = commit_raw cfg (map RDict (declare p i d o adds :: rest)).
Proof. exact commit_raw_doors. Qed.
Print Assumptions C04_commit_tuple_door.

(* histories: several commits on ONE ActionState / Configurator.  The function regenerated from the source has no
   parameter besides the pending actions (resolver state and generator are created inside it), so the k-th commit of a
   history is the commit of the k-th round alone, whatever was committed before *)
Theorem C04_history_independent : forall cfg rounds,
  map (fun acts => gen_execute_actions cfg (S (forest_size acts)) acts) rounds = commit_history cfg rounds.
Proof. exact gen_history_independent. Qed.
Print Assumptions C04_history_independent.

(* the property's first sentence, restated about the generated function *)
Theorem C04_generated_commit_spec : forall acts,
  flat acts = true -> wf_ids acts = true -> wf_orders acts = true ->
  obs (gen_execute_actions cfg_current (S (forest_size acts)) acts) = commit_spec acts.
Proof. exact gen_commit_spec. Qed.
Print Assumptions C04_generated_commit_spec.

(* the regenerated facts say: both repairs are in place (every new action is tested against an
   already executed one; discarded actions leave remaining_actions) *)
Theorem C04_facts_repaired_shape : cfg_current = cfg_fixed.
Proof. exact facts_current_fixed. Qed.
Print Assumptions C04_facts_repaired_shape.

Theorem C04_facts_keys :
  conflict_test = [1; 2]%N /\ orderandpos_key = [1; 2]%N /\ orderonly_key = [1]%N /\
  bypath_key = [3; 4; 5]%N /\ output_key = [5]%N /\ min_order_cmp = 0%N /\ include_path = 1%N.
Proof. exact facts_keys. Qed.
Print Assumptions C04_facts_keys.

(* the test in the code is exactly "base is not a strict prefix of p" *)
Theorem C04_override_test_is_strict_prefix : forall base p,
  conflicting base p = negb (strict_prefix base p).
Proof. exact conflicting_strict_prefix. Qed.
Print Assumptions C04_override_test_is_strict_prefix.

Theorem C04_strict_prefix_spec : forall a b,
  strict_prefix a b = true <-> exists r, r <> [] /\ b = a ++ r.
Proof. exact strict_prefix_spec. Qed.
Print Assumptions C04_strict_prefix_spec.

(* the override test compares chains ELEMENT BY ELEMENT: sibling includes conflict whatever their names are (api /
   api_v2: the text of one name being the beginning of the other's means nothing), and a one-element chain neither
   overrides nor is overridden by a longer chain that does not start with that very element *)
Theorem C04_sibling_chains_conflict : forall a b : text, conflicting [a] [b] = true.
Proof. exact sibling_chains_conflict. Qed.
Print Assumptions C04_sibling_chains_conflict.

Theorem C04_unrelated_depths_conflict : forall (a b : text) (r : path),
  text_eqb a b = false -> conflicting [a] (b :: r) = true /\ conflicting (b :: r) [a] = true.
Proof. exact unrelated_depths_conflict. Qed.
Print Assumptions C04_unrelated_depths_conflict.

(* Configurator.include: the including configurator's chain is a strict prefix of the included one's *)
Theorem C04_include_strict_prefix : forall parent spec,
  strict_prefix parent (child_path parent spec) = true.
Proof. exact include_strict_prefix. Qed.
Print Assumptions C04_include_strict_prefix.

(* a discriminator not executed before: the action whose chain is a strict prefix of all the
   others' is the one kept, and nothing is reported *)
Theorem C04_fresh_discriminator_winner : forall res d l a,
  NoDup l -> lookup d res = None -> In a l ->
  (forall b, In b l -> b = a \/ strict_prefix (apath (snd a)) (apath (snd b)) = true) ->
  detect1 cfg_current res d (sort (leb_by bypath_key) l) = ([a], []).
Proof. exact detect1_fresh_winner. Qed.
Print Assumptions C04_fresh_discriminator_winner.

(* ... only such an action is ever kept silently *)
Theorem C04_fresh_discriminator_sound : forall res d l firsts,
  lookup d res = None -> l <> [] ->
  detect1 cfg_current res d (sort (leb_by bypath_key) l) = (firsts, []) ->
  exists a, firsts = [a] /\ In a l /\
            forall b, In b l -> b = a \/ strict_prefix (apath (snd a)) (apath (snd b)) = true.
Proof. exact detect1_fresh_sound. Qed.
Print Assumptions C04_fresh_discriminator_sound.

(* ... and when no action's chain is a strict prefix of all the others', exactly that discriminator is reported *)
Theorem C04_fresh_discriminator_conflict : forall res d l,
  lookup d res = None -> l <> [] ->
  (forall a, In a l -> exists b, In b l /\ b <> a /\ strict_prefix (apath (snd a)) (apath (snd b)) = false) ->
  exists infos, snd (detect1 cfg_current res d (sort (leb_by bypath_key) l)) = [(d, infos)].
Proof. exact detect1_fresh_conflict. Qed.
Print Assumptions C04_fresh_discriminator_conflict.

(* a discriminator already executed (earlier phase, or earlier in the same re-entrant commit):
   nothing more runs for it; silent iff EVERY new action lies strictly below the executed one,
   otherwise exactly that discriminator is reported, the executed action's info first *)
Theorem C04_executed_discriminator : forall res d l i w,
  lookup d res = Some (i, w) ->
  let r := detect1 cfg_current res d (sort (leb_by bypath_key) l) in
  fst r = [] /\
  (snd r = [] <-> forall b, In b l -> strict_prefix (apath w) (apath (snd b)) = true) /\
  (snd r = [] \/ exists infos, snd r = [(d, aid w :: infos)]).
Proof. exact detect1_executed. Qed.
Print Assumptions C04_executed_discriminator.

(* execute_actions never calls list.remove on an absent action, and the fuel of [commit] suffices:
   for every program, re-entrant ones included, whose action identities are pairwise distinct *)
Theorem C04_commit_never_crashes : forall acts,
  wf_ids acts = true -> fst (commit acts) <> Crash /\ fst (commit acts) <> OutOfFuel.
Proof. exact (commit_safe cfg_current). Qed.
Print Assumptions C04_commit_never_crashes.

(* execute_actions on a program whose callables declare nothing is the plain recursion over the
   order groups (no generator, no remaining_actions) *)
Theorem C04_commit_flat_is_phase_recursion : forall acts,
  flat acts = true -> wf_ids acts = true ->
  commit acts = run_groups cfg_current [] None (groups_of acts).
Proof. exact (commit_flat_exact cfg_current). Qed.
Print Assumptions C04_commit_flat_is_phase_recursion.

(* THE PROPERTY'S FIRST SENTENCE for a single, non-re-entrant commit: execute_actions behaves exactly as the
   declarative [commit_spec] -- phase after phase, the None-discriminated actions and, per discriminator, the
   action of its minimal phase whose include chain is a strict prefix of all the others' run in declaration
   order, the others are discarded silently; the first phase in which some discriminator has no such action
   stops the commit with exactly those discriminators (earlier phases have run) *)
Theorem C04_commit_spec : forall acts,
  flat acts = true -> wf_ids acts = true -> wf_orders acts = true ->
  obs (commit acts) = commit_spec acts.
Proof. exact commit_spec_fixed. Qed.
Print Assumptions C04_commit_spec.

(* the meaning of [winner] used by commit_spec *)
Theorem C04_winner_characterisation : forall l d w,
  NoDup (map aid l) ->
  (winner l d = Some w <->
   In w l /\ D w = Some d /\
   forall b, In b l -> D b = Some d ->
     (ordkey w <= ordkey b)%Z /\ (aid w = aid b \/ strict_prefix (apath w) (apath b) = true)).
Proof. exact winner_characterisation. Qed.
Print Assumptions C04_winner_characterisation.

(* the order groups are the phases in increasing order, each in declaration order *)
Theorem C04_groups_are_phases : forall acts,
  groups_of acts = map (fun p => (p, phase_group acts p)) (phases acts).
Proof. exact groups_of_phases. Qed.
Print Assumptions C04_groups_are_phases.

(* an order group lying before the order already reached is refused ... *)
Theorem C04_late_phase_refused : forall st order grp gs evs m,
  min_order st = Some m -> (order < m)%Z ->
  next_group cfg_current st ((order, grp) :: gs) evs = SStop (Late order m) evs st.
Proof. exact (late_group_refused cfg_current). Qed.
Print Assumptions C04_late_phase_refused.

(* ... and a refusal always names a pending group strictly before the order reached *)
Theorem C04_late_phase_only : forall gs st evs order m evs' st',
  next_group cfg_current st gs evs = SStop (Late order m) evs' st' ->
  min_order st = Some m /\ (order < m)%Z /\ In order (map fst gs).
Proof. exact (late_only cfg_current). Qed.
Print Assumptions C04_late_phase_only.

(* EXECUTED ACTIONS RUN IN NON-DECREASING PHASE ORDER, for every program -- callables that declare further
   actions included -- whose orders are ints.  [commit_trace] is the list of yielded actions of the very run
   [commit] (C04_commit_trace_is_the_log: its identities are exactly the Run events of the log). *)
Theorem C04_executed_monotone : forall acts,
  wf_orders acts = true ->
  StronglySorted (fun a b => (ordkey a <= ordkey b)%Z) (commit_trace cfg_current acts).
Proof. exact (executed_monotone cfg_current). Qed.
Print Assumptions C04_executed_monotone.

Theorem C04_commit_trace_is_the_log : forall acts,
  run_events (snd (commit acts)) = map (fun a => Run (aid a)) (commit_trace cfg_current acts).
Proof. exact (commit_trace_log cfg_current). Qed.
Print Assumptions C04_commit_trace_is_the_log.

(* OVER THE WHOLE RUN -- re-entrant declarations included -- NO DISCRIMINATOR IS EXECUTED TWICE
   (no well-formedness assumption needed) *)
Theorem C04_one_per_discriminator : forall acts,
  NoDup (somes (map D (commit_trace cfg_current acts))).
Proof. exact (one_per_discriminator cfg_current). Qed.
Print Assumptions C04_one_per_discriminator.

(* DEFERRED DISCRIMINATORS ARE FORCED EXACTLY WHEN THEIR PHASE IS REACHED (generator-step level, re-entrant runs
   included).  [GI st g] is the invariant of a suspended generator proved to hold along every run whose orders are
   ints (Proofs/C04_mono.v: pending groups have strictly increasing homogeneous keys above the phase in progress).
   The step handing out action [a] forces precisely the still-deferred pending actions of phase <= phase of [a];
   later phases stay deferred; continuing the phase in progress forces nothing. *)
Theorem C04_deferred_when_reached : forall st g a st2 g2 e,
  GI st g -> gen_next cfg_current st g = SYield a st2 g2 e ->
  e = forces (reached (ordkey a) (concat (map snd (g_groups g)))).
Proof. exact (deferred_when_reached cfg_current). Qed.
Print Assumptions C04_deferred_when_reached.

(* ... read on remaining_actions right after actions were (re-)declared *)
Theorem C04_deferred_when_reached_restart : forall st new a st2 g2 e,
  Forall Pact (remaining st) -> Forall Pact new ->
  gen_next cfg_current (fst (restart st new)) (snd (restart st new)) = SYield a st2 g2 e ->
  e = forces (reached (ordkey a)
                (sort (leb_by orderandpos_key) (enumerate (start st) (remaining st ++ new)))).
Proof. exact (deferred_when_reached_restart cfg_current). Qed.
Print Assumptions C04_deferred_when_reached_restart.

(* ---- the property's clauses for RE-ENTRANT runs (any resolver state [res], i.e. whatever was executed before) ---- *)

(* (c) a conflict names exactly the contested discriminators of the group reached, in order of first appearance;
   [contested_b]: with an action already executed for d (earlier phase, or earlier in the same re-entrant commit)
   d is contested iff some pending action of d is not strictly below it; otherwise iff no pending action of d has
   a chain that is a strict prefix of all the others' *)
Theorem C04_group_conflicts : forall res fg,
  NoDup (map aidx fg) ->
  map fst (snd (detect cfg_current res (sort_unique_lists (build_unique fg)))) =
  filter (contested_b res fg) (group_discs fg).
Proof. exact group_conflicts. Qed.
Print Assumptions C04_group_conflicts.

Theorem C04_step_conflict : forall st k grp gs evs,
  NoDup (map aidx grp) -> late (min_order st) k = false ->
  let fg := forced_group grp in
  let C := filter (contested_b (resolved st) fg) (group_discs fg) in
  C <> [] ->
  exists K st', next_group cfg_current st ((k, grp) :: gs) evs = SStop (Conflict K) (evs ++ force_events grp) st'
                /\ map fst K = C.
Proof. exact step_conflict. Qed.
Print Assumptions C04_step_conflict.

(* (b) when nothing is contested the group hands out every None-discriminated action and, per discriminator not
   executed before, exactly the pending action whose include chain is a strict prefix of all the others'; nothing for
   a discriminator already executed (those pending actions are silently discarded) *)
Theorem C04_group_output_members : forall res fg,
  NoDup (map aidx fg) ->
  snd (detect cfg_current res (sort_unique_lists (build_unique fg))) = [] ->
  forall x, In x (none_output fg ++ fst (detect cfg_current res (sort_unique_lists (build_unique fg)))) <->
            In x fg /\ match Dx x with
                       | None => True
                       | Some d => lookup d res = None /\ dom x (grp_d d fg) = true
                       end.
Proof. exact group_output_members. Qed.
Print Assumptions C04_group_output_members.

(* (a) when the commit completes, every action without a discriminator that was declared -- initially or by an
   executed action -- has run, and no action runs twice *)
Theorem C04_none_actions_run_once : forall acts,
  wf_ids acts = true -> fst (commit acts) = Done ->
  let tr := commit_trace cfg_current acts in
  NoDup (map aid tr) /\
  forall b, In b (acts ++ flat_map aadds tr) -> D b = None -> In (aid b) (map aid tr).
Proof. exact none_actions_run_once. Qed.
Print Assumptions C04_none_actions_run_once.

(* (d) generator-step level: of the phase in progress the generator hands out the pending action with the smallest
   index, and what stays pending of that phase stays sorted by index; indices are positions in remaining_actions
   followed by the newly declared actions, all above the indices used before (C04_restart_indices) *)
Theorem C04_gen_next_in_order : forall st g a st2 g2 e,
  StronglySorted idx_le (g_out g) ->
  gen_next cfg_current st g = SYield a st2 g2 e ->
  exists x, a = snd x /\ StronglySorted idx_le (x :: g_out g2).
Proof. exact (gen_next_in_order cfg_current). Qed.
Print Assumptions C04_gen_next_in_order.

Theorem C04_restart_indices : forall st new,
  let items := enumerate (start st) (remaining st ++ new) in
  map snd items = remaining st ++ new /\
  StronglySorted (fun u v : ainfo => (fst u < fst v)%N) items /\
  Forall (fun u : ainfo => (start st <= fst u)%N) items.
Proof. exact restart_indices. Qed.
Print Assumptions C04_restart_indices.

(* AN ACTION ADDED TO A PHASE THAT HAS ALREADY BEEN PASSED IS REFUSED -- RUN LEVEL, re-entrant runs included: as soon
   as an executed action [a] declares an action [b] of an earlier phase than its own, the commit ends with the refusal;
   it names [a]'s phase as the phase reached and a pending phase that is not above [b]'s; [a] is the last action that
   ran (nothing is executed after the late declaration) *)
Theorem C04_late_addition_refused : forall acts,
  wf_ids acts = true -> wf_orders acts = true ->
  forall a b, In a (commit_trace cfg_current acts) -> In b (aadds a) -> (ordkey b < ordkey a)%Z ->
    (exists o, fst (commit acts) = Late o (ordkey a) /\ (o <= ordkey b)%Z /\ (o < ordkey a)%Z)
    /\ exists tr0, commit_trace cfg_current acts = tr0 ++ [a].
Proof. exact (late_addition_refused cfg_current). Qed.
Print Assumptions C04_late_addition_refused.

Example C04_late_addition_refused_nonvacuous :
  wf_ids w_late = true /\ wf_orders w_late = true /\
  commit_with cfg_fixed w_late = (Late 0 5, [Run 0%N]) /\ map aid (commit_trace cfg_fixed w_late) = [0%N].
Proof. exact late_addition_witness. Qed.

(* ... and a refusal, at run level, always names the phase of the action executed LAST as the phase reached, and a
   strictly earlier phase as the offending one (so the first refusal-free prefix of a run is phase-monotone and a
   commit in which nothing ran yet is never refused) *)
Theorem C04_late_refusal_names_last_phase : forall acts o m,
  wf_orders acts = true -> fst (commit acts) = Late o m ->
  (o < m)%Z /\ exists tr0 a, commit_trace cfg_current acts = tr0 ++ [a] /\ ordkey a = m.
Proof. exact (fun acts o m => late_refusal_names_last_phase cfg_current acts o m). Qed.
Print Assumptions C04_late_refusal_names_last_phase.

(* WITHIN A PHASE, IN DECLARATION ORDER -- RUN LEVEL, re-entrant runs included.  [exec_s] lists the steps of the very
   run [commit]: (pool, a, rest) = remaining_actions when the generator is asked for the next action (what the previous
   step left pending followed by what the executed action declared: [chained]), the action handed out, and
   remaining_actions afterwards.  At every step the action handed out is the FIRST pending action of the SMALLEST
   pending phase ([first_pending]): what stays pending is a subsequence of the pool, belongs to the same or a later
   phase, and -- when of the same phase -- stood behind the action in the pool, i.e. was declared later. *)
Theorem C04_run_first_pending : forall acts,
  wf_ids acts = true -> wf_orders acts = true ->
  let steps := exec_s cfg_fixed (S (forest_size acts)) cstate0 gen0 acts in
  map step_action steps = commit_trace cfg_fixed acts /\
  chained acts steps /\
  Forall (fun s => first_pending (fst (fst s)) (snd (fst s)) (snd s)) steps.
Proof. exact run_first_pending. Qed.
Print Assumptions C04_run_first_pending.

(* what [first_pending] says, spelled out *)
Theorem C04_first_pending_meaning : forall pool a rest,
  first_pending pool a rest <->
  (subseq (map ak rest) (map ak pool) /\ In (ak a) (map ak pool) /\ ~ In (aid a) (map aid rest) /\
   forall b, In b rest -> (ordkey a <= ordkey b)%Z /\
                          (ordkey b = ordkey a -> before (aid a) (aid b) (map aid pool))).
Proof. exact (fun pool a rest => conj (fun H => H) (fun H => H)). Qed.
Print Assumptions C04_first_pending_meaning.

(* ... one generator step, for any reachable state: Q = every remaining action is pending in the generator and
   conversely (Proofs/C04_all.v), GI = the suspended-generator invariant, RK = indices follow positions *)
Theorem C04_gen_next_first_pending : forall st g a st2 g2 e,
  Q (remaining st) (gitems g) -> GI st g -> StronglySorted idx_le (g_out g) -> RK (remaining st) (gitems g) ->
  gen_next cfg_fixed st g = SYield a st2 g2 e ->
  RK (remaining st2) (gitems g2) /\ first_pending (remaining st) a (remaining st2).
Proof. exact gen_next_first. Qed.
Print Assumptions C04_gen_next_first_pending.

Example C04_run_first_pending_nonvacuous :
  wf_ids w_pos = true /\ wf_orders w_pos = true /\
  map aid (commit_trace cfg_fixed w_pos) = [0; 2; 3; 1]%N /\
  map (fun s => (map aid (fst (fst s)), map aid (snd s))) (exec_s cfg_fixed (S (forest_size w_pos)) cstate0 gen0 w_pos)
  = [([0; 1; 2], [1; 2]); ([1; 2; 3], [1; 3]); ([1; 3], [1]); ([1], [])]%N.
Proof. exact run_first_pending_witness. Qed.

(* THE ERROR PATH: a callable raises (ConfigurationExecutionError).  [commit_x cfg bad] is execute_actions when the
   callables of the actions selected by [bad] raise.  It is the plain run cut right after the first raising callable
   started: the same actions ran before it, in the same order, with the same Deferred forcings; nothing runs afterwards;
   if no executed callable raises it is the plain run. *)
Theorem C04_raising_callable_cuts_the_run : forall cfg bad acts,
  match fst (commit_x cfg bad acts) with
  | Raised a => bad a = true /\ exists pre suf, snd (commit_x cfg bad acts) = pre ++ [Run a] /\
                  snd (commit_with cfg acts) = snd (commit_x cfg bad acts) ++ suf /\
                  forall i, In (Run i) pre -> bad i = false
  | Normal o => o = fst (commit_with cfg acts) /\ snd (commit_x cfg bad acts) = snd (commit_with cfg acts) /\
                forall i, In (Run i) (snd (commit_with cfg acts)) -> bad i = false
  end.
Proof. exact commit_x_prefix. Qed.
Print Assumptions C04_raising_callable_cuts_the_run.

Theorem C04_no_raising_callable_is_commit : forall cfg acts,
  commit_x cfg (fun _ => false) acts = (Normal (fst (commit_with cfg acts)), snd (commit_with cfg acts)).
Proof. exact commit_x_none. Qed.
Print Assumptions C04_no_raising_callable_is_commit.

Example C04_raising_callable_nonvacuous :
  commit_x cfg_fixed (N.eqb 1) w_raise = (Raised 1, [Run 0; Run 1]%N) /\
  snd (commit_with cfg_fixed w_raise) = [Run 0; Run 1; Run 2; Run 3]%N.
Proof. exact raise_witness. Qed.

(* the unrepaired code (both parameters off) contradicts the specification: DESIGN.md section 5 item 3 *)
Theorem C04_commit_spec_refuted_crossphase :
  wf_ids w_crossphase = true /\ wf_orders w_crossphase = true /\ flat w_crossphase = true /\
  commit_spec w_crossphase = (SDone, [Run 0%N]) /\
  obs (commit_with cfg_old w_crossphase) = (SConflict [1%N], [Run 0%N]).
Proof. exact commit_spec_refuted_crossphase. Qed.
Print Assumptions C04_commit_spec_refuted_crossphase.

(* ... and item 4: a discarded action lingers and a later re-entrant declaration is refused as "late" *)
Theorem C04_late_phase_only_refuted :
  wf_ids w_lingering = true /\ wf_orders w_lingering = true /\
  spec_exec w_lingering = (SDone, [Run 0%N; Run 2%N; Run 3%N]) /\
  obs (commit_with cfg_old w_lingering) = (SLate 0 5, [Run 0%N; Run 2%N]).
Proof. exact late_phase_only_refuted. Qed.
Print Assumptions C04_late_phase_only_refuted.

(* each repair is necessary for, and alone sufficient on, its own witness; the current code agrees with the spec on both *)
Theorem C04_repairs_independent :
  obs (commit_with {| prev_all := true; drop_discarded := false |} w_crossphase) = commit_spec w_crossphase /\
  obs (commit_with {| prev_all := false; drop_discarded := true |} w_crossphase) <> commit_spec w_crossphase /\
  obs (commit_with {| prev_all := false; drop_discarded := true |} w_lingering) = spec_exec w_lingering /\
  obs (commit_with {| prev_all := true; drop_discarded := false |} w_lingering) <> spec_exec w_lingering /\
  obs (commit w_crossphase) = commit_spec w_crossphase /\ obs (commit w_lingering) = spec_exec w_lingering.
Proof.
  exact (conj (proj1 crossphase_needs_prev_all) (conj (proj2 crossphase_needs_prev_all)
        (conj (proj1 lingering_needs_drop) (conj (proj2 lingering_needs_drop)
        (conj commit_fixed_crossphase commit_fixed_lingering))))).
Qed.
Print Assumptions C04_repairs_independent.

(* ---- PIECES OF THE SIMULATION between the code's group pass and the specification's recomputation (spec_exec) ----
   [won_matches won res]: the specification's memory of executed actions agrees with resolved_ainfos.  For one order
   group [fg] (all of one phase): the discriminators the specification calls contested ([sx_contested]) are exactly the
   ones [contested_b] describes ... *)
Theorem C04_sx_contested_is_contested_b : forall won res fg,
  won_matches won res ->
  (forall x y, In x fg -> In y fg -> okey x = okey y) ->
  sx_contested won (map snd fg) = filter (contested_b res fg) (group_discs fg).
Proof. exact sx_contested_is_contested_b. Qed.
Print Assumptions C04_sx_contested_is_contested_b.

(* ... hence, END TO END for one group pass in ANY resolver state: the conflict the code raises names exactly the
   discriminators the specification's recomputation calls contested (composition with C04_group_conflicts) *)
Theorem C04_group_conflicts_are_spec_contested : forall won res fg,
  NoDup (map aidx fg) -> won_matches won res ->
  (forall x y, In x fg -> In y fg -> okey x = okey y) ->
  map fst (snd (detect cfg_fixed res (sort_unique_lists (build_unique fg)))) = sx_contested won (map snd fg).
Proof. exact group_conflicts_are_spec_contested. Qed.
Print Assumptions C04_group_conflicts_are_spec_contested.

Example C04_group_conflicts_are_spec_contested_nonvacuous :
  NoDup (map aidx w_fg) /\ won_matches [] [] /\ (forall x y, In x w_fg -> In y w_fg -> okey x = okey y) /\
  sx_contested [] (map snd w_fg) = [1%N].
Proof. exact sim_witness. Qed.

(* the two memories stay matched along a run: empty at the start, and extended alike by every executed action *)
Theorem C04_won_matches_preserved : won_matches [] [] /\ forall won res i a,
  won_matches won res ->
  won_matches (match D a with Some d => (d, a) :: won | None => won end) ((D a, (i, a)) :: res).
Proof. exact (conj won_matches_nil won_matches_step). Qed.
Print Assumptions C04_won_matches_preserved.

(* list.remove of actions with pairwise distinct identities is a FILTER (the order of what stays is kept): the discard
   step of the group pass leaves remaining_actions filtered by "is not one of the discarded actions" -- the list form
   the specification's `filter keep pool` needs *)
Theorem C04_remove_all_is_filter : forall ds l l',
  NoDup (map aid l) -> remove_all ds l = Some l' -> l' = filter (not_among (map aidx ds)) l.
Proof. exact remove_all_is_filter. Qed.
Print Assumptions C04_remove_all_is_filter.

Theorem C04_group_discard_is_filter : forall grp rem discards rem2,
  NoDup (map aid rem) -> remove_all discards (mark_group grp rem) = Some rem2 ->
  rem2 = filter (not_among (map aidx discards)) (mark_group grp rem).
Proof. exact group_discard_is_filter. Qed.
Print Assumptions C04_group_discard_is_filter.

(* ---- the pass that follows a (re-)declaration, group by group, against the specification's recomputation on the pool
   (pool = remaining_actions ++ new declarations): every order group is, AS A LIST, the specification's [at_phase]; it
   forces exactly what the specification forces ([forces_of], same order) -- the restart form of "Deferred
   discriminators are resolved when their phase is reached" in the specification's own terms --; and, identities being
   distinct, marking the group forced in remaining_actions is the specification's [force_phase] *)
Theorem C04_restart_group_is_spec_phase : forall st new k grp,
  let pool := remaining st ++ new in
  In (k, grp) (g_groups (snd (restart st new))) ->
  map snd grp = at_phase k pool /\
  force_events grp = forces_of (at_phase k pool) /\
  (NoDup (map aid pool) -> mark_group grp (remaining (fst (restart st new))) = force_phase k pool).
Proof. exact restart_group_is_spec_phase. Qed.
Print Assumptions C04_restart_group_is_spec_phase.

Example C04_restart_group_is_spec_phase_nonvacuous :
  map (fun kg => (fst kg, map aidx (snd kg))) (g_groups (snd (restart w_st w_new))) = [(0%Z, [1%N]); (5%Z, [0%N; 2%N])] /\
  NoDup (map aid (remaining w_st ++ w_new)) /\
  forces_of (at_phase 0 (remaining w_st ++ w_new)) = [Force 1%N].
Proof. exact restart_group_witness. Qed.

(* the first group's key is the specification's smallest pending phase *)
Theorem C04_restart_first_group_is_min_phase : forall st new k grp gs,
  g_groups (snd (restart st new)) = (k, grp) :: gs ->
  min_phase (remaining st ++ new) = Some k.
Proof. exact restart_first_group_is_min_phase. Qed.
Print Assumptions C04_restart_first_group_is_min_phase.

(* mark_group, element by element: exactly the actions whose identity occurs in the group are forced *)
Theorem C04_mark_group_elementwise : forall grp l,
  mark_group grp l = map (fun b => if in_group grp b then force b else b) l.
Proof. exact mark_group_map. Qed.
Print Assumptions C04_mark_group_elementwise.

(* DEFERRED DISCRIMINATORS ARE RESOLVED WHEN THEIR PHASE IS REACHED -- the step that follows a (re-)declaration, in the
   specification's vocabulary and on the pool itself: before handing out [a] the generator forces exactly the
   still-deferred pending actions of phase <= phase of [a] ([upto]), phase by phase and in declaration order within a
   phase ([phase_sorted]: a permutation of the pool, sorted by phase -- C04_phase_sorted_is_the_pool_by_phase) *)
Theorem C04_restart_step_forces : forall st new a st2 g2 e,
  Forall Pact (remaining st) -> Forall Pact new ->
  gen_next cfg_current (fst (restart st new)) (snd (restart st new)) = SYield a st2 g2 e ->
  e = forces_of (upto (ordkey a) (phase_sorted (start st) (remaining st ++ new))).
Proof. exact (restart_step_forces cfg_current). Qed.
Print Assumptions C04_restart_step_forces.

Theorem C04_phase_sorted_is_the_pool_by_phase : forall s pool,
  Coq.Sorting.Permutation.Permutation (phase_sorted s pool) pool /\
  StronglySorted (fun a b => (ordkey a <= ordkey b)%Z) (phase_sorted s pool).
Proof. exact (fun s pool => conj (phase_sorted_perm s pool) (phase_sorted_sorted s pool)). Qed.
Print Assumptions C04_phase_sorted_is_the_pool_by_phase.

Example C04_restart_step_forces_nonvacuous :
  let st := {| resolved := []; remaining := [mkA 0 (Defer None) [] (Some 5%Z) []]; min_order := None; start := 0%N |} in
  let new := [mkA 1 (Defer (Some 7%N)) [] (Some 0%Z) []; mkA 2 (Defer None) [] (Some 0%Z) []] in
  (exists a st2 g2, gen_next cfg_fixed (fst (restart st new)) (snd (restart st new)) = SYield a st2 g2 [Force 1%N; Force 2%N]
                    /\ ordkey a = 0%Z) /\
  forces_of (upto 0 (phase_sorted 0 (remaining st ++ new))) = [Force 1%N; Force 2%N].
Proof. exact restart_step_forces_witness. Qed.
