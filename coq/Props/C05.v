(* C05 -- property theorems only.  Each is closed by [exact] of a lemma proved in Proofs/C05.v or
   Proofs/C05_cfg.v; Print Assumptions beneath each. *)
From Coq Require Import List NArith ZArith Bool Sorting.Permutation.
Import ListNotations.
Require Import Verif.Lib.Wire Verif.Gen.Facts_C03 Verif.Model.C03 Verif.Gen.Facts_C05 Verif.Model.C05.
Require Import Verif.Proofs.C05 Verif.Proofs.C05_cfg Verif.Proofs.C05_seq Verif.Proofs.C05_judge Verif.Proofs.C05_gen.
Require Verif.Gen.Facts_C18 Verif.Model.C18_base Verif.Model.C18.
Local Close Scope N_scope.
Local Open Scope nat_scope.

(* secured_outermost: in the order C18's sorter computes from the regenerated declarations of
   add_default_view_derivers, secured_view precedes every other sorted deriver, mapped_view is last, and the
   pipeline is the two fixed outer derivers followed by that order *)
Theorem C05_secured_outermost :
  exists ds mid,
    C18_base.sorted C18.default_derivers = C18_base.Sorted ds /\
    map fst ds = nm_secured_view :: mid ++ [nm_mapped_view] /\
    ~ In nm_secured_view mid /\
    deriver_names = Facts_C18.dv_outer ++ map fst ds.
Proof. exact secured_outermost. Qed.
Print Assumptions C05_secured_outermost.

(* every derived view: predicates, then the permission check, then the CSRF check, then the wrapper view, then the decorator *)
Theorem C05_wrappers_shape : forall d,
  wrappers d = pred_part d ++ sec_part d ++ csrf_part d ++ ow_part d ++ deco_part d.
Proof. exact wrappers_shape. Qed.
Print Assumptions C05_wrappers_shape.

(* effective_permission: the permission _secured_view closes over, as a table *)
Theorem C05_effective_permission : forall st exception_only perm p,
  secured_permission st exception_only perm = Some p <->
  rs_policy st = true /\ is_npr p = false /\
  (perm = Some p \/ (perm = None /\ exception_only = false /\ rs_defperm st = Some p)).
Proof. exact secured_permission_spec. Qed.
Print Assumptions C05_effective_permission.

Theorem C05_no_policy_no_protection : forall st eo perm,
  rs_policy st = false -> secured_permission st eo perm = None.
Proof. exact secured_no_policy. Qed.
Print Assumptions C05_no_policy_no_protection.

Theorem C05_marker_means_none : forall st eo p, is_npr p = true -> secured_permission st eo (Some p) = None.
Proof. exact secured_marker. Qed.
Print Assumptions C05_marker_means_none.

Theorem C05_exception_view_no_default : forall st, secured_permission st true None = None.
Proof. exact secured_exception_only_no_default. Qed.
Print Assumptions C05_exception_view_no_default.

(* mediation: for every registry state, decision table and request, every decorator entry and every
   execution of the callable of a view whose _secured_view closed over p is preceded, in the same request,
   by Permits p c true for the context c that view is called with *)
Theorem C05_mediation : forall R D tb q i e t c d p,
  nth_error (fst (router_call R D tb q)) i = Some e -> (e = Body t c \/ e = Deco t c) ->
  assocN t D = Some d -> d_perm d = Some p ->
  exists j, j < i /\ nth_error (fst (router_call R D tb q)) j = Some (Permits p c true).
Proof. exact mediation. Qed.
Print Assumptions C05_mediation.

(* refusal_blocks: a refused check is followed at once by the 403 handling (the exception-view tween receives
   HTTPForbidden); the only other possibility is a refusal while an exception view is being rendered, then it
   is the last event and HTTPForbidden leaves the application (refusal_403_partial of the design: finding
   C05-excview-refusal-propagates).  In neither case does an event of the refused view follow. *)
Theorem C05_refusal_blocks : forall R D tb q j p c,
  nth_error (fst (router_call R D tb q)) j = Some (Permits p c false) ->
  nth_error (fst (router_call R D tb q)) (S j) = Some (Raised EForbidden) \/
  (S j = length (fst (router_call R D tb q)) /\ snd (router_call R D tb q) = Propagated EForbidden /\
   exists k e, k < j /\ nth_error (fst (router_call R D tb q)) k = Some (Raised e)).
Proof. exact refusal_blocks. Qed.
Print Assumptions C05_refusal_blocks.

(* the full-strength "403 handling runs" clause is false of the faithful model: witness *)
Theorem C05_refusal_403_refuted :
  exists R D tb q j p c,
    nth_error (fst (router_call R D tb q)) j = Some (Permits p c false) /\
    nth_error (fst (router_call R D tb q)) (S j) <> Some (Raised EForbidden).
Proof. exact refusal_403_refuted. Qed.
Print Assumptions C05_refusal_403_refuted.

(* unprotected_never_blocked (1): the policy is only ever asked on behalf of a registered view that closed
   over that very permission *)
Theorem C05_permits_on_behalf : forall R D tb q p c b,
  In (Permits p c b) (fst (router_call R D tb q)) ->
  exists t d, assocN t D = Some d /\ (d_perm d = Some p \/ exists bh, d_body d = Slash (Some p) bh).
Proof. exact permits_on_behalf. Qed.
Print Assumptions C05_permits_on_behalf.

(* (2): when no registered view closed over a permission (no policy, or no effective permission anywhere)
   the policy is never asked *)
Theorem C05_unprotected_never_asked : forall R D tb q,
  (forall t d, In (t, d) D -> d_perm d = None /\ forall p bh, d_body d <> Slash (Some p) bh) ->
  forall p c b, ~ In (Permits p c b) (fst (router_call R D tb q)).
Proof. exact unprotected_never_asked. Qed.
Print Assumptions C05_unprotected_never_asked.

(* (3): HTTPForbidden out of the main handler has a source: a refused check or application code *)
Theorem C05_forbidden_has_source : forall R D tb q tr,
  handle_request R D tb q = (tr, Raise EForbidden) ->
  exists e, last_opt tr = Some e /\ forbidding D e.
Proof. exact forbidden_has_source. Qed.
Print Assumptions C05_forbidden_has_source.

(* order within a commit: every view a commit registers was derived under the registry state left by ALL
   policy / default-permission statements of that commit (phases), *)
Theorem C05_views_derived_under_final_state : forall s batch rt d,
  In (rt, d) (cs_D (commit s batch)) ->
  In (rt, d) (cs_D s) \/ exists cls eo o b, derive1 (cs_rs (commit s batch)) cls eo o b = Some d.
Proof. exact commit_views_final_state. Qed.
Print Assumptions C05_views_derived_under_final_state.

(* that state holds a policy iff the commit (or an earlier one) contains a policy statement, wherever it is written, *)
Theorem C05_commit_policy : forall s batch,
  rs_policy (cs_rs (commit s batch)) = rs_policy (cs_rs s) || existsb policy_kept batch.
Proof. exact commit_policy. Qed.
Print Assumptions C05_commit_policy.

(* order_irrelevant: and is the same for every permutation of the statements *)
Theorem C05_order_irrelevant_policy : forall s b1 b2,
  Permutation b1 b2 -> rs_policy (cs_rs (commit s b1)) = rs_policy (cs_rs (commit s b2)).
Proof. exact order_irrelevant_policy. Qed.
Print Assumptions C05_order_irrelevant_policy.

Theorem C05_order_irrelevant_defperm : forall s b1 b2 p,
  Permutation b1 b2 ->
  (forall q, In (ADefPerm q) (somes5 (map (directive (cs_rs s)) b1)) -> q = p) ->
  In (ADefPerm p) (somes5 (map (directive (cs_rs s)) b1)) ->
  rs_defperm (cs_rs (commit s b1)) = Some p /\ rs_defperm (cs_rs (commit s b2)) = Some p.
Proof. exact order_irrelevant_defperm. Qed.
Print Assumptions C05_order_irrelevant_defperm.

(* a view written before the policy statement of its commit is registered protected by its permission *)
Theorem C05_view_before_policy_protected : forall s pre o post truthy d p,
  let batch := pre ++ SView o :: post ++ [SPolicy truthy false] in
  o_exc_only o = false -> o_perm o = Some p -> is_npr p = false ->
  derive1 (cs_rs (commit s batch)) view_classifier false (viewdefaults o) (Plain (o_behave o)) = Some d ->
  In (r_tag (d_reg d), d) (cs_D (commit s batch)) /\ d_perm d = Some p.
Proof. exact view_before_policy_protected. Qed.
Print Assumptions C05_view_before_policy_protected.

(* the exception-view directives force "no permission required" and exception_only (regenerated facts) *)
Theorem C05_exception_directives_unprotected : forall st s o b,
  (exists o0, s = SForbidden o0 \/ s = SExcView o0 \/ exists a, s = SNotFound o0 a) ->
  directive st s = Some (AView o b) ->
  forall st', secured_permission st' true (o_perm o) = None /\ o_exc_only o = true.
Proof. exact exception_directives_unprotected. Qed.
Print Assumptions C05_exception_directives_unprotected.

(* from the program text to the table: every entry after a commit is an old entry or comes from a statement of the
   commit, derived under the commit's final state *)
Theorem C05_commit_table : forall s batch rt d,
  In (rt, d) (cs_D (commit s batch)) ->
  In (rt, d) (cs_D s) \/
  exists st eo o b, In st batch /\ directive (cs_rs s) st = Some (AView o b) /\ rt = rtag (o_tag o) eo /\
                    d_perm d = secured_permission (cs_rs (commit s batch)) eo (o_perm o) /\ d_body d = b /\
                    var_ok eo o.
Proof. exact commit_table. Qed.
Print Assumptions C05_commit_table.

(* with a policy in force the closed-over permission IS the property's effective permission *)
Theorem C05_effective_permission_declarative : forall dp eo perm,
  secured_permission (mkRS true dp) eo perm =
  match perm with
  | Some p => strip_npr (Some p)
  | None => if eo then None else strip_npr dp
  end.
Proof. exact secured_permission_declarative. Qed.
Print Assumptions C05_effective_permission_declarative.

Theorem C05_no_policy_nothing_protected : forall s batch rt d,
  rs_policy (cs_rs (commit s batch)) = false ->
  In (rt, d) (cs_D (commit s batch)) -> In (rt, d) (cs_D s) \/ d_perm d = None.
Proof. exact no_policy_nothing_protected. Qed.
Print Assumptions C05_no_policy_nothing_protected.

(* mediation at program level: any one-commit program on top of the constructor's state that contains a (kept) policy
   statement ANYWHERE, any decision table, any request: the tag of a Body/Deco event names a statement of the program and
   its variant (eo), and if that statement's effective permission (explicit, else the default unless exception variant,
   marker = none) is p, then Permits p c true precedes the event *)
Theorem C05_mediation_program : forall irq ier iw batch tb q i e rt c d,
  let s0 := init_state irq ier iw in
  let s := commit s0 batch in
  existsb policy_kept batch = true ->
  nth_error (fst (run_request s tb q)) i = Some e -> (e = Body rt c \/ e = Deco rt c) ->
  assocN rt (cs_D s) = Some d ->
  In (rt, d) (cs_D s0) \/
  exists st eo o b, In st batch /\ directive (cs_rs s0) st = Some (AView o b) /\ rt = rtag (o_tag o) eo /\
    forall p, match o_perm o with
              | Some p' => strip_npr (Some p')
              | None => if eo then None else strip_npr (rs_defperm (cs_rs s))
              end = Some p ->
              exists j, j < i /\ nth_error (fst (run_request s tb q)) j = Some (Permits p c true).
Proof. exact mediation_program. Qed.
Print Assumptions C05_mediation_program.

(* ---- several commits *)
Theorem C05_configure_table : forall batches s0 rt d,
  In (rt, d) (cs_D (fold_left commit batches s0)) ->
  In (rt, d) (cs_D s0) \/
  exists pre batch post st eo o b,
    batches = pre ++ batch :: post /\ In st batch /\
    directive (cs_rs (fold_left commit pre s0)) st = Some (AView o b) /\ rt = rtag (o_tag o) eo /\
    d_perm d = secured_permission (cs_rs (commit (fold_left commit pre s0) batch)) eo (o_perm o) /\ d_body d = b /\
    var_ok eo o.
Proof. exact configure_table. Qed.
Print Assumptions C05_configure_table.

(* mediation for ANY sequence of commits: a Body/Deco event names a statement of some commit and its variant; if, in the
   registry state at the end of THAT commit, a policy is in force and the statement's effective permission is p, then
   Permits p c true precedes the event *)
Theorem C05_mediation_sequence : forall irq ier iw batches tb q i e rt c d,
  let s0 := init_state irq ier iw in
  let s := fold_left commit batches s0 in
  nth_error (fst (run_request s tb q)) i = Some e -> (e = Body rt c \/ e = Deco rt c) ->
  assocN rt (cs_D s) = Some d ->
  In (rt, d) (cs_D s0) \/
  exists pre batch post st eo o b,
    batches = pre ++ batch :: post /\ In st batch /\
    directive (cs_rs (fold_left commit pre s0)) st = Some (AView o b) /\ rt = rtag (o_tag o) eo /\
    let sk := commit (fold_left commit pre s0) batch in
    forall p, rs_policy (cs_rs sk) = true ->
              match o_perm o with
              | Some p' => strip_npr (Some p')
              | None => if eo then None else strip_npr (rs_defperm (cs_rs sk))
              end = Some p ->
              exists j, j < i /\ nth_error (fst (run_request s tb q)) j = Some (Permits p c true).
Proof. exact mediation_sequence. Qed.
Print Assumptions C05_mediation_sequence.

(* later commits that hold only view statements see the policy / default permission of the earlier ones *)
Theorem C05_later_commits_stable : forall batches s,
  forallb (fun b => forallb (view_only_stmt (cs_rs s)) b) batches = true ->
  cs_rs (fold_left commit batches s) = cs_rs s.
Proof. exact later_commits_stable. Qed.
Print Assumptions C05_later_commits_stable.

(* ---- the judge run on the implementation's log and the theorems on the model are the same statement:
   the link between the table and the declarative [protected], and the judge's clauses on model traces *)
Theorem C05_table_link : forall irq ier iw prog rt d c p,
  prog_ok prog ->
  let s := commit (init_state irq ier iw) prog in
  In (rt, d) (cs_D s) ->
  variant_ev prog (Body rt c) = true ->
  protected prog (stag rt) c = Some p -> d_perm d = Some p.
Proof. exact table_link. Qed.
Print Assumptions C05_table_link.

(* judge_sound, clause J1 (mediation): for every one-commit program within the stated hypotheses (distinct small tags,
   policy statements kept, one default permission), every decision table and request, the executable clause evaluated on
   the observable projection of the model's trace is true -- provided the trace passes the executable variant check,
   which the run evaluates on every model trace *)
Theorem C05_judge_j1_sound : forall irq ier iw prog tb q,
  prog_ok prog ->
  let s := commit (init_state irq ier iw) prog in
  let tr := fst (run_request s tb q) in
  variant_okb prog tr = true -> j1 prog [] (proj_trace tr) = true.
Proof. exact judge_j1_sound. Qed.
Print Assumptions C05_judge_j1_sound.

(* judge_sound, clause J2 (refusal): for EVERY registry state, table and request the clause yields 0 (403 handling follows)
   or 4 (refusal while an exception view was being rendered: the open finding), never 2 *)
Theorem C05_judge_j2_sound : forall R D tb q,
  let tr := fst (router_call R D tb q) in
  let fin := snd (router_call R D tb q) in
  j2 (proj_final fin) false false (proj_trace tr) = 0%N \/ j2 (proj_final fin) false false (proj_trace tr) = 4%N.
Proof. exact judge_j2_sound. Qed.
Print Assumptions C05_judge_j2_sound.

(* ---- secure=False / __call_permissive__ / __permitted__ are modelled; the router never uses them *)
Theorem C05_router_uses_secure : forall R D tb q fuel cls req_sro name c,
  call_view5 R D tb q fuel cls req_sro name c = call_view_s R D tb q true fuel cls req_sro name c.
Proof. exact router_uses_secure. Qed.
Print Assumptions C05_router_uses_secure.

Theorem C05_secure_vs_permissive : forall D tb q lookup v c d p,
  assocN (r_tag v) D = Some d -> d_perm d = Some p ->
  qualifies (q_base q) (d_reg d) = true -> granted tb p c = true ->
  call_reg D tb q lookup v c =
  (Permits p c true :: fst (call_reg_permissive D tb q lookup v c), snd (call_reg_permissive D tb q lookup v c)).
Proof. exact secure_vs_permissive. Qed.
Print Assumptions C05_secure_vs_permissive.

Theorem C05_permissive_unsecured : forall D tb q lookup v c d,
  assocN (r_tag v) D = Some d -> d_perm d = None ->
  call_reg_permissive D tb q lookup v c = call_reg D tb q lookup v c.
Proof. exact permissive_unsecured. Qed.
Print Assumptions C05_permissive_unsecured.

Theorem C05_permitted_is_the_check : forall D tb v c d p,
  assocN (r_tag v) D = Some d -> d_perm d = Some p ->
  permitted_reg D tb v c = ([Permits p c (granted tb p c)], granted tb p c).
Proof. exact permitted_is_the_check. Qed.
Print Assumptions C05_permitted_is_the_check.

(* the repaired _call_view (regenerated fact permissive_checks_predicates): with secure=False a single secured view whose
   predicates fail is a PredicateMismatch, as it is with secure=True *)
Theorem C05_permissive_honours_predicates : forall D tb q lookup v c d p,
  assocN (r_tag v) D = Some d -> d_perm d = Some p -> qualifies (q_base q) (d_reg d) = false ->
  call_component_s D tb q false lookup (CView v) c = ([], Raise EPredMismatch).
Proof. exact permissive_honours_predicates. Qed.
Print Assumptions C05_permissive_honours_predicates.

(* so, for a secured single view under a granting policy, secure=False differs from secure=True by the check alone *)
Theorem C05_secure_vs_permissive_component : forall D tb q lookup v c d p,
  assocN (r_tag v) D = Some d -> d_perm d = Some p -> granted tb p c = true ->
  let '(trp, op) := call_component_s D tb q false lookup (CView v) c in
  call_component5 D tb q lookup (CView v) c =
  if qualifies (q_base q) (d_reg d) then (Permits p c true :: trp, op) else (trp, op).
Proof. exact secure_vs_permissive_component. Qed.
Print Assumptions C05_secure_vs_permissive_component.

(* ---- csrf_view enabled together with a permission (require_csrf=True) *)
Theorem C05_csrf_between_secured_and_owrapped :
  exists pre mid post, deriver_names = pre ++ nm_secured_view :: mid ++ nm_csrf_view :: nm_owrapped_view :: post /\ mid = [].
Proof. exact csrf_between_secured_and_owrapped. Qed.
Print Assumptions C05_csrf_between_secured_and_owrapped.

Theorem C05_csrf_after_permission : forall D tb q lookup v c d p,
  assocN (r_tag v) D = Some d -> d_perm d = Some p -> d_csrf d = true ->
  qualifies (q_base q) (d_reg d) = true ->
  call_reg D tb q lookup v c =
  if granted tb p c
  then if q_csrf_ok q
       then let '(tr, o) := run_ws tb q lookup (ow_part d ++ deco_part d) d (r_tag v) c in (Permits p c true :: tr, o)
       else ([Permits p c true], Raise ECsrf)
  else ([Permits p c false], Raise EForbidden).
Proof. exact csrf_after_permission. Qed.
Print Assumptions C05_csrf_after_permission.

(* ==== the program REGENERATED from the source on this run (Gen/Facts_C05.v, harness/c05/translate.py) equals the model *)
Theorem C05_gen_secured_permission_is_model : forall st exception_only perm,
  gen_secured_permission exception_only perm (rs_defperm st) (rs_policy st) = secured_permission st exception_only perm.
Proof. exact gen_secured_permission_is_model. Qed.
Print Assumptions C05_gen_secured_permission_is_model.

Theorem C05_gen_secured_call_is_model : forall tb q lookup p r d t c,
  run_ws tb q lookup (WSecured p :: r) d t c = gen_secured_call tb p c (run_ws tb q lookup r d t c).
Proof. exact gen_secured_call_is_model. Qed.
Print Assumptions C05_gen_secured_call_is_model.

Theorem C05_gen_secured_view_deriver_is_model : forall (V : Type) (f : V -> V) sp eo op dp (dbg : V -> V) v,
  gen_secured_view_deriver f (fun w => gen_authdebug_view sp false eo op dp w (dbg w)) v = f v.
Proof. exact @gen_secured_view_deriver_is_model. Qed.
Print Assumptions C05_gen_secured_view_deriver_is_model.

Theorem C05_gen_find_views_is_model : forall R cls rs cs nm,
  gen_find_views R rs cs nm None (Some cls) = find_views R cls rs cs nm.
Proof. exact gen_find_views_is_model. Qed.
Print Assumptions C05_gen_find_views_is_model.

Theorem C05_gen_call_view_is_model : forall D tb q lookup c find secure i a,
  gen_call_view (fun cmp => call_component5 D tb q lookup cmp c) (pc_of D) (pr_of D) (run_pr q)
                (call_pc D tb q lookup c) find secure (Some i) a
  = call_loop_s D tb q secure lookup (find i) c false.
Proof. exact gen_call_view_is_model. Qed.
Print Assumptions C05_gen_call_view_is_model.

(* the whole request path assembled from the regenerated pieces (invoke_request, excview_tween, _error_handler,
   invoke_exception_view, handle_request's view execution, _call_view, _find_views; keyword defaults from the signatures) *)
Theorem C05_gen_router_is_model : forall R D tb q, gen_router R D tb q = router_call R D tb q.
Proof. exact gen_router_is_model. Qed.
Print Assumptions C05_gen_router_is_model.

Theorem C05_gen_default_exceptionresponse_view : forall (V : Type) (f : V -> V -> V) (c r : V),
  gen_default_exceptionresponse_view f true c r = c.
Proof. exact @gen_default_exceptionresponse_view_is_model. Qed.
Print Assumptions C05_gen_default_exceptionresponse_view.

(* ==== the property, about the regenerated program *)
Theorem C05_gen_mediation : forall R D tb q i e t c d p,
  nth_error (fst (gen_router R D tb q)) i = Some e -> (e = Body t c \/ e = Deco t c) ->
  assocN t D = Some d -> d_perm d = Some p ->
  exists j, j < i /\ nth_error (fst (gen_router R D tb q)) j = Some (Permits p c true).
Proof. exact gen_mediation. Qed.
Print Assumptions C05_gen_mediation.

Theorem C05_gen_refusal_blocks : forall R D tb q j p c,
  nth_error (fst (gen_router R D tb q)) j = Some (Permits p c false) ->
  nth_error (fst (gen_router R D tb q)) (S j) = Some (Raised EForbidden) \/
  (S j = length (fst (gen_router R D tb q)) /\ snd (gen_router R D tb q) = Propagated EForbidden /\
   exists k e, k < j /\ nth_error (fst (gen_router R D tb q)) k = Some (Raised e)).
Proof. exact gen_refusal_blocks. Qed.
Print Assumptions C05_gen_refusal_blocks.

Theorem C05_gen_permits_on_behalf : forall R D tb q p c b,
  In (Permits p c b) (fst (gen_router R D tb q)) ->
  exists t d, assocN t D = Some d /\ (d_perm d = Some p \/ exists bh, d_body d = Slash (Some p) bh).
Proof. exact gen_permits_on_behalf. Qed.
Print Assumptions C05_gen_permits_on_behalf.

Theorem C05_gen_effective_permission : forall st exception_only perm p,
  gen_secured_permission exception_only perm (rs_defperm st) (rs_policy st) = Some p <->
  rs_policy st = true /\ is_npr p = false /\
  (perm = Some p \/ (perm = None /\ exception_only = false /\ rs_defperm st = Some p)).
Proof. exact gen_effective_permission. Qed.
Print Assumptions C05_gen_effective_permission.

Theorem C05_gen_mediation_program : forall irq ier iw batch tb q i e rt c d,
  let s0 := init_state irq ier iw in
  let s := commit s0 batch in
  existsb policy_kept batch = true ->
  nth_error (fst (gen_router (cs_R s) (cs_D s) tb q)) i = Some e -> (e = Body rt c \/ e = Deco rt c) ->
  assocN rt (cs_D s) = Some d ->
  In (rt, d) (cs_D s0) \/
  exists st eo o b, In st batch /\ directive (cs_rs s0) st = Some (AView o b) /\ rt = rtag (o_tag o) eo /\
    forall p, match o_perm o with
              | Some p' => strip_npr (Some p')
              | None => if eo then None else strip_npr (rs_defperm (cs_rs s))
              end = Some p ->
              exists j, j < i /\ nth_error (fst (gen_router (cs_R s) (cs_D s) tb q)) j = Some (Permits p c true).
Proof. exact gen_mediation_program. Qed.
Print Assumptions C05_gen_mediation_program.

(* ---------------------------------------------------------------- round 9: the registration key does not depend on how the
   predicate arguments are spelled (Proofs/C05_pred.v; pyramid/predicates.py is outside the anchor files, its constructors are
   regenerated by C03's translator -- these theorems make C05's build depend on generated = model for them) *)
Require Verif.Gen.Facts_C03_gen.
Require Import Verif.Proofs.C05_pred.

(* RequestMethodPredicate.__init__ (reference model): the predicate object is the sorted closure under "GET implies HEAD" *)
Theorem C05_method_canonical : forall l,
  mk_method (VTexts l) = Some (PMethod (sorted_texts (method_closure l))).
Proof. exact mk_method_canonical. Qed.
Print Assumptions C05_method_canonical.

(* two spellings of one method set (tuple order, HEAD next to GET written or implied) are one predicate *)
Theorem C05_method_spelling_irrelevant : forall l1 l2,
  Permutation (method_closure l1) (method_closure l2) -> mk_method (VTexts l1) = mk_method (VTexts l2).
Proof. exact method_spelling_irrelevant. Qed.
Print Assumptions C05_method_spelling_irrelevant.

(* RequestMethodPredicate.__init__ REGENERATED from pyramid/predicates.py on this run is the reference constructor *)
Theorem C05_gen_request_method_is_model : forall l,
  Facts_C03_gen.gen_factory nm_request_method (VTexts l) = mk_method (VTexts l).
Proof. exact gen_request_method_is_model. Qed.
Print Assumptions C05_gen_request_method_is_model.

(* ... so the spelling is irrelevant for the regenerated constructor too *)
Theorem C05_gen_method_spelling_irrelevant : forall l1 l2,
  Permutation (method_closure l1) (method_closure l2) ->
  Facts_C03_gen.gen_factory nm_request_method (VTexts l1) = Facts_C03_gen.gen_factory nm_request_method (VTexts l2).
Proof. exact gen_method_spelling_irrelevant. Qed.
Print Assumptions C05_gen_method_spelling_irrelevant.

(* PredicateList.make reads the predicate arguments only through the constructors *)
Theorem C05_make_reads_constructed_values : forall names kw1 kw2,
  kw_fact kw1 = kw_fact kw2 -> make names kw1 = make names kw2.
Proof. exact make_reads_constructed_values. Qed.
Print Assumptions C05_make_reads_constructed_values.

(* a re-spelled request_method= next to any other predicate arguments: the same order, predicates and phash *)
Theorem C05_make_respelled : forall l1 l2 rest,
  Permutation (method_closure l1) (method_closure l2) ->
  make pred_names (method_kw l1 rest) = make pred_names (method_kw l2 rest).
Proof. exact make_respelled. Qed.
Print Assumptions C05_make_respelled.

(* a statement that re-spells the predicates of another one of the same slot has the SAME discriminator (judge clause J6
   treats it as the override it is) ... *)
Theorem C05_respelled_same_key : forall a b,
  same_slot a b -> kw_fact (o_kw a) = kw_fact (o_kw b) -> make pred_names (o_kw a) <> None ->
  slot_key_eqb a b = true.
Proof. exact respelled_same_key. Qed.
Print Assumptions C05_respelled_same_key.

(* ... and add_view files both under the same slot, phash, predicate list and order: the key register_view replaces by *)
Theorem C05_respelled_same_registration : forall st cls eo a b bd da db,
  same_slot a b -> kw_fact (o_kw a) = kw_fact (o_kw b) ->
  derive1 st cls eo a bd = Some da -> derive1 st cls eo b bd = Some db ->
  r_slot (d_reg da) = r_slot (d_reg db) /\ r_phash (d_reg da) = r_phash (d_reg db)
  /\ r_preds (d_reg da) = r_preds (d_reg db) /\ r_order (d_reg da) = r_order (d_reg db).
Proof. exact respelled_same_registration. Qed.
Print Assumptions C05_respelled_same_registration.

(* non-vacuity: ('GET','POST') and ('POST','HEAD','GET') are one predicate, ('GET','POST') and ('POST',) are two *)
Example C05_ex_respelled :
  mk_method (VTexts [t_get; t_post]) = mk_method (VTexts [t_post; t_head; t_get])
  /\ mk_method (VTexts [t_get; t_post]) <> mk_method (VTexts [t_post]).
Proof. exact ex_respelled. Qed.

(* MultiView.__call__ REGENERATED from the source (loop over get_views, PredicateMismatch swallowed per view, PredicateMismatch
   when no view answers) is the model's mv_call5 for every list of entries; so the MultiView case of the component call of the
   request path (which the mediation theorems are about) is the regenerated loop *)
Theorem C05_gen_mv_call_is_model : forall D tb q lookup c l,
  gen_mv_call (fun cmp => call_component5 D tb q lookup cmp c) l = mv_call5 D tb q lookup l c.
Proof. exact gen_mv_call_is_model. Qed.
Print Assumptions C05_gen_mv_call_is_model.

Theorem C05_gen_mv_component_is_model : forall D tb q lookup c m,
  gen_mv_call (fun cmp => call_component5 D tb q lookup cmp c) (get_views m (q_base q))
  = call_component5 D tb q lookup (CMulti m) c.
Proof. exact gen_mv_component_is_model. Qed.
Print Assumptions C05_gen_mv_component_is_model.

(* ---------------------------------------------------------------- round 10: accept= views (content negotiation) *)
Theorem C05_accept_absent_plain : forall st cls eo o b d,
  assoc nm_accept (o_kw o) = None -> derive1 st cls eo o b = Some d -> r_accept (d_reg d) = None.
Proof. exact accept_absent_plain. Qed.
Print Assumptions C05_accept_absent_plain.

Theorem C05_accept_filed_under_offer : forall st cls eo o b d t,
  assoc nm_accept (o_kw o) = Some [(false, VText t)] -> derive1 st cls eo o b = Some d ->
  r_accept (d_reg d) = Some (mkOffer t t false).
Proof. exact accept_filed_under_offer. Qed.
Print Assumptions C05_accept_filed_under_offer.

Theorem C05_winner_tags_without_accept : forall D q,
  existsb has_accept (all_regs D) = false ->
  winner_tags D q = map (fun v => stag (r_tag v)) (spec_winners view_classifier (all_regs D) (main_request q)).
Proof. exact winner_tags_without_accept. Qed.
Print Assumptions C05_winner_tags_without_accept.

(* ---------------------------------------------------------------- proof round: judge clause J4 at registration level
   (Proofs/C05_j4.v, C05_j4gen.v) *)
Require Import Verif.Proofs.C05_j4 Verif.Proofs.C05_j4gen.

(* judge_sound, clause J4 ("never blocked otherwise"), registration level: for EVERY registry state, derived-view table,
   decision table and request, the executable clause -- every HTTPForbidden that reaches the exception-view tween, and an
   HTTPForbidden that leaves the application, directly follows a refused check or the callable of a view whose body raises it,
   or is the main handler's own HTTPForbidden re-raised -- accepts the whole trace of the request (the source of an
   HTTPForbidden is read from the table D; the program-text version j4 additionally needs stmt_behave = body of D) *)
Theorem C05_judge_j4_sound_D : forall R D tb q,
  j4D D (snd (router_call R D tb q)) None false (fst (router_call R D tb q)) = true.
Proof. exact j4D_sound. Qed.
Print Assumptions C05_judge_j4_sound_D.

(* the view-execution core never writes a Raised event: a Raised e in the log is the one event between the main handler's
   trace and the exception view's trace, and the main handler raised exactly e *)
Theorem C05_raised_only_between : forall R D tb q i e,
  nth_error (fst (router_call R D tb q)) i = Some (Raised e) ->
  exists tr1 tr2, fst (router_call R D tb q) = tr1 ++ Raised e :: tr2 /\ i = length tr1 /\ nr tr1 /\ nr tr2
                  /\ handle_request R D tb q = (tr1, Raise e).
Proof. exact raised_only_between. Qed.
Print Assumptions C05_raised_only_between.

(* the same clause, and J1 / J2, about the request path REGENERATED from the source *)
Theorem C05_gen_judge_j4_sound_D : forall R D tb q,
  j4D D (snd (gen_router R D tb q)) None false (fst (gen_router R D tb q)) = true.
Proof. exact gen_j4D_sound. Qed.
Print Assumptions C05_gen_judge_j4_sound_D.

Theorem C05_gen_judge_j2_sound : forall R D tb q,
  let tr := fst (gen_router R D tb q) in
  let fin := snd (gen_router R D tb q) in
  j2 (proj_final fin) false false (proj_trace tr) = 0%N \/ j2 (proj_final fin) false false (proj_trace tr) = 4%N.
Proof. exact gen_judge_j2_sound. Qed.
Print Assumptions C05_gen_judge_j2_sound.

Theorem C05_gen_judge_j1_sound : forall irq ier iw prog tb q,
  prog_ok prog ->
  let s := commit (init_state irq ier iw) prog in
  let tr := fst (gen_router (cs_R s) (cs_D s) tb q) in
  variant_okb prog tr = true -> j1 prog [] (proj_trace tr) = true.
Proof. exact gen_judge_j1_sound. Qed.
Print Assumptions C05_gen_judge_j1_sound.

(* non-vacuity: the clause rejects an HTTPForbidden after nothing / after an open body that returns, accepts it after a
   body that raises it *)
Example C05_ex_j4D_rejects :
  j4D [] (Resp 4500%N) None false [Raised EForbidden] = false
  /\ j4D [(2%N, mkD (mkReg (mkSlot 0%N 0%N 0%N []) 2%N [] 0%Z [] None false) None [] false (Plain BReturn) false)]
         (Resp 4500%N) None false [Body 2%N (CRes 0%N); Raised EForbidden] = false
  /\ j4D [(2%N, mkD (mkReg (mkSlot 0%N 0%N 0%N []) 2%N [] 0%Z [] None false) None [] false (Plain (BRaise EForbidden)) false)]
         (Resp 4500%N) None false [Body 2%N (CRes 0%N); Raised EForbidden] = true.
Proof. exact ex_j4D_rejects. Qed.

(* ---------------------------------------------------------------- second proof round: judge clause J5 at registration level
   (Proofs/C05_j5.v) and the statement/table link for J4's source test (Proofs/C05_j4link.v) *)
Require Import Verif.Proofs.C05_j5 Verif.Proofs.C05_j4link.

(* judge_sound, clause J5 ("no stray policy call"), registration level: for EVERY registry state, table, decision table and
   request the executable clause -- every policy call is about a permission some table entry closed over (its _secured_view,
   or the inner view of an append-slash Not Found view) -- accepts the trace of the request *)
Theorem C05_judge_j5_sound_D : forall R D tb q, j5D D (fst (router_call R D tb q)) = true.
Proof. exact j5D_sound. Qed.
Print Assumptions C05_judge_j5_sound_D.

Theorem C05_gen_judge_j5_sound_D : forall R D tb q, j5D D (fst (gen_router R D tb q)) = true.
Proof. exact gen_j5D_sound. Qed.
Print Assumptions C05_gen_judge_j5_sound_D.

(* what the clause says: it holds exactly when every policy call in the trace is on behalf of a table entry ... *)
Theorem C05_j5D_iff : forall D tr,
  j5D D tr = true <-> forall p c b, In (Permits p c b) tr -> on_behalf_b D p = true.
Proof. exact j5D_iff. Qed.
Print Assumptions C05_j5D_iff.

(* ... so with a table in which nothing closed over a permission, a trace the clause accepts never asks the policy *)
Theorem C05_j5D_unprotected : forall D tr,
  (forall kd, In kd D -> closes_over_any (snd kd) = false) -> j5D D tr = true ->
  forall p c b, ~ In (Permits p c b) tr.
Proof. exact j5D_unprotected. Qed.
Print Assumptions C05_j5D_unprotected.

Example C05_ex_j5D_rejects :
  j5D [] [Permits [118%N] (CRes 0%N) true] = false
  /\ j5D [(2%N, mkD (mkReg (mkSlot 0%N 0%N 0%N []) 2%N [] 0%Z [] None true) (Some [118%N]) [] false (Plain BReturn) false)]
         [Permits [118%N] (CRes 0%N) true; Body 2%N (CRes 0%N)] = true
  /\ j5D [(2%N, mkD (mkReg (mkSlot 0%N 0%N 0%N []) 2%N [] 0%Z [] None true) (Some [118%N]) [] false (Plain BReturn) false)]
         [Permits [101%N] (CRes 0%N) false] = false.
Proof. exact ex_j5D_rejects. Qed.

(* one-commit program within prog_ok: a table entry that is not the built-in view runs the body its statement declares *)
Theorem C05_behave_link : forall irq ier iw prog rt d,
  prog_ok prog ->
  In (rt, d) (cs_D (commit (init_state irq ier iw) prog)) ->
  N.leb (2 * builtin_tag) rt = false ->
  stmt_behave prog (stag rt) = body_behave (d_body d).
Proof. exact behave_link. Qed.
Print Assumptions C05_behave_link.

(* hence J4's program-text source test agrees with the registration-level one (C05_judge_j4_sound_D) on statement views *)
Theorem C05_forbid_source_link : forall irq ier iw prog rt d c,
  prog_ok prog ->
  let s := commit (init_state irq ier iw) prog in
  In (rt, d) (cs_D s) -> assocN rt (cs_D s) = Some d ->
  N.leb (2 * builtin_tag) rt = false ->
  forbid_source prog (Some (Body (stag rt) c)) = forbid_source_D (cs_D s) (Some (Body rt c)).
Proof. exact forbid_source_link. Qed.
Print Assumptions C05_forbid_source_link.

Example C05_ex_behave_link :
  prog_ok ex_prog2
  /\ option_map (fun d => body_behave (d_body d)) (assocN 2%N (cs_D (commit (init_state 1%N 7%N 8%N) ex_prog2)))
     = Some (stmt_behave ex_prog2 (stag 2%N))
  /\ stmt_behave ex_prog2 (stag 2%N) = BRaise EBoom.
Proof. exact ex_behave_link. Qed.

(* ---------------------------------------------------------------- third proof round (Proofs/C05_j4builtin.v): the built-in
   exception-response view -- the only entries whose Body events the observable projection drops -- returns and is unprotected,
   so a dropped Body event is never the source of an HTTPForbidden (second step towards the program-text clause J4) *)
Require Import Verif.Proofs.C05_j4builtin.

Theorem C05_builtin_returns : forall irq ier iw prog rt d,
  prog_ok prog ->
  In (rt, d) (cs_D (commit (init_state irq ier iw) prog)) ->
  N.leb (2 * builtin_tag) rt = true ->
  body_behave (d_body d) = BReturn /\ d_perm d = None.
Proof. exact builtin_returns. Qed.
Print Assumptions C05_builtin_returns.

Theorem C05_builtin_not_source : forall irq ier iw prog rt d c,
  prog_ok prog ->
  let s := commit (init_state irq ier iw) prog in
  In (rt, d) (cs_D s) -> assocN rt (cs_D s) = Some d ->
  N.leb (2 * builtin_tag) rt = true ->
  forbid_source_D (cs_D s) (Some (Body rt c)) = false.
Proof. exact builtin_not_source. Qed.
Print Assumptions C05_builtin_not_source.

Example C05_ex_builtin_returns :
  option_map (fun d => body_behave (d_body d)) (assocN 9000%N (cs_D (commit (init_state 1%N 7%N 8%N) ex_prog2))) = Some BReturn
  /\ N.leb (2 * builtin_tag) 9000%N = true.
Proof. exact ex_builtin_returns. Qed.
