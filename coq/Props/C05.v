(* C05 -- property theorems only. *)
From Coq Require Import List NArith ZArith Bool.
Import ListNotations.
Require Import Verif.Lib.Wire Verif.Gen.Facts_C03 Verif.Model.C03 Verif.Gen.Facts_C05 Verif.Model.C05 Verif.Proofs.C05.

Theorem C05_deriver_order :
  deriver_names = [nm_attr_wrapped_view; nm_predicated_view; nm_secured_view; nm_csrf_view; nm_owrapped_view;
                   nm_http_cached_view; nm_decorated_view; nm_rendered_view; nm_mapped_view].
Proof. exact deriver_names_eq. Qed.
Print Assumptions C05_deriver_order.
