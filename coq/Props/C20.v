(* C20 -- property theorems only. *)
From Coq Require Import List NArith Bool Permutation Sorted.
Import ListNotations.
Require Import Verif.Lib.Wire Verif.Lib.C20Types Verif.Gen.Facts_C20 Verif.Model.C20 Verif.Proofs.C20 Verif.Proofs.C20_commit Verif.Proofs.C20_rel Verif.Proofs.C20_wf Verif.Proofs.C20_gen Verif.Proofs.C20_ainfo Verif.Proofs.C20_ord.
Require Verif.Model.C04.

Theorem C20_keys_faithful : forall s k f,
  In s sites -> In (k, f) (s_keys s) ->
  mem_text k (s_params s) = true ->
  pair_mem (s_func s ++ [46%N] ++ s_var s) k documented_otherwise = false ->
  root_arg f = Some k.
Proof. exact keys_faithful. Qed.
Print Assumptions C20_keys_faithful.

Theorem C20_documented_keys_recorded : forall c ks k,
  In (c, ks) documented -> In k ks ->
  exists s f, In s sites /\ s_category s = c /\ In (k, f) (s_keys s).
Proof. exact documented_keys_recorded. Qed.
Print Assumptions C20_documented_keys_recorded.

(* every site of the regenerated directive tables hands its introspectable to an action (introspectables=) and
   runs under an action method, so that its entry is registered with the calling statement's action info *)
Theorem C20_sites_wired : forall s,
  In s sites ->
  exists w, In w sites_wiring /\ fst w = s_func s ++ [46%N] ++ s_var s /\ snd w = (true, true).
Proof. exact sites_wired. Qed.
Print Assumptions C20_sites_wired.

(* the entry discriminator of every site depends on every parameter that the discriminator of the entry-carrying
   action depends on (regenerated slices of both expressions): the entry key determines the conflict key *)
Theorem C20_entry_key_determines_action_key : forall s,
  In s sites ->
  exists r, In r sites_disc /\ fst r = s_func s ++ [46%N] ++ s_var s /\
            forall p, In p (fst (snd r)) -> mem_text p (snd (snd r)) = true.
Proof. exact entry_key_determines_action_key. Qed.
Print Assumptions C20_entry_key_determines_action_key.

(* an executed entry whose key no other executed entry shares is what the introspector holds after the commit *)
Theorem C20_entry_not_displaced : forall executed s' i rs,
  commit_register true init executed = Ok s' ->
  In (i, rs) (concat executed) ->
  (forall j rs', In (j, rs') (concat executed) -> icat j = icat i -> idisc j = idisc i -> (j, rs') = (i, rs)) ->
  lookup s' (icat i) (idisc i) = Some i.
Proof. exact entry_not_displaced. Qed.
Print Assumptions C20_entry_not_displaced.

(* when the entry key is an injective function of the conflict key, executed actions with pairwise distinct conflict
   keys (what conflict resolution leaves) all keep their entries *)
Theorem C20_injective_keys_keep_entries : forall (acts : list (text * (intr * list relop))) (f : text -> text) s',
  (forall a b, f a = f b -> a = b) ->
  NoDup (map fst acts) ->
  (forall a i rs, In (a, (i, rs)) acts -> idisc i = f a) ->
  commit_register true init (map (fun x => [snd x]) acts) = Ok s' ->
  forall a i rs, In (a, (i, rs)) acts -> lookup s' (icat i) (idisc i) = Some i.
Proof. exact injective_keys_keep_entries. Qed.
Print Assumptions C20_injective_keys_keep_entries.

Theorem C20_only_executed_are_recorded : forall executed s' c d,
  commit_register true init executed = Ok s' ->
  (lookup s' c d <> None <->
   exists i rs, In (i, rs) (concat executed) /\ icat i = c /\ idisc i = d).
Proof. exact only_executed_are_recorded. Qed.
Print Assumptions C20_only_executed_are_recorded.

Theorem C20_recorded_entry_is_latest : forall executed s' c d,
  commit_register true init executed = Ok s' ->
  lookup s' c d = option_map fst (find_last (keyb c d) (concat executed)).
Proof. exact recorded_entry_is_latest. Qed.
Print Assumptions C20_recorded_entry_is_latest.

Theorem C20_disabled_records_nothing : forall s executed, commit_register false s executed = Ok s.
Proof. exact disabled_records_nothing. Qed.
Print Assumptions C20_disabled_records_nothing.

Theorem C20_get_after_add : forall s i, snd (get (add s i) (icat i) (idisc i)) = Some i.
Proof. exact get_after_add. Qed.
Print Assumptions C20_get_after_add.

(* composed with the C04 commit model: entries follow the actions the commit executed *)
Theorem C20_entries_follow_executed_actions : forall acts intrs_of s' c d,
  commit_and_register true acts intrs_of = Ok s' ->
  (lookup s' c d <> None <->
   exists a i rs, In (C04.Run a) (snd (C04.commit acts)) /\ In (i, rs) (intrs_of a)
                  /\ icat i = c /\ idisc i = d).
Proof. exact entries_follow_executed_actions. Qed.
Print Assumptions C20_entries_follow_executed_actions.

Theorem C20_overridden_statement_has_no_entry : forall acts intrs_of s' a i rs,
  commit_and_register true acts intrs_of = Ok s' ->
  In (i, rs) (intrs_of a) ->
  (forall b j rs', In (C04.Run b) (snd (C04.commit acts)) -> In (j, rs') (intrs_of b) ->
                   (icat j, idisc j) <> (icat i, idisc i)) ->
  lookup s' (icat i) (idisc i) = None.
Proof. exact overridden_statement_has_no_entry. Qed.
Print Assumptions C20_overridden_statement_has_no_entry.

Theorem C20_disabled_commit_records_nothing : forall acts intrs_of,
  commit_and_register false acts intrs_of = Ok init.
Proof. exact disabled_commit_records_nothing. Qed.
Print Assumptions C20_disabled_commit_records_nothing.

(* relations link exactly the declared pairs, in both directions (distinct introspectables distinguishable,
   one registration per key, relations only added) *)
Theorem C20_relations_exact : forall l s a b,
  register_all init l = Ok s ->
  forallb (fun x => forallb is_rel (snd x)) l = true ->
  NoDup (map keyof l) ->
  (forall x y, In x (map fst l) -> In y (map fst l) -> cont_eq x y = true -> x = y) ->
  In a (map fst l) -> In b (map fst l) ->
  (linked s a b = true <-> a <> b /\ declared l a b).
Proof. exact relations_exact. Qed.
Print Assumptions C20_relations_exact.

Theorem C20_relations_symmetric : forall l s a b,
  register_all init l = Ok s ->
  forallb (fun x => forallb is_rel (snd x)) l = true ->
  NoDup (map keyof l) ->
  (forall x y, In x (map fst l) -> In y (map fst l) -> cont_eq x y = true -> x = y) ->
  In a (map fst l) -> In b (map fst l) ->
  linked s a b = linked s b a.
Proof. exact relations_symmetric. Qed.
Print Assumptions C20_relations_symmetric.

(* every state reached by any sequence of introspector operations keeps one entry per (category, discriminator),
   stored under the entry's own key; `remove` erases exactly that entry *)
Theorem C20_reachable_invariants : forall ops, WF (run_state init ops) /\ KeysOwn (run_state init ops).
Proof. exact reachable_invariants. Qed.
Print Assumptions C20_reachable_invariants.

Theorem C20_remove_erases : forall ops c d s',
  remove (run_state init ops) c d = (s', None) ->
  lookup s' c d = None /\
  forall c' d', (c', d') <> (c, d) -> lookup s' c' d' = lookup (run_state init ops) c' d'.
Proof. exact remove_erases. Qed.
Print Assumptions C20_remove_erases.

(* ------------------------------------------------------------------------------------------------
   The program REGENERATED from src/pyramid/registry.py and src/pyramid/config/actions.py on this run
   (Gen/Facts_C20.v, written by harness/c20/translate.py) equals the hand-written reference model. *)
Theorem C20_generated_add_is_model : forall s i, gen_add s i = (add s i, Ok tt).
Proof. exact gen_add_is_model. Qed.
Print Assumptions C20_generated_add_is_model.

Theorem C20_generated_get_is_model : forall s c d, gen_get s c d = (fst (get s c d), Ok (snd (get s c d))).
Proof. exact gen_get_is_model. Qed.
Print Assumptions C20_generated_get_is_model.

Theorem C20_generated_get_category_is_model : forall s c, gen_get_category s c = (s, get_category_rows s c).
Proof. exact gen_get_category_is_model. Qed.
Print Assumptions C20_generated_get_category_is_model.

Theorem C20_generated_categories_is_model : forall s, gen_categories s = (s, Ok (categories s)).
Proof. exact gen_categories_is_model. Qed.
Print Assumptions C20_generated_categories_is_model.

Theorem C20_generated_remove_is_model : forall s c d,
  KeysOwn s -> gen_remove s c d = (fst (remove s c d), unit_res (snd (remove s c d))).
Proof. exact gen_remove_is_model. Qed.
Print Assumptions C20_generated_remove_is_model.

Theorem C20_generated_intrs_by_pairs_is_model : forall s ps, gen_intrs_by_pairs s ps = (s, intrs_by_pairs s ps).
Proof. exact gen_intrs_by_pairs_is_model. Qed.
Print Assumptions C20_generated_intrs_by_pairs_is_model.

Theorem C20_generated_relate_is_model : forall s ps,
  gen_relate s ps = match relate s ps with Ok s' => (s', Ok tt) | Err e => (s, Err e) end.
Proof. exact gen_relate_is_model. Qed.
Print Assumptions C20_generated_relate_is_model.

Theorem C20_generated_unrelate_is_model : forall s ps,
  gen_unrelate s ps = match unrelate s ps with Ok s' => (s', Ok tt) | Err e => (s, Err e) end.
Proof. exact gen_unrelate_is_model. Qed.
Print Assumptions C20_generated_unrelate_is_model.

Theorem C20_generated_related_is_model : forall s i, gen_related s i = (s, related s i).
Proof. exact gen_related_is_model. Qed.
Print Assumptions C20_generated_related_is_model.

Theorem C20_generated_introspectable_relate_is_model : forall i rs c d,
  gen_intr_relate i rs c d = rs ++ [Rel c d] /\ gen_intr_unrelate i rs c d = rs ++ [Unrel c d].
Proof. exact gen_intr_relate_both. Qed.
Print Assumptions C20_generated_introspectable_relate_is_model.

Theorem C20_generated_register_is_model : forall s i rs,
  gen_register s i rs = (fst (register s i rs), unit_res (snd (register s i rs))).
Proof. exact gen_register_is_model. Qed.
Print Assumptions C20_generated_register_is_model.

Theorem C20_generated_registration_step_is_model : forall s l,
  res_of (gen_exec_register true s l) = register_all s l /\ gen_exec_register false s l = (s, Ok tt).
Proof. exact gen_exec_register_both. Qed.
Print Assumptions C20_generated_registration_step_is_model.

Theorem C20_generated_action_filter_is_model : forall b s executed,
  commit_register b s executed =
  res_of (gen_exec_register true s (concat (map (gen_action_filter b) executed))).
Proof. exact gen_action_filter_is_model. Qed.
Print Assumptions C20_generated_action_filter_is_model.

(* on every operation sequence the regenerated program answers exactly as the reference model *)
Theorem C20_generated_run_is_model : forall ops, gen_run_ops init ops = run_ops init ops.
Proof. exact gen_run_ops_is_model. Qed.
Print Assumptions C20_generated_run_is_model.

(* property theorems restated about the regenerated program *)
Theorem C20_only_executed_are_recorded_generated : forall executed s' c d,
  res_of (gen_exec_register true init (concat (map (gen_action_filter true) executed))) = Ok s' ->
  (lookup s' c d <> None <->
   exists i rs, In (i, rs) (concat executed) /\ icat i = c /\ idisc i = d).
Proof. exact only_executed_are_recorded_generated. Qed.
Print Assumptions C20_only_executed_are_recorded_generated.

Theorem C20_disabled_records_nothing_generated : forall s executed,
  res_of (gen_exec_register true s (concat (map (gen_action_filter false) executed))) = Ok s.
Proof. exact disabled_records_nothing_generated. Qed.
Print Assumptions C20_disabled_records_nothing_generated.

Theorem C20_get_after_add_generated : forall s i s1 r1,
  gen_add s i = (s1, r1) -> snd (gen_get s1 (icat i) (idisc i)) = Ok (Some i).
Proof. exact get_after_add_generated. Qed.
Print Assumptions C20_get_after_add_generated.

Theorem C20_remove_erases_generated : forall ops c d s',
  gen_remove (run_state init ops) c d = (s', Ok tt) ->
  snd (gen_get s' c d) = Ok None.
Proof. exact remove_erases_generated. Qed.
Print Assumptions C20_remove_erases_generated.

(* ---- action info (action_method's wrapper, action_info): the stack is restored on every exit *)
Theorem C20_ainfo_stack_balanced : forall zc c stk site, fst (run_call zc stk site c) = stk.
Proof. exact stack_balanced. Qed.
Print Assumptions C20_ainfo_stack_balanced.

(* every entry produced by a statement made on an idle configurator -- through any nesting of action methods, with or
   without `_info` of their own, failing or not -- carries the info of the statement itself *)
Theorem C20_statement_entries_point_at_statement : forall given body fails site,
  Forall (eq (info_of given site)) (fst (snd (run_call None [] site (Call given body fails)))).
Proof. exact statement_entries_point_at_statement. Qed.
Print Assumptions C20_statement_entries_point_at_statement.

(* histories on one long-lived configurator: whatever failed before, every statement's entries carry its own info and
   the stack is empty again afterwards *)
Theorem C20_history_statements_point_at_themselves : forall cs,
  fst (run_statements None [] cs) = [] /\
  Forall2 (fun c o => Forall (eq (own_info c)) o) cs (snd (run_statements None [] cs)).
Proof. exact history_statements_point_at_themselves. Qed.
Print Assumptions C20_history_statements_point_at_themselves.

(* ---- get_category (every state): exactly the stored entries of the category, in ascending registration order *)
Theorem C20_get_category_exact_and_sorted : forall s c l,
  get_category s c = Some l ->
  Permutation (map snd (cat_of s c)) l /\ Sorted (fun x y => (snd x <= snd y)%N) l.
Proof. exact get_category_exact_and_sorted. Qed.
Print Assumptions C20_get_category_exact_and_sorted.

Theorem C20_get_category_none : forall s c, get_category s c = None <-> assoc c (cats s) = None.
Proof. exact get_category_none. Qed.
Print Assumptions C20_get_category_none.

(* ---- the order invariant: in every state reached by any operation sequence the registration counters stored in a
   category are pairwise distinct and below the introspector's counter *)
Theorem C20_reachable_orders : forall ops c,
  NoDup (map (fun e => snd (snd e)) (cat_of (run_state init ops) c)) /\
  Forall (fun e => (snd (snd e) < counter (run_state init ops))%N) (cat_of (run_state init ops) c).
Proof. exact reachable_orders_cat. Qed.
Print Assumptions C20_reachable_orders.

(* hence get_category answers in STRICTLY ascending registration order in every reachable state *)
Theorem C20_get_category_strictly_ascending : forall ops c l,
  get_category (run_state init ops) c = Some l ->
  Sorted (fun x y => (snd x < snd y)%N) l /\ Forall (fun e => (snd e < counter (run_state init ops))%N) l.
Proof. exact get_category_strictly_ascending. Qed.
Print Assumptions C20_get_category_strictly_ascending.

(* ---- relations under unrelate: in a state whose relation lists hold registered, pairwise distinguishable objects
   without duplicates, unrelate of a pair withdraws exactly the links between the two objects, in both directions;
   symmetry is kept; relate keeps the two state hypotheses (so they hold along every relate / unrelate sequence) *)
Theorem C20_unrelate_withdraws_exactly : forall (pool : list intr) s c1 d1 c2 d2 s',
  (forall x y, In x pool -> In y pool -> cont_eq x y = true -> x = y) ->
  (forall c d t, lookup s c d = Some t -> In t pool) ->
  refs_in (fun t => In t pool) (refs s) -> lists_nodup (refs s) ->
  unrelate s [(c1, d1); (c2, d2)] = Ok s' ->
  exists x y, lookup s c1 d1 = Some x /\ lookup s c2 d2 = Some y /\
    refs_in (fun t => In t pool) (refs s') /\ lists_nodup (refs s') /\
    forall a b, In a pool -> In b pool ->
      (linked s' a b = true <-> linked s a b = true /\ ~ ((a = x \/ a = y) /\ (b = x \/ b = y))).
Proof. exact unrelate_withdraws_exactly. Qed.
Print Assumptions C20_unrelate_withdraws_exactly.

Theorem C20_unrelate_keeps_relations_symmetric : forall (pool : list intr) s c1 d1 c2 d2 s',
  (forall x y, In x pool -> In y pool -> cont_eq x y = true -> x = y) ->
  (forall c d t, lookup s c d = Some t -> In t pool) ->
  refs_in (fun t => In t pool) (refs s) -> lists_nodup (refs s) ->
  unrelate s [(c1, d1); (c2, d2)] = Ok s' ->
  (forall a b, In a pool -> In b pool -> linked s a b = linked s b a) ->
  forall a b, In a pool -> In b pool -> linked s' a b = linked s' b a.
Proof. exact unrelate_keeps_relations_symmetric. Qed.
Print Assumptions C20_unrelate_keeps_relations_symmetric.

Theorem C20_relate_keeps_relation_lists : forall (pool : list intr) s c1 d1 c2 d2 s',
  (forall x y, In x pool -> In y pool -> cont_eq x y = true -> x = y) ->
  (forall c d t, lookup s c d = Some t -> In t pool) ->
  refs_in (fun t => In t pool) (refs s) -> lists_nodup (refs s) ->
  relate s [(c1, d1); (c2, d2)] = Ok s' ->
  refs_in (fun t => In t pool) (refs s') /\ lists_nodup (refs s').
Proof. exact relate_keeps_relation_lists. Qed.
Print Assumptions C20_relate_keeps_relation_lists.

(* ---- remove keeps the relation-list hypotheses; hence they hold in every reachable state, and the unrelate theorem
   needs no state hypothesis *)
Require Import Verif.Proofs.C20_rm.

Theorem C20_remove_keeps_relation_lists : forall (pool : list intr) s c d s' e,
  refs_in (fun t => In t pool) (refs s) -> lists_nodup (refs s) -> remove s c d = (s', e) ->
  refs_in (fun t => In t pool) (refs s') /\ lists_nodup (refs s').
Proof. exact remove_keeps_relation_lists. Qed.
Print Assumptions C20_remove_keeps_relation_lists.

Theorem C20_reachable_relation_lists : forall (pool : list intr) ops,
  (forall x y, In x pool -> In y pool -> cont_eq x y = true -> x = y) ->
  Forall (op_in (fun t => In t pool)) ops ->
  (forall c d t, lookup (run_state init ops) c d = Some t -> In t pool) /\
  refs_in (fun t => In t pool) (refs (run_state init ops)) /\ lists_nodup (refs (run_state init ops)).
Proof. exact reachable_relation_lists. Qed.
Print Assumptions C20_reachable_relation_lists.

Theorem C20_unrelate_withdraws_exactly_reachable : forall (pool : list intr) ops c1 d1 c2 d2 s',
  (forall x y, In x pool -> In y pool -> cont_eq x y = true -> x = y) ->
  Forall (op_in (fun t => In t pool)) ops ->
  unrelate (run_state init ops) [(c1, d1); (c2, d2)] = Ok s' ->
  exists x y, lookup (run_state init ops) c1 d1 = Some x /\ lookup (run_state init ops) c2 d2 = Some y /\
    forall a b, In a pool -> In b pool ->
      (linked s' a b = true <->
       linked (run_state init ops) a b = true /\ ~ ((a = x \/ a = y) /\ (b = x \/ b = y))).
Proof. exact unrelate_withdraws_exactly_reachable. Qed.
Print Assumptions C20_unrelate_withdraws_exactly_reachable.

(* ---- symmetry in every state reached without `remove`: any sequence of adds, (re-)registrations with recorded relate /
   unrelate relations, relate / unrelate of any number of entries, reads; and no entry is linked to itself *)
Require Import Verif.Proofs.C20_sym.

Theorem C20_relations_symmetric_reachable : forall (pool : list intr) ops a b,
  (forall x y, In x pool -> In y pool -> cont_eq x y = true -> x = y) ->
  Forall (op_in (fun t => In t pool)) ops -> Forall no_remove ops ->
  In a pool -> In b pool ->
  linked (run_state init ops) a b = linked (run_state init ops) b a /\ linked (run_state init ops) a a = false.
Proof. exact relations_symmetric_reachable. Qed.
Print Assumptions C20_relations_symmetric_reachable.

Theorem C20_related_symmetric_reachable : forall (pool : list intr) ops a b la lb,
  (forall x y, In x pool -> In y pool -> cont_eq x y = true -> x = y) ->
  Forall (op_in (fun t => In t pool)) ops -> Forall no_remove ops ->
  In a pool -> In b pool ->
  lookup (run_state init ops) (icat a) (idisc a) = Some a ->
  lookup (run_state init ops) (icat b) (idisc b) = Some b ->
  related (run_state init ops) a = Ok la -> related (run_state init ops) b = Ok lb ->
  (In b la <-> In a lb).
Proof. exact related_symmetric_reachable. Qed.
Print Assumptions C20_related_symmetric_reachable.

(* ---- the keys of the relation table are pairwise distinct in every reachable state (no hypothesis on the objects) *)
Require Import Verif.Proofs.C20_keys.

Theorem C20_reachable_refs_keys_distinct : forall ops, NoDup (map fst (refs (run_state init ops))).
Proof. exact reachable_refs_keys_distinct. Qed.
Print Assumptions C20_reachable_refs_keys_distinct.
