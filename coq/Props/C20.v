(* C20 -- property theorems only. *)
From Coq Require Import List NArith Bool.
Import ListNotations.
Require Import Verif.Lib.Wire Verif.Lib.C20Types Verif.Gen.Facts_C20 Verif.Model.C20 Verif.Proofs.C20 Verif.Proofs.C20_commit Verif.Proofs.C20_rel Verif.Proofs.C20_wf.
Require Verif.Model.C04.

Theorem C20_keys_faithful : forall s k f,
  In s sites -> In (k, f) (s_keys s) ->
  mem_text k (s_params s) = true ->
  pair_mem (s_func s ++ [46%N] ++ s_var s) k documented_otherwise = false ->
  root_arg f = Some k.
Proof. exact keys_faithful. Qed.
Print Assumptions C20_keys_faithful.

Theorem C20_documented_keys_recorded : forall c ks k,
  In (c, ks) documented -> In k ks ->
  exists s f, In s sites /\ s_category s = c /\ In (k, f) (s_keys s).
Proof. exact documented_keys_recorded. Qed.
Print Assumptions C20_documented_keys_recorded.

Theorem C20_only_executed_are_recorded : forall executed s' c d,
  commit_register true init executed = Ok s' ->
  (lookup s' c d <> None <->
   exists i rs, In (i, rs) (concat executed) /\ icat i = c /\ idisc i = d).
Proof. exact only_executed_are_recorded. Qed.
Print Assumptions C20_only_executed_are_recorded.

Theorem C20_recorded_entry_is_latest : forall executed s' c d,
  commit_register true init executed = Ok s' ->
  lookup s' c d = option_map fst (find_last (keyb c d) (concat executed)).
Proof. exact recorded_entry_is_latest. Qed.
Print Assumptions C20_recorded_entry_is_latest.

Theorem C20_disabled_records_nothing : forall s executed, commit_register false s executed = Ok s.
Proof. exact disabled_records_nothing. Qed.
Print Assumptions C20_disabled_records_nothing.

Theorem C20_get_after_add : forall s i, snd (get (add s i) (icat i) (idisc i)) = Some i.
Proof. exact get_after_add. Qed.
Print Assumptions C20_get_after_add.

(* composed with the C04 commit model: entries follow the actions the commit executed *)
Theorem C20_entries_follow_executed_actions : forall acts intrs_of s' c d,
  commit_and_register true acts intrs_of = Ok s' ->
  (lookup s' c d <> None <->
   exists a i rs, In (C04.Run a) (snd (C04.commit acts)) /\ In (i, rs) (intrs_of a)
                  /\ icat i = c /\ idisc i = d).
Proof. exact entries_follow_executed_actions. Qed.
Print Assumptions C20_entries_follow_executed_actions.

Theorem C20_overridden_statement_has_no_entry : forall acts intrs_of s' a i rs,
  commit_and_register true acts intrs_of = Ok s' ->
  In (i, rs) (intrs_of a) ->
  (forall b j rs', In (C04.Run b) (snd (C04.commit acts)) -> In (j, rs') (intrs_of b) ->
                   (icat j, idisc j) <> (icat i, idisc i)) ->
  lookup s' (icat i) (idisc i) = None.
Proof. exact overridden_statement_has_no_entry. Qed.
Print Assumptions C20_overridden_statement_has_no_entry.

Theorem C20_disabled_commit_records_nothing : forall acts intrs_of,
  commit_and_register false acts intrs_of = Ok init.
Proof. exact disabled_commit_records_nothing. Qed.
Print Assumptions C20_disabled_commit_records_nothing.

(* relations link exactly the declared pairs, in both directions (distinct introspectables distinguishable,
   one registration per key, relations only added) *)
Theorem C20_relations_exact : forall l s a b,
  register_all init l = Ok s ->
  forallb (fun x => forallb is_rel (snd x)) l = true ->
  NoDup (map keyof l) ->
  (forall x y, In x (map fst l) -> In y (map fst l) -> cont_eq x y = true -> x = y) ->
  In a (map fst l) -> In b (map fst l) ->
  (linked s a b = true <-> a <> b /\ declared l a b).
Proof. exact relations_exact. Qed.
Print Assumptions C20_relations_exact.

Theorem C20_relations_symmetric : forall l s a b,
  register_all init l = Ok s ->
  forallb (fun x => forallb is_rel (snd x)) l = true ->
  NoDup (map keyof l) ->
  (forall x y, In x (map fst l) -> In y (map fst l) -> cont_eq x y = true -> x = y) ->
  In a (map fst l) -> In b (map fst l) ->
  linked s a b = linked s b a.
Proof. exact relations_symmetric. Qed.
Print Assumptions C20_relations_symmetric.

(* every state reached by any sequence of introspector operations keeps one entry per (category, discriminator),
   stored under the entry's own key; `remove` erases exactly that entry *)
Theorem C20_reachable_invariants : forall ops, WF (run_state init ops) /\ KeysOwn (run_state init ops).
Proof. exact reachable_invariants. Qed.
Print Assumptions C20_reachable_invariants.

Theorem C20_remove_erases : forall ops c d s',
  remove (run_state init ops) c d = (s', None) ->
  lookup s' c d = None /\
  forall c' d', (c', d') <> (c, d) -> lookup s' c' d' = lookup (run_state init ops) c' d'.
Proof. exact remove_erases. Qed.
Print Assumptions C20_remove_erases.
