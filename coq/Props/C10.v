(* C10 -- property theorems only.  Each is closed by [exact] of a lemma proved in
   Proofs/C10.v; Print Assumptions beneath each.  The third-party functions (hmac, json,
   base64: record [oracles]) are universally quantified; their round-trip properties
   rt_b64 / rt_ser / mac_len are explicit premises where needed. *)
From Coq Require Import List NArith ZArith Bool.
Import ListNotations.
Require Import Verif.Lib.Wire Verif.Gen.Facts_C10 Verif.Model.C10 Verif.Proofs.C10 Verif.Proofs.C10_sat
        Verif.Proofs.C10_on Verif.Proofs.C10_codec Verif.Proofs.C10_real
        Verif.Proofs.C10_gen Verif.Proofs.C10_gen2 Verif.Proofs.C10_altered Verif.Proofs.C10_factory Verif.Proofs.C10_compose Verif.Proofs.C10_bounds.

(* constants read from session.py: the three comparisons are `>`, the limit is 4064, the payload
   is (accessed, created, state), each wrapped dict method wraps the dict method of its own name *)
Theorem C10_facts_ok : facts_check = true.
Proof. exact facts_ok. Qed.
Print Assumptions C10_facts_ok.

(* over the wrapper table read from the class body: every method that can change the state is
   wrapped by manage_changed, every reader by manage_accessed *)
Theorem C10_every_mutator_marks_dirty : forall m, wrapper_of m = expected_wrapper m.
Proof. exact every_mutator_marks_dirty. Qed.
Print Assumptions C10_every_mutator_marks_dirty.

(* semantic form: whichever public operation changes the stored data leaves the session dirty *)
Theorem C10_mutation_implies_dirty : forall o p t s,
  st (fst (step o p t s)) <> st s -> dirty (fst (step o p t s)) = true.
Proof. exact mutation_implies_dirty. Qed.
Print Assumptions C10_mutation_implies_dirty.

(* an operation list acts on data, time stamp and dirty flag as the declarative fold says:
   dirty iff it was dirty, or a mutator / changed() ran, or an accessor ran more than
   reissue_time after the renewal; created, renewed, new are untouched *)
Theorem C10_ops_refine_spec : forall o l s,
  spec_ops o (tval (renewed s)) l (st s) (accessed s) (dirty s)
  = (st (fst (run_ops o l s)), accessed (fst (run_ops o l s)), dirty (fst (run_ops o l s)), snd (run_ops o l s))
  /\ created (fst (run_ops o l s)) = created s
  /\ renewed (fst (run_ops o l s)) = renewed s
  /\ isnew (fst (run_ops o l s)) = isnew s.
Proof. exact run_ops_spec. Qed.
Print Assumptions C10_ops_refine_spec.

(* THE property over histories: for every chain of requests, each observation of the model
   (new?, creation time, data at the start, results, data at the end, cookie set / not / refused)
   equals the declarative store semantics wherever the property constrains it *)
(* FULL statement (the property): the same without the premise [chain_ok].  It is FALSE of the code as it is:
   an altered cookie TEXT whose lenient base64 decoding is unchanged is accepted (C10_altered_cookie_rejected_refuted).
   chain_ok: every altered text presented is one the signature check refuses. *)
Theorem C10_chain_refines_spec_partial : forall O o, rt_b64 O -> rt_ser O -> mac_len O ->
  forall l last sv, chain_ok O o l -> inv O o last sv ->
  Forall2 ok_at (run_chain O o last l) (spec_chain O o sv true l).
Proof. exact chain_refines_spec. Qed.
Print Assumptions C10_chain_refines_spec_partial.

(* the cookie just set, presented before the timeout, restores data and creation time *)
Theorem C10_persistence : forall O o s exc c now, rt_b64 O -> rt_ser O -> mac_len O ->
  finish O o s exc = FCookie c ->
  expired o now (tval (accessed s)) = false ->
  exists s0, init O o (Some c) now = IOk s0 /\ st s0 = st s /\ tval (created s0) = tval (created s)
             /\ isnew s0 = false /\ dirty s0 = false /\ tval (renewed s0) = tval (accessed s).
Proof. exact persistence. Qed.
Print Assumptions C10_persistence.

(* clock in ticks of 1/4 s: kept exactly at the timeout (measured from the stamp in the cookie),
   emptied one tick later, never raising, never "new" *)
Theorem C10_timeout_boundary : forall O o s exc c t, rt_b64 O -> rt_ser O -> mac_len O ->
  finish O o s exc = FCookie c -> timeout o = Some t ->
  (exists s0, init O o (Some c) (tval (accessed s) + t * tick) = IOk s0 /\ st s0 = st s /\ isnew s0 = false)
  /\ (exists s0, init O o (Some c) (tval (accessed s) + t * tick + 1) = IOk s0 /\ st s0 = [] /\ isnew s0 = false
                 /\ tval (created s0) = tval (created s)).
Proof. exact timeout_boundary. Qed.
Print Assumptions C10_timeout_boundary.

Theorem C10_cookie_iff_dirty : forall O o s exc,
  finish O o s exc <> FNone <-> (dirty s = true /\ (soe o = true \/ exc = false)).
Proof. exact cookie_iff_dirty. Qed.
Print Assumptions C10_cookie_iff_dirty.

Theorem C10_reissue_boundary : forall o p t s r,
  op_cls p (st s) = CAcc -> reissue o = Some r ->
  dirty (fst (step o p t s)) = dirty s || Z.gtb (int_time t * tick - tval (renewed s)) (r * tick).
Proof. exact reissue_boundary. Qed.
Print Assumptions C10_reissue_boundary.

Theorem C10_created_preserved : forall o l s, created (fst (run_ops o l s)) = created s.
Proof. exact created_preserved. Qed.
Print Assumptions C10_created_preserved.

(* every byte string: a new empty session (no exception), or its decoded bytes are
   mac key payload ++ payload for the session's own key *)
Theorem C10_tamper_new_empty : forall O o c now,
  init O o (Some c) now = IOk (fresh_sess now)
  \/ exists p, unb64 O c = Some (mac O (key o) p ++ p).
Proof. exact tamper_new_empty. Qed.
Print Assumptions C10_tamper_new_empty.

Theorem C10_valid_signed_spec : forall O k c, mac_len O ->
  (valid_signed O k c = true <->
   exists p, unb64 O c = Some (mac O k p ++ p) /\ (canonical_check = true -> b64 O (mac O k p ++ p) = c)).
Proof. exact valid_signed_spec. Qed.
Print Assumptions C10_valid_signed_spec.

(* above the limit: refused, nothing truncated; a cookie that is set is the whole serialisation *)
Theorem C10_oversize_refused : forall O o s exc,
  dirty s = true -> (soe o = true \/ exc = false) ->
  (Z.of_nat (length (cookie_of O o s)) > Z.of_N cookie_limit)%Z ->
  finish O o s exc = FOversize.
Proof. exact oversize_refused. Qed.
Print Assumptions C10_oversize_refused.

Theorem C10_cookie_is_whole : forall O o s exc c,
  finish O o s exc = FCookie c ->
  c = cookie_of O o s /\ dirty s = true /\ (soe o = true \/ exc = false)
  /\ (Z.of_nat (length c) <= Z.of_N cookie_limit)%Z.
Proof. exact finish_cookie_inv. Qed.
Print Assumptions C10_cookie_is_whole.

(* the three premises are jointly satisfiable (verified encoder/decoder for the JSON data model),
   and the chain theorem instantiated there has no premise left *)
Theorem C10_premises_satisfiable : exists O, rt_b64 O /\ rt_ser O /\ mac_len O.
Proof. exact premises_satisfiable. Qed.
Print Assumptions C10_premises_satisfiable.

Theorem C10_chain_refines_spec_instance_partial : forall o l, chain_ok sat_O o l ->
  Forall2 ok_at (run_chain sat_O o None l) (spec_chain sat_O o None true l).
Proof. exact chain_refines_spec_instance. Qed.
Print Assumptions C10_chain_refines_spec_instance_partial.

(* ---- the real wire format: round trips of the Gallina json.dumps / urlsafe base64 that the runner
   uses (and that the correspondence run compares character by character with the real libraries) *)
Theorem C10_json_roundtrip : forall v, wf_jv v = true -> json_loads (json_dumps v) = Some v.
Proof. exact json_loads_dumps. Qed.
Print Assumptions C10_json_roundtrip.

Theorem C10_b64_roundtrip : forall x, Forall (fun b => (b < 256)%N) x -> b64dec (b64enc x) = Some x.
Proof. exact b64dec_b64enc. Qed.
Print Assumptions C10_b64_roundtrip.

(* the chain theorem with the codec premises restricted to a class W of states closed under the
   operations of the chain *)
Theorem C10_chain_refines_spec_on_partial : forall O o (W : dict -> Prop),
  mac_len O -> codec_ok O (key o) W -> W [] ->
  forall l last sv, chain_ok O o l -> chain_closed W l -> inv_on O o W last sv ->
  Forall2 ok_at (run_chain O o last l) (spec_chain O o sv true l).
Proof. exact chain_refines_spec_on. Qed.
Print Assumptions C10_chain_refines_spec_on_partial.

(* instance for JSON + base64 as really written: the only things left about the MAC are its fixed
   length and that it yields bytes; operations carry well-formed data (Unicode scalar values) *)
Theorem C10_chain_refines_spec_real_partial : forall macf n o l,
  (forall k m, length (macf k m) = n) -> (forall k m, Forall (fun b => (b < 256)%N) (macf k m)) -> wf_chain l ->
  chain_ok (real_O macf n) o l ->
  Forall2 ok_at (run_chain (real_O macf n) o None l) (spec_chain (real_O macf n) o None true l).
Proof. exact chain_refines_spec_real. Qed.
Print Assumptions C10_chain_refines_spec_real_partial.

Theorem C10_chain_refines_spec_real_closed_partial : forall o l, wf_chain l -> chain_ok (real_O toy_mac 1) o l ->
  Forall2 ok_at (run_chain (real_O toy_mac 1) o None l) (spec_chain (real_O toy_mac 1) o None true l).
Proof. exact chain_refines_spec_real_closed. Qed.
Print Assumptions C10_chain_refines_spec_real_closed_partial.

(* ==== the program regenerated from src/pyramid/session.py on this run (Gen/Prog_C10.v, by
   harness/c10/translate.py) equals the reference model, for all inputs ==== *)
Theorem C10_generated_changed_is_model : forall s, gen_changed s = mark s.
Proof. exact gen_changed_is_model. Qed.
Print Assumptions C10_generated_changed_is_model.

Theorem C10_generated_manage_accessed_is_model : forall o now w s,
  gen_manage_accessed o now w s = w (apply_wrap o now s 1%N).
Proof. exact gen_manage_accessed_is_model. Qed.
Print Assumptions C10_generated_manage_accessed_is_model.

Theorem C10_generated_manage_changed_is_model : forall o now w s,
  gen_manage_changed o now w s = w (apply_wrap o now s 2%N).
Proof. exact gen_manage_changed_is_model. Qed.
Print Assumptions C10_generated_manage_changed_is_model.

(* every operation: the regenerated wrappers (chosen by the class table) around the regenerated method
   bodies (invalidate, flash, pop_flash, peek_flash, new_csrf_token, get_csrf_token, changed) *)
Theorem C10_generated_step_is_model : forall o p now s, gstep o p now s = step o p now s.
Proof. exact gstep_is_model. Qed.
Print Assumptions C10_generated_step_is_model.

Theorem C10_generated_init_is_model : forall O o c now, gen_init O o c now = init O o c now.
Proof. exact gen_init_is_model. Qed.
Print Assumptions C10_generated_init_is_model.

Theorem C10_generated_set_cookie_is_model : forall O o exc s, gen_set_cookie O o exc s = set_cookie O o s exc.
Proof. exact gen_set_cookie_is_model. Qed.
Print Assumptions C10_generated_set_cookie_is_model.

Theorem C10_generated_chain_is_model : forall O o l last, grun_chain O o last l = run_chain O o last l.
Proof. exact grun_chain_is_model. Qed.
Print Assumptions C10_generated_chain_is_model.

(* ==== the property, literally about the regenerated program ==== *)
Theorem C10_chain_refines_spec_generated_partial : forall O o, rt_b64 O -> rt_ser O -> mac_len O ->
  forall l last sv, chain_ok O o l -> inv O o last sv ->
  Forall2 ok_at (grun_chain O o last l) (spec_chain O o sv true l).
Proof. exact generated_chain_refines_spec. Qed.
Print Assumptions C10_chain_refines_spec_generated_partial.

Theorem C10_chain_refines_spec_real_generated_partial : forall macf n o l,
  (forall k m, length (macf k m) = n) -> (forall k m, Forall (fun b => (b < 256)%N) (macf k m)) -> wf_chain l ->
  chain_ok (real_O macf n) o l ->
  Forall2 ok_at (grun_chain (real_O macf n) o None l) (spec_chain (real_O macf n) o None true l).
Proof. exact generated_chain_refines_spec_real. Qed.
Print Assumptions C10_chain_refines_spec_real_generated_partial.

Theorem C10_mutation_implies_dirty_generated : forall o p t s,
  st (fst (gstep o p t s)) <> st s -> dirty (fst (gstep o p t s)) = true.
Proof. exact generated_mutation_implies_dirty. Qed.
Print Assumptions C10_mutation_implies_dirty_generated.

Theorem C10_persistence_generated : forall O o s exc c now, rt_b64 O -> rt_ser O -> mac_len O ->
  gfinish O o s exc = FCookie c ->
  expired o now (tval (accessed s)) = false ->
  exists s0, gen_init O o (Some c) now = IOk s0 /\ st s0 = st s /\ tval (created s0) = tval (created s)
             /\ isnew s0 = false /\ dirty s0 = false /\ tval (renewed s0) = tval (accessed s).
Proof. exact generated_persistence. Qed.
Print Assumptions C10_persistence_generated.

Theorem C10_timeout_boundary_generated : forall O o s exc c t, rt_b64 O -> rt_ser O -> mac_len O ->
  gfinish O o s exc = FCookie c -> timeout o = Some t ->
  (exists s0, gen_init O o (Some c) (tval (accessed s) + t * tick) = IOk s0 /\ st s0 = st s /\ isnew s0 = false)
  /\ (exists s0, gen_init O o (Some c) (tval (accessed s) + t * tick + 1) = IOk s0 /\ st s0 = [] /\ isnew s0 = false
                 /\ tval (created s0) = tval (created s)).
Proof. exact generated_timeout_boundary. Qed.
Print Assumptions C10_timeout_boundary_generated.

Theorem C10_cookie_iff_dirty_generated : forall O o s exc,
  gfinish O o s exc <> FNone <-> (dirty s = true /\ (soe o = true \/ exc = false)).
Proof. exact generated_cookie_iff_dirty. Qed.
Print Assumptions C10_cookie_iff_dirty_generated.

Theorem C10_tamper_new_empty_generated : forall O o c now,
  gen_init O o (Some c) now = IOk (fresh_sess now)
  \/ exists p, unb64 O c = Some (mac O (key o) p ++ p).
Proof. exact generated_tamper_new_empty. Qed.
Print Assumptions C10_tamper_new_empty_generated.

Theorem C10_oversize_refused_generated : forall O o s exc,
  dirty s = true -> (soe o = true \/ exc = false) ->
  (Z.of_nat (length (cookie_of O o s)) > Z.of_N cookie_limit)%Z ->
  gfinish O o s exc = FOversize.
Proof. exact generated_oversize_refused. Qed.
Print Assumptions C10_oversize_refused_generated.

Theorem C10_reissue_boundary_generated : forall o p t s r,
  op_cls p (st s) = CAcc -> reissue o = Some r ->
  dirty (fst (gstep o p t s)) = dirty s || Z.gtb (int_time t * tick - tval (renewed s)) (r * tick).
Proof. exact generated_reissue_boundary. Qed.
Print Assumptions C10_reissue_boundary_generated.

Theorem C10_created_preserved_generated : forall o l s, created (fst (grun_ops o l s)) = created s.
Proof. exact generated_created_preserved. Qed.
Print Assumptions C10_created_preserved_generated.

(* ==== altered cookie texts (finding C10-lenient-base64-edit-accepted) ==== *)
(* the Gallina b64dec is Python's bytes_ + padding + base64.urlsafe_b64decode with all its tolerance (validated by the
   correspondence run: the runner decodes with it).  Without the canonical check the code sees a text only through
   its decoding: *)
Theorem C10_altered_same_decoding : forall O o c c' now, canonical_check = false ->
  unb64 O c = unb64 O c' -> init O o (Some c) now = init O o (Some c') now.
Proof. exact altered_same_decoding. Qed.
Print Assumptions C10_altered_same_decoding.

(* exactly which altered texts are accepted: those with the decoding of the cookie last set (if nobody else can sign) *)
Theorem C10_altered_cookie_accepted_iff_same_decoding : forall O o s c now,
  rt_b64 O -> rt_ser O -> mac_len O -> canonical_check = false ->
  (forall p, unb64 O c = Some (mac O (key o) p ++ p) -> unb64 O c = unb64 O (cookie_of O o s)) ->
  (accepted O o c now <-> unb64 O c = unb64 O (cookie_of O o s)).
Proof. exact altered_cookie_accepted_iff_same_decoding. Qed.
Print Assumptions C10_altered_cookie_accepted_iff_same_decoding.

(* the property's clause is false of the code as it is (real JSON + base64 format): the cookie with '=' appended *)
Theorem C10_altered_cookie_rejected_refuted : canonical_check = false ->
  rf_edit <> rf_last /\ wf_chain rf_chain
  /\ ~ Forall2 ok_at (run_chain rf_O rf_o None rf_chain) (spec_chain rf_O rf_o None true rf_chain).
Proof. exact altered_cookie_rejected_refuted. Qed.
Print Assumptions C10_altered_cookie_rejected_refuted.

(* once only the canonical text is accepted (regenerated fact), every altered text with an unchanged decoding is refused *)
Theorem C10_altered_same_decoding_rejected : forall O o s c now, rt_b64 O -> canonical_check = true ->
  c <> cookie_of O o s -> unb64 O c = unb64 O (cookie_of O o s) ->
  init O o (Some c) now = IOk (fresh_sess now).
Proof. exact altered_same_decoding_rejected. Qed.
Print Assumptions C10_altered_same_decoding_rejected.

(* ================================================================== the factory layer (round 5)
   regenerated from session.py on this run: _CanonicalBase64Serializer.loads / dumps, SignedCookieSessionFactory,
   the class-level option conversion of CookieSession *)
Theorem C10_generated_canon_loads_is_model : forall O inner c, gen_canon_loads O inner c = canon_loads O inner c.
Proof. exact gen_canon_loads_is_model. Qed.
Print Assumptions C10_generated_canon_loads_is_model.

Theorem C10_generated_signed_factory_is_model : forall a, gen_signed_factory a = signed_factory a.
Proof. exact gen_signed_factory_is_model. Qed.
Print Assumptions C10_generated_signed_factory_is_model.

Theorem C10_generated_config_is_model : forall b, gen_config b = config b.
Proof. exact gen_config_is_model. Qed.
Print Assumptions C10_generated_config_is_model.

(* the factory wraps the signed serializer: only the canonical text of a cookie is accepted *)
Theorem C10_canonical_check_on : canonical_check = true.
Proof. exact canonical_check_on. Qed.
Print Assumptions C10_canonical_check_on.

(* the key the cookies are signed with: salt ++ secret in latin-1 or else UTF-8 (absent / empty salt = nothing), not swapped,
   not replaced by a default *)
Theorem C10_factory_key : forall a, ser_key (b_ser (gen_signed_factory a)) = salted_key (fa_salt a) (fa_secret a).
Proof. exact factory_key. Qed.
Print Assumptions C10_factory_key.

(* the serializer object the session class receives IS the loads / dumps the session theorems speak about *)
Theorem C10_factory_loads_is_model : forall O a c,
  ser_loads O (b_ser (gen_signed_factory a)) c = loads O (salted_key (fa_salt a) (fa_secret a)) c.
Proof. exact factory_loads_is_model. Qed.
Print Assumptions C10_factory_loads_is_model.

Theorem C10_factory_dumps_is_model : forall O a p,
  ser_dumps O (b_ser (gen_signed_factory a)) p = signed_dumps O (salted_key (fa_salt a) (fa_secret a)) p.
Proof. exact factory_dumps_is_model. Qed.
Print Assumptions C10_factory_dumps_is_model.

Theorem C10_factory_serializer_roundtrip : forall O a p, rt_b64 O -> rt_ser O -> mac_len O ->
  ser_loads O (b_ser (gen_signed_factory a)) (ser_dumps O (b_ser (gen_signed_factory a)) p) = Some p.
Proof. exact factory_serializer_roundtrip. Qed.
Print Assumptions C10_factory_serializer_roundtrip.

(* options are converted ONCE, at configuration time, as documented: None stays None, everything else through
   int(); the factory call raises exactly when an int() does; set_on_exception counts by truth value *)
Theorem C10_factory_is_spec : forall a, gfactory a = spec_factory a.
Proof. exact gfactory_is_spec. Qed.
Print Assumptions C10_factory_is_spec.

(* falsy but valid: timeout=0 / False / 0.0 is the number 0, never "no timeout" (Example ex_factory) *)
Theorem C10_factory_zero_is_not_none : forall a o z,
  gfactory a = FacOk o -> int_of (fa_timeout a) = FOk z -> timeout o = Some z.
Proof. exact factory_zero_is_not_none. Qed.
Print Assumptions C10_factory_zero_is_not_none.

Theorem C10_factory_none_stays_none : forall a o,
  gfactory a = FacOk o ->
  (timeout o = None <-> fa_timeout a = CNone) /\ (reissue o = None <-> fa_reissue a = CNone).
Proof. exact factory_none_stays_none. Qed.
Print Assumptions C10_factory_none_stays_none.

Theorem C10_factory_raises_only_if : forall a,
  gfactory a = FacRaise ->
  exists v, In v [fa_max_age a; fa_reissue a; fa_timeout a] /\ v <> CNone /\ int_of v = FErr.
Proof. exact factory_raises_iff. Qed.
Print Assumptions C10_factory_raises_only_if.

(* THE property over histories with the premise reduced to unforgeability (Example ex_unforged: satisfiable by a
   chain that presents an altered cookie).  With canonical_check the base64 leniency no longer matters. *)
Theorem C10_chain_refines_spec_canonical : forall O o, canonical_check = true -> rt_b64 O -> rt_ser O -> mac_len O ->
  forall l last sv, unforged O o l -> inv O o last sv ->
  Forall2 ok_at (run_chain O o last l) (spec_chain O o sv true l).
Proof. exact chain_refines_spec_canonical. Qed.
Print Assumptions C10_chain_refines_spec_canonical.

(* an alteration of the cookie last set that leaves its decoding unchanged is refused with no premise about the MAC *)
Theorem C10_altered_same_decoding_unforged : forall O o v c, rt_b64 O -> canonical_check = true ->
  c <> cookie_of O o (store_sess v) -> unb64 O c = unb64 O (cookie_of O o (store_sess v)) ->
  valid_signed O (key o) c = false.
Proof. exact altered_same_decoding_unforged. Qed.
Print Assumptions C10_altered_same_decoding_unforged.

(* end to end: from the arguments given to SignedCookieSessionFactory to the store semantics of whole histories *)
Theorem C10_factory_chain_refines_spec : forall O a o, canonical_check = true -> rt_b64 O -> rt_ser O -> mac_len O ->
  gfactory a = FacOk o ->
  key o = salted_key (fa_salt a) (fa_secret a) /\
  (forall c, ser_loads O (b_ser (gen_signed_factory a)) c = loads O (key o) c) /\
  (forall p, ser_dumps O (b_ser (gen_signed_factory a)) p = signed_dumps O (key o) p) /\
  forall l, unforged O o l -> Forall2 ok_at (grun_chain O o None l) (spec_chain O o None true l).
Proof. exact factory_chain_refines_spec. Qed.
Print Assumptions C10_factory_chain_refines_spec.

(* ================================================================== calls of the factory (round 6): the order of
   the parameters in the signature and the defaults are regenerated from the source *)
Theorem C10_generated_signature_is_documented : gen_sig = doc_sig /\ gen_defaults = doc_defaults.
Proof. exact gen_sig_is_doc. Qed.
Print Assumptions C10_generated_signature_is_documented.

(* positional, keyword or omitted: the factory built is the documented reading of the call (each parameter has the
   value the caller gave for it, else the documented default), converted as C10_factory_is_spec says *)
Theorem C10_factory_call_is_spec : forall c, wf_call c -> gfactory_call c = spec_factory_call c.
Proof. exact gfactory_call_is_spec. Qed.
Print Assumptions C10_factory_call_is_spec.

Theorem C10_factory_call_positional_is_keyword : forall c c', wf_call c -> wf_call c' -> c_vals c = c_vals c' ->
  gfactory_call c = gfactory_call c'.
Proof. exact positional_is_keyword. Qed.
Print Assumptions C10_factory_call_positional_is_keyword.

(* ================================================================== request plumbing (round 6): regenerated from
   pyramid/request.py -- add_response_callback, _process_response_callbacks, Request.session *)
Theorem C10_generated_add_cb_is_model : forall q c, gen_add_cb q c = q ++ [c].
Proof. exact gen_add_cb_is_model. Qed.
Print Assumptions C10_generated_add_cb_is_model.

(* every queued callback is called once, oldest first *)
Theorem C10_generated_process_cbs_is_model : forall (A : Type) (call : cb -> A -> A) q a,
  gen_process_cbs call q a = fold_left (fun a c => call c a) q a.
Proof. exact (@gen_process_cbs_is_model). Qed.
Print Assumptions C10_generated_process_cbs_is_model.

Theorem C10_generated_request_session_is_model : forall (A : Type) (f : unit -> A),
  gen_request_session (Some f) = Some (f tt) /\ @gen_request_session A None = None.
Proof. intros A f. split; [exact (gen_request_session_is_model f)|exact gen_request_session_none]. Qed.
Print Assumptions C10_generated_request_session_is_model.

(* whatever other response callbacks the application registers before or after it uses the session: the session's
   own callback runs exactly once iff the session is dirty, and the cookie is the one _set_cookie computes *)
Theorem C10_request_callbacks_run_session_once : forall O o s exc n, gfinish_q O o s exc n = finish O o s exc.
Proof. exact gfinish_q_is_model. Qed.
Print Assumptions C10_request_callbacks_run_session_once.

(* the cookie attributes (name, path, domain, secure, httponly, samesite) reach the session class as the caller gave
   them or as documented by default: unchanged, uncrossed (regenerated: the factory's call of BaseCookieSessionFactory
   and the _cookie_name .. _cookie_samesite class attributes) *)
Theorem C10_factory_call_attrs : forall c, wf_call c -> gfactory_call c <> FacRaise -> gfactory_call c <> FacUnm ->
  gcall_attrs c = doc_attrs c.
Proof. exact factory_call_attrs. Qed.
Print Assumptions C10_factory_call_attrs.

(* Router.invoke_request (regenerated): the response callbacks run once the response exists, so the cookie the
   request ends with is the one _set_cookie computes iff the session is dirty *)
Theorem C10_router_invokes_callbacks : forall O o s exc n, gfinish_r O o s exc n = finish O o s exc.
Proof. exact gfinish_r_is_model. Qed.
Print Assumptions C10_router_invokes_callbacks.

(* ================================================================== proof-only round (Proofs/C10_compose.v) *)
(* whatever the nesting of canonical wrappers, the serializer object is the signed serializer under its key behind
   ONE canonical check iff there is at least one wrapper; wrapping twice is wrapping once *)
Theorem C10_ser_loads_any_nesting : forall O d c,
  ser_loads O d c = if ser_canonical d then canon_loads O (signed_loads O (ser_key d)) c
                    else signed_loads O (ser_key d) c.
Proof. exact ser_loads_any_nesting. Qed.
Print Assumptions C10_ser_loads_any_nesting.

Theorem C10_canonical_wrapper_idempotent : forall O d c,
  ser_loads O (SCanon (SCanon d)) c = ser_loads O (SCanon d) c.
Proof. exact ser_loads_wrap_idem. Qed.
Print Assumptions C10_canonical_wrapper_idempotent.

Theorem C10_ser_dumps_any_nesting : forall O d p, ser_dumps O d p = signed_dumps O (ser_key d) p.
Proof. exact ser_dumps_any_nesting. Qed.
Print Assumptions C10_ser_dumps_any_nesting.

(* THE property over histories, premise: unforgeability only (the hypothesis canonical_check = true of
   C10_chain_refines_spec_canonical is discharged by C10_canonical_check_on) *)
Theorem C10_chain_refines_spec_unforged : forall O o, rt_b64 O -> rt_ser O -> mac_len O ->
  forall l last sv, unforged O o l -> inv O o last sv ->
  Forall2 ok_at (run_chain O o last l) (spec_chain O o sv true l).
Proof. exact chain_refines_spec_unforged. Qed.
Print Assumptions C10_chain_refines_spec_unforged.

(* end to end from a CALL of SignedCookieSessionFactory (positional / keyword / omitted arguments) through the
   regenerated request.session, callback queue and router pipeline (grun_req) to the store semantics of histories
   (Examples ex_call_builds, ex_unforged_any: the premises are satisfiable) *)
Theorem C10_call_end_to_end : forall O c o, rt_b64 O -> rt_ser O -> mac_len O -> wf_call c ->
  gfactory_call c = FacOk o ->
  spec_factory_call c = FacOk o /\
  (exists vals a, doc_bind c = Some vals /\ fargs_of vals = Some a /\
                  key o = salted_key (fa_salt a) (fa_secret a) /\
                  (forall t, ser_loads O (b_ser (gen_signed_factory a)) t = loads O (key o) t) /\
                  (forall p, ser_dumps O (b_ser (gen_signed_factory a)) p = signed_dumps O (key o) p)) /\
  (forall last r, grun_req O o last r = run_req O o last r) /\
  forall l, unforged O o l -> Forall2 ok_at (grun_chain O o None l) (spec_chain O o None true l).
Proof. exact call_end_to_end. Qed.
Print Assumptions C10_call_end_to_end.

(* ================================================================== proof-only round 3 (Proofs/C10_bounds.v):
   the boundary statements end to end from the factory's arguments AS GIVEN, through the router pipeline with any
   other response callbacks (gfinish_r), to the next request (Examples ex_bounds, ex_no_timeout) *)
Theorem C10_factory_timeout_boundary : forall O a o s exc n ck z, rt_b64 O -> rt_ser O -> mac_len O ->
  gfactory a = FacOk o -> int_of (fa_timeout a) = FOk z ->
  gfinish_r O o s exc n = FCookie ck ->
  (exists s0, gen_init O o (Some ck) (tval (accessed s) + z * tick) = IOk s0 /\ st s0 = st s /\ isnew s0 = false)
  /\ (exists s0, gen_init O o (Some ck) (tval (accessed s) + z * tick + 1) = IOk s0 /\ st s0 = [] /\ isnew s0 = false
                 /\ tval (created s0) = tval (created s)).
Proof. exact factory_timeout_boundary. Qed.
Print Assumptions C10_factory_timeout_boundary.

Theorem C10_factory_no_timeout_never_expires : forall O a o s exc n ck now, rt_b64 O -> rt_ser O -> mac_len O ->
  gfactory a = FacOk o -> fa_timeout a = CNone ->
  gfinish_r O o s exc n = FCookie ck ->
  exists s0, gen_init O o (Some ck) now = IOk s0 /\ st s0 = st s /\ tval (created s0) = tval (created s)
             /\ isnew s0 = false /\ dirty s0 = false /\ tval (renewed s0) = tval (accessed s).
Proof. exact factory_no_timeout_never_expires. Qed.
Print Assumptions C10_factory_no_timeout_never_expires.

Theorem C10_factory_reissue_value : forall a o r,
  gfactory a = FacOk o -> int_of (fa_reissue a) = FOk r -> reissue o = Some r.
Proof. exact factory_reissue_value. Qed.
Print Assumptions C10_factory_reissue_value.

Theorem C10_factory_reissue_boundary : forall a o p t s r,
  gfactory a = FacOk o -> int_of (fa_reissue a) = FOk r -> op_cls p (st s) = CAcc ->
  dirty (fst (gstep o p t s)) = dirty s || Z.gtb (int_time t * tick - tval (renewed s)) (r * tick).
Proof. exact factory_reissue_boundary. Qed.
Print Assumptions C10_factory_reissue_boundary.
