From Coq Require Import List NArith ZArith Bool.
Import ListNotations.
Require Import Verif.Lib.Wire Verif.Gen.Facts_C10 Verif.Model.C10 Verif.Proofs.C10.
Theorem C10_placeholder : True. Proof. exact placeholder. Qed.
Print Assumptions C10_placeholder.
