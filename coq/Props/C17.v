(* C17 -- property theorems only. *)
From Coq Require Import List NArith ZArith Bool.
Import ListNotations.
Require Import Verif.Lib.Wire Verif.Gen.Facts_C17 Verif.Model.C17 Verif.Proofs.C17.

Theorem C17_literal_format_identity : forall s, undouble_pct (double_pct s) = Some s.
Proof. exact undouble_double. Qed.
Print Assumptions C17_literal_format_identity.
