(* C17 -- property theorems only.  Each is closed by [exact] of a lemma proved in
   Proofs/C17.v; Print Assumptions beneath each. *)
From Coq Require Import List NArith ZArith Bool.
Import ListNotations.
Require Import Verif.Lib.Wire Verif.Lib.Text Verif.Lib.Utf8 Verif.Lib.Percent
               Verif.Gen.Facts_C17 Verif.Model.C17 Verif.Model.C17_glue Verif.Gen.Code_C17 Verif.Proofs.C17 Verif.Proofs.C17_gen
               Verif.Proofs.C17_gen2 Verif.Proofs.C17_total Verif.Proofs.C17_rel Verif.Proofs.C17_text Verif.Proofs.C17_more Verif.Proofs.C17_more2.
Open Scope N_scope.

(* extra path elements: split the produced suffix on '/', percent-decode, UTF-8 decode:
   exactly the supplied elements, for arbitrary Unicode / bytes / ints *)
Theorem C17_elements_roundtrip : forall els s,
  els <> [] -> join_elements els = Ok s ->
  exists ts, spec_elements els = Some ts /\ decode_segments s = Some ts.
Proof. exact elements_roundtrip. Qed.
Print Assumptions C17_elements_roundtrip.

(* query pairs: in order, repeated keys kept, sequence values expanded, None -> '' *)
Theorem C17_query_roundtrip : forall l s ps,
  Forall wf_pair l -> urlencode l = Ok s -> spec_pairs l = Some ps ->
  parse_qsl s = Some ps /\ ~ In 35 s.
Proof. exact query_roundtrip. Qed.
Print Assumptions C17_query_roundtrip.

Theorem C17_query_string_roundtrip : forall t s,
  forallb valid_scalar t = true -> url_quote query_str_safe (PStr t) = Ok s ->
  unquote_text s = Some t /\ ~ In 35 s.
Proof. exact query_string_roundtrip. Qed.
Print Assumptions C17_query_string_roundtrip.

Theorem C17_anchor_roundtrip : forall v f a,
  wf_val v -> fragment (Some v) = Ok f -> spec_anchor (Some v) = Some a ->
  (a = [] /\ f = []) \/ (exists q, f = 35 :: q /\ ~ In 35 q /\ unquote_text q = Some a).
Proof. exact anchor_roundtrip. Qed.
Print Assumptions C17_anchor_roundtrip.

(* the *_path variants equal the *_url variants with scheme://authority removed *)
Theorem C17_route_path_is_url_minus_authority : forall c e rs n els o kw u,
  o_app_url o = None -> route_url c e rs n els o kw = Ok u ->
  exists p, route_path c e rs n els o kw = Ok p /\ u = host_part e o ++ p.
Proof. exact route_path_is_url_minus_authority. Qed.
Print Assumptions C17_route_path_is_url_minus_authority.

Theorem C17_resource_path_is_url_minus_authority : forall c e names els o u,
  o_app_url o = None -> resource_url c e names els o = Ok u ->
  exists p, resource_path c e names els o = Ok p /\ u = host_part e o ++ p.
Proof. exact resource_path_is_url_minus_authority. Qed.
Print Assumptions C17_resource_path_is_url_minus_authority.

Theorem C17_static_path_is_url_minus_authority : forall e rs regs path o kw u,
  o_app_url o = None -> static_url e rs regs path o kw = Ok u ->
  exists p, static_path e rs regs path o kw = Ok p /\ u = host_part e o ++ p.
Proof. exact static_path_is_url_minus_authority. Qed.
Print Assumptions C17_static_path_is_url_minus_authority.

Theorem C17_current_route_path_is_url_minus_authority : forall c e rs rname matched md gt els o kw u,
  o_app_url o = None -> current_route_url c e rs rname matched md gt els o kw = Ok u ->
  exists p, current_route_path c e rs rname matched md gt els o kw = Ok p /\ u = host_part e o ++ p.
Proof. exact current_route_path_is_url_minus_authority. Qed.
Print Assumptions C17_current_route_path_is_url_minus_authority.

(* an explicit application URL takes precedence over scheme/host/port *)
Theorem C17_app_url_precedence : forall c e rs n els o kw u a,
  o_app_url o = Some a -> route_url c e rs n els o kw = Ok u -> exists rest, u = a ++ rest.
Proof. exact app_url_precedence. Qed.
Print Assumptions C17_app_url_precedence.

Theorem C17_app_url_precedence_resource : forall c e names els o u a,
  o_app_url o = Some a -> resource_url c e names els o = Ok u -> exists rest, u = a ++ rest.
Proof. exact app_url_precedence_resource. Qed.
Print Assumptions C17_app_url_precedence_resource.

(* the lru_cache in front of _join_elements cannot change an answer *)
Theorem C17_join_elements_cache_transparent : forall c els,
  cache_sound c -> cache_plain c -> forallb plain els = true ->
  join_elements_c c els = join_elements els.
Proof. exact join_elements_cache_transparent. Qed.
Print Assumptions C17_join_elements_cache_transparent.

(* full strength (any element types) needs the cache key to be the stringified tuple ... *)
Theorem C17_join_elements_cache_transparent_repaired : forall c els,
  join_elements_key_stringified = true -> join_elements_c c els = join_elements els.
Proof. exact join_elements_cache_transparent_repaired. Qed.
Print Assumptions C17_join_elements_cache_transparent_repaired.

(* ... keyed on the raw tuple it is refuted: after (1,) the tuple (1.0,) is answered "1" *)
Theorem C17_join_elements_raw_key_refuted :
  exists w els, join_elements_raw_key (warm_cache w) els <> join_elements els.
Proof. exact join_elements_raw_key_refuted. Qed.
Print Assumptions C17_join_elements_raw_key_refuted.

(* route literals survive the '%%' doubling and '%' formatting unchanged *)
Theorem C17_literal_format_identity : forall s, undouble_pct (double_pct s) = Some s.
Proof. exact undouble_double. Qed.
Print Assumptions C17_literal_format_identity.

(* scheme / host / port overrides: the code computes exactly the declarative rule *)
Theorem C17_overrides_honoured : forall e s h p, partial_host_url e s h p = spec_authority e s h p.
Proof. exact overrides_honoured. Qed.
Print Assumptions C17_overrides_honoured.

(* default ports are elided, every other non-empty port is shown *)
Theorem C17_port_elision : forall e s h p,
  (default_port (eff_scheme e s) = Some (eff_port e s h p) \/ eff_port e s h p = [] ->
   partial_host_url e s h p = eff_scheme e s ++ scheme_sep ++ before 58 (eff_hostport e h))
  /\ (default_port (eff_scheme e s) <> Some (eff_port e s h p) -> eff_port e s h p <> [] ->
      partial_host_url e s h p =
      eff_scheme e s ++ scheme_sep ++ before 58 (eff_hostport e h) ++ port_sep ++ eff_port e s h p).
Proof. exact port_elision. Qed.
Print Assumptions C17_port_elision.

Theorem C17_scheme_override_default_port : forall e s h d,
  default_port s = Some d ->
  partial_host_url e (Some s) h None = s ++ scheme_sep ++ before 58 (eff_hostport e h).
Proof. exact scheme_override_default_port. Qed.
Print Assumptions C17_scheme_override_default_port.

(* url_charset, component by component: only RFC 3986 path characters (pchar, '/', %HH) ... *)
Theorem C17_script_name_chars : forall e s, quoted_script_name e = Ok s -> Forall pc s.
Proof. exact quoted_script_chars. Qed.
Print Assumptions C17_script_name_chars.

Theorem C17_generate_chars : forall p kw u, generate p kw = Ok u -> Forall pc u.
Proof. exact generate_chars. Qed.
Print Assumptions C17_generate_chars.

Theorem C17_join_elements_chars : forall els s, join_elements els = Ok s -> Forall pc s.
Proof. exact join_elements_chars. Qed.
Print Assumptions C17_join_elements_chars.

(* ... and only query characters in an encoded query *)
Theorem C17_urlencode_chars : forall l s, Forall wf_pair l -> urlencode l = Ok s -> Forall qc s.
Proof. exact urlencode_chars. Qed.
Print Assumptions C17_urlencode_chars.

(* the whole URL: the reference decoder separates path, query and fragment where they were put;
   every character after the application URL is allowed in its component; query, anchor and
   extra elements decode to the supplied values *)
Theorem C17_route_url_decodes : forall c e rs n els o kw u,
  wf_query (o_query o) -> wf_anchor (o_anchor o) ->
  join_elements_c c els = join_elements els ->
  route_url c e rs n els o kw = Ok u ->
  exists app path sfx qt f,
    parse_app e o = Ok app
    /\ Forall pc (path ++ sfx) /\ Forall qc qt /\ Forall qc f
    /\ (~ In 35 app -> ~ In 63 app -> cut_ref u = (app ++ path ++ sfx, qt, f))
    /\ query_decodes (o_query o) qt
    /\ (forall t, spec_anchor (o_anchor o) = Some t -> unquote_text f = Some t)
    /\ (els <> [] -> exists s ts, (sfx = s \/ sfx = 47 :: s)
                                  /\ spec_elements els = Some ts /\ decode_segments s = Some ts).
Proof. exact route_url_decodes. Qed.
Print Assumptions C17_route_url_decodes.

Theorem C17_resource_url_decodes : forall c e names els o u,
  wf_query (o_query o) -> wf_anchor (o_anchor o) ->
  join_elements_c c els = join_elements els ->
  resource_url c e names els o = Ok u ->
  exists app vp sfx qt f,
    parse_app e o = Ok app /\ virtual_path names = Ok vp
    /\ Forall pc (vp ++ sfx) /\ Forall qc qt /\ Forall qc f
    /\ (~ In 35 app -> ~ In 63 app -> cut_ref u = (app ++ vp ++ sfx, qt, f))
    /\ query_decodes (o_query o) qt
    /\ (forall t, spec_anchor (o_anchor o) = Some t -> unquote_text f = Some t)
    /\ (els <> [] -> exists ts, spec_elements els = Some ts /\ decode_segments sfx = Some ts).
Proof. exact resource_url_decodes. Qed.
Print Assumptions C17_resource_url_decodes.

(* static_url / current_route_url reduce to route_url, so C17_route_url_decodes applies to them *)
Theorem C17_static_url_is_route_url : forall e rs regs path o kw u,
  static_url e rs regs path o kw = Ok u ->
  exists sub rname, find_reg regs path = Some (sub, rname)
    /\ route_url [] e rs rname [] o (dset static_subpath_key (KScalar (PStr sub)) kw) = Ok u
    /\ join_elements_c [] [] = join_elements [].
Proof. exact static_url_is_route_url. Qed.
Print Assumptions C17_static_url_is_route_url.

Theorem C17_current_route_url_is_route_url : forall c e rs rname matched md gt els o kw u,
  current_route_url c e rs rname matched md gt els o kw = Ok u ->
  exists name, (rname = Some name \/ (rname = None /\ matched = Some name))
    /\ route_url c e rs name els
         (match o_query o with Some _ => o | None => set_query o (QPairs gt) end) (dupdate md kw) = Ok u.
Proof. exact current_route_url_is_route_url. Qed.
Print Assumptions C17_current_route_url_is_route_url.

(* every '%' in what the helpers append to the application URL starts a %HH escape *)
Theorem C17_generate_pct : forall p kw u, generate p kw = Ok u -> pct_ok u = true.
Proof. exact generate_pct. Qed.
Print Assumptions C17_generate_pct.

Theorem C17_join_elements_pct : forall els s, join_elements els = Ok s -> pct_ok s = true.
Proof. exact join_elements_pct. Qed.
Print Assumptions C17_join_elements_pct.

Theorem C17_urlencode_pct : forall l s, Forall wf_pair l -> urlencode l = Ok s -> pct_ok s = true.
Proof. exact urlencode_pct. Qed.
Print Assumptions C17_urlencode_pct.

Theorem C17_route_url_pct : forall c e rs n els o kw u,
  wf_query (o_query o) -> wf_anchor (o_anchor o) ->
  join_elements_c c els = join_elements els ->
  route_url c e rs n els o kw = Ok u ->
  exists app rest, parse_app e o = Ok app /\ u = app ++ rest /\ pct_ok rest = true.
Proof. exact route_url_pct. Qed.
Print Assumptions C17_route_url_pct.

(* static asset under a URL registration: registered URL ++ quoted sub-path (++ query, fragment); the
   quoted sub-path decodes back, for every sub-path and every scheme *)
Theorem C17_static_external_roundtrip : forall e url sub o u,
  static_external e url sub o = Ok u ->
  exists url' q qs fr,
    u = url' ++ q ++ qs ++ fr /\ tail_parts o = Ok (qs, fr)
    /\ (forall p, urlparse [] url = Ok p -> r_scheme p <> [] -> url' = url)
    /\ unquote_text q = Some sub /\ Forall pc q /\ pct_ok q = true.
Proof. exact static_external_roundtrip. Qed.
Print Assumptions C17_static_external_roundtrip.

(* scheme://host[:port] contains only characters of the inputs it was built from (plus ':' '/' and the
   digits of the default ports): any character class the inputs respect, the authority respects *)
Theorem C17_host_part_chars : forall P : N -> Prop,
  P 58 -> P 47 -> Forall P [52; 51; 56; 48] ->
  forall e o, inputs_ok P e o -> Forall P (host_part e o).
Proof. exact host_part_chars. Qed.
Print Assumptions C17_host_part_chars.

Theorem C17_route_url_decodes_clean : forall c e rs n els o kw u,
  inputs_ok no_delim e o -> o_app_url o = None ->
  wf_query (o_query o) -> wf_anchor (o_anchor o) ->
  join_elements_c c els = join_elements els ->
  route_url c e rs n els o kw = Ok u ->
  exists base qt f, cut_ref u = (base, qt, f) /\ Forall qc qt /\ Forall qc f
    /\ query_decodes (o_query o) qt
    /\ (forall t, spec_anchor (o_anchor o) = Some t -> unquote_text f = Some t).
Proof. exact route_url_decodes_clean. Qed.
Print Assumptions C17_route_url_decodes_clean.

(* resource_url with a virtual root and with route_name= *)
Theorem C17_resource_url_x_plain : forall c e rs names els o,
  resource_url_x c e rs names els o None None = resource_url c e names els o.
Proof. exact resource_url_x_plain. Qed.
Print Assumptions C17_resource_url_x_plain.

Theorem C17_resource_url_x_route : forall c e rs names els o vroot rname rem rkw u,
  resource_url_x c e rs names els o vroot (Some (rname, rem, rkw)) = Ok u ->
  exists vp vpt, resource_adapter names vroot = Ok (vp, vpt)
    /\ route_url c e rs rname els o
         (dupdate [(rem, KSeq vpt [])] (match rkw with Some k => k | None => [] end)) = Ok u.
Proof. exact resource_url_x_route. Qed.
Print Assumptions C17_resource_url_x_route.

Theorem C17_resource_url_x_decodes : forall c e rs names els o vroot u,
  wf_query (o_query o) -> wf_anchor (o_anchor o) ->
  join_elements_c c els = join_elements els ->
  resource_url_x c e rs names els o vroot None = Ok u ->
  exists app vp vpt sfx qt f,
    parse_app e o = Ok app /\ resource_adapter names vroot = Ok (vp, vpt)
    /\ Forall pc (vp ++ sfx) /\ Forall qc qt /\ Forall qc f
    /\ (~ In 35 app -> ~ In 63 app -> cut_ref u = (app ++ vp ++ sfx, qt, f))
    /\ query_decodes (o_query o) qt
    /\ (forall t, spec_anchor (o_anchor o) = Some t -> unquote_text f = Some t)
    /\ (els <> [] -> exists ts, spec_elements els = Some ts /\ decode_segments sfx = Some ts).
Proof. exact resource_url_x_decodes. Qed.
Print Assumptions C17_resource_url_x_decodes.

(* ================= the program REGENERATED from the source on this run (Gen/Code_C17.v) ================= *)
(* it equals the reference model ... *)
Theorem C17_gen_partial_application_url_is_model : forall e s h p,
  gen_partial_application_url e s h p = partial_application_url e s h p.
Proof. exact gen_partial_application_url_is_model. Qed.
Print Assumptions C17_gen_partial_application_url_is_model.

Theorem C17_gen_parse_url_overrides_is_model : forall e o, gen_parse_url_overrides e o = parse_url_overrides e o.
Proof. exact gen_parse_url_overrides_is_model. Qed.
Print Assumptions C17_gen_parse_url_overrides_is_model.

Theorem C17_gen_urlencode_is_model : forall l, gen_urlencode l = urlencode l.
Proof. exact gen_urlencode_is_model. Qed.
Print Assumptions C17_gen_urlencode_is_model.

Theorem C17_gen_url_quote_is_model : forall safe v, gen_url_quote safe v = url_quote safe v.
Proof. exact gen_url_quote_is_model. Qed.
Print Assumptions C17_gen_url_quote_is_model.

Theorem C17_gen_quote_plus_is_model : forall v, gen_quote_plus quote_plus_default_safe v = quote_plus v.
Proof. exact gen_quote_plus_is_model. Qed.
Print Assumptions C17_gen_quote_plus_is_model.

Theorem C17_gen_route_path_is_model : forall c e xs rs n els o kw,
  gen_route_path c e xs rs n els o kw = route_path_x c e xs rs n els o kw.
Proof. exact gen_route_path_is_model. Qed.
Print Assumptions C17_gen_route_path_is_model.

Theorem C17_gen_resource_path_is_model : forall c e rs names els o vroot rn,
  gen_resource_path c e rs names els o vroot rn = resource_path_x c e rs names els o vroot rn.
Proof. exact gen_resource_path_is_model. Qed.
Print Assumptions C17_gen_resource_path_is_model.

Theorem C17_gen_static_path_is_model : forall e rs regs path o kw,
  gen_static_path e rs regs path o kw = static_path_x e rs regs path o kw.
Proof. exact gen_static_path_is_model. Qed.
Print Assumptions C17_gen_static_path_is_model.

Theorem C17_gen_current_route_path_is_model : forall c e xs rs rname matched md gt els o kw,
  gen_current_route_path c e xs rs rname matched md gt els o kw = current_route_path_x c e xs rs rname matched md gt els o kw.
Proof. exact gen_current_route_path_is_model. Qed.
Print Assumptions C17_gen_current_route_path_is_model.

(* ... so the property theorems hold of the regenerated program itself *)
Theorem C17_gen_query_roundtrip : forall l s ps,
  Forall wf_pair l -> gen_urlencode l = Ok s -> spec_pairs l = Some ps -> parse_qsl s = Some ps /\ ~ In 35 s.
Proof. exact gen_query_roundtrip. Qed.
Print Assumptions C17_gen_query_roundtrip.

Theorem C17_gen_urlencode_chars : forall l s,
  Forall wf_pair l -> gen_urlencode l = Ok s -> Forall qc s /\ pct_ok s = true.
Proof. exact gen_urlencode_chars. Qed.
Print Assumptions C17_gen_urlencode_chars.

Theorem C17_gen_url_quote_roundtrip : forall safe v q a,
  ascii_set safe -> is_safe safe 37 = false -> wf_val v ->
  gen_url_quote safe v = Ok q -> spec_text v = Some a -> unquote_text q = Some a.
Proof. exact gen_url_quote_roundtrip. Qed.
Print Assumptions C17_gen_url_quote_roundtrip.

Theorem C17_gen_overrides_honoured : forall e s h p,
  gen_partial_application_url e s h p = rlet sn := quoted_script_name e in Ok (spec_authority e s h p ++ sn).
Proof. exact gen_overrides_honoured. Qed.
Print Assumptions C17_gen_overrides_honoured.

Theorem C17_gen_parse_url_overrides_spec : forall e o app qs fr,
  wf_query (o_query o) -> wf_anchor (o_anchor o) ->
  gen_parse_url_overrides e o = Ok (app, qs, fr) ->
  parse_app e o = Ok app
  /\ (exists qt, ((qs = [] /\ qt = []) \/ qs = 63 :: qt) /\ ~ In 35 qt /\ Forall qc qt /\ query_decodes (o_query o) qt)
  /\ (exists f, ((fr = [] /\ f = []) \/ fr = 35 :: f) /\ Forall qc f
                /\ (forall t, spec_anchor (o_anchor o) = Some t -> unquote_text f = Some t)).
Proof. exact gen_parse_url_overrides_spec. Qed.
Print Assumptions C17_gen_parse_url_overrides_spec.

Theorem C17_gen_route_path_is_url_minus_authority : forall c e xs rs n els o kw u,
  assoc n xs = None -> o_app_url o = None -> route_url c e rs n els o kw = Ok u ->
  exists p, gen_route_path c e xs rs n els o kw = Ok p /\ u = host_part e o ++ p.
Proof. exact gen_route_path_is_url_minus_authority. Qed.
Print Assumptions C17_gen_route_path_is_url_minus_authority.

Theorem C17_gen_current_route_path_is_url_minus_authority : forall c e xs rs rname matched md gt els o kw u,
  (forall n, assoc n xs = None) ->
  o_app_url o = None -> current_route_url c e rs rname matched md gt els o kw = Ok u ->
  exists p, gen_current_route_path c e xs rs rname matched md gt els o kw = Ok p /\ u = host_part e o ++ p.
Proof. exact gen_current_route_path_is_url_minus_authority. Qed.
Print Assumptions C17_gen_current_route_path_is_url_minus_authority.

(* one request object whose environment changes between calls: URL generation keeps no state on it (regenerated
   fact url_helpers_keep_no_request_state), so its history cannot influence a later URL; a memoising request is refuted *)
Theorem C17_request_history_irrelevant : forall hist e, quoted_script_name_h hist e = quoted_script_name e.
Proof. exact request_history_irrelevant. Qed.
Print Assumptions C17_request_history_irrelevant.

Theorem C17_request_memo_refuted : exists hist e, quoted_script_name_frozen hist e <> quoted_script_name e.
Proof. exact request_memo_refuted. Qed.
Print Assumptions C17_request_memo_refuted.

(* routes registered with a full URL as pattern *)
Theorem C17_external_route_authority : forall c e xs rs n els o kw x u,
  assoc n xs = Some x -> route_url_x c e xs rs n els o kw = Ok u ->
  o_app_url o = None /\ exists rest, u = ext_app_url e o x ++ rest.
Proof. exact external_route_authority. Qed.
Print Assumptions C17_external_route_authority.

Theorem C17_external_route_path_refused : forall c e xs rs n els o kw x p,
  assoc n xs = Some x -> assoc n rs <> None -> route_path_x c e xs rs n els o kw = Ok p -> False.
Proof. exact external_route_path_refused. Qed.
Print Assumptions C17_external_route_path_refused.

(* ================= round 5 ================= *)
(* the helpers themselves, regenerated from the source on this run, equal the reference model *)
Theorem C17_gen_route_url_is_model : forall c e xs rs n els o kw,
  gen_route_url c e xs rs n els o kw = route_url_x c e xs rs n els o kw.
Proof. exact gen_route_url_is_model. Qed.
Print Assumptions C17_gen_route_url_is_model.

Theorem C17_gen_current_route_url_is_model : forall c e xs rs rname matched md gt els o kw,
  gen_current_route_url c e xs rs rname matched md gt els o kw = current_route_url_x c e xs rs rname matched md gt els o kw.
Proof. exact gen_current_route_url_is_model. Qed.
Print Assumptions C17_gen_current_route_url_is_model.

Theorem C17_gen_static_url_is_model : forall e rs regs path o kw,
  gen_static_url e rs regs path o kw = static_url_x e rs regs path o kw.
Proof. exact gen_static_url_is_model. Qed.
Print Assumptions C17_gen_static_url_is_model.

(* the function forms of pyramid.url delegate to the request method of the same name *)
Theorem C17_gen_fn_forms_are_model :
  (forall c e xs rs n els o kw, gen_fn_route_url c e xs rs n els o kw = route_url_x c e xs rs n els o kw)
  /\ (forall c e xs rs n els o kw, gen_fn_route_path c e xs rs n els o kw = route_path_x c e xs rs n els o kw)
  /\ (forall c e rs names els o vroot rn, gen_fn_resource_url c e rs names els o vroot rn = resource_url_x c e rs names els o vroot rn)
  /\ (forall e rs regs path o kw, gen_fn_static_url e rs regs path o kw = static_url_x e rs regs path o kw)
  /\ (forall e rs regs path o kw, gen_fn_static_path e rs regs path o kw = static_path_x e rs regs path o kw)
  /\ (forall c e xs rs rname matched md gt els o kw,
        gen_fn_current_route_url c e xs rs rname matched md gt els o kw = current_route_url_x c e xs rs rname matched md gt els o kw)
  /\ (forall c e xs rs rname matched md gt els o kw,
        gen_fn_current_route_path c e xs rs rname matched md gt els o kw = current_route_path_x c e xs rs rname matched md gt els o kw).
Proof. exact gen_fn_forms_are_model. Qed.
Print Assumptions C17_gen_fn_forms_are_model.

(* the pregenerator closure add_route installs for a route whose pattern is a full URL, regenerated *)
Theorem C17_gen_ext_pregen_is_model : forall e els o x, c17_ext_wf x -> gen_ext_pregen e els o x = c17_ext_pregen e o x.
Proof. exact gen_ext_pregen_is_model. Qed.
Print Assumptions C17_gen_ext_pregen_is_model.

(* scheme of an external route's URL: _scheme, else the pattern's, else the request's; then "://" and the pattern's netloc;
   an _app_url of the caller is refused; nothing else in the keyword dictionary changes *)
Theorem C17_gen_ext_pregen_scheme_precedence : forall e els o x o',
  c17_ext_wf x -> gen_ext_pregen e els o x = Ok o' ->
  o_app_url o = None
  /\ o_app_url o' = Some ((match o_scheme o with
                           | Some s => s
                           | None => match fst x with Some s => s | None => e_scheme e end
                           end) ++ [58; 47; 47] ++ snd x)
  /\ o_scheme o' = o_scheme o /\ o_host o' = o_host o /\ o_port o' = o_port o
  /\ o_query o' = o_query o /\ o_anchor o' = o_anchor o.
Proof. exact gen_ext_pregen_scheme_precedence. Qed.
Print Assumptions C17_gen_ext_pregen_scheme_precedence.

Theorem C17_gen_route_url_external : forall c e xs rs n els o kw x u,
  assoc n xs = Some x -> gen_route_url c e xs rs n els o kw = Ok u ->
  o_app_url o = None /\ exists rest, u = ext_app_url e o x ++ rest.
Proof. exact gen_route_url_external. Qed.
Print Assumptions C17_gen_route_url_external.

(* the whole-URL theorem, about route_url as regenerated (ordinary routes) *)
Theorem C17_gen_route_url_decodes : forall c e xs rs n els o kw u,
  assoc n xs = None ->
  wf_query (o_query o) -> wf_anchor (o_anchor o) ->
  join_elements_c c els = join_elements els ->
  gen_route_url c e xs rs n els o kw = Ok u ->
  exists app path sfx qt f,
    parse_app e o = Ok app
    /\ Forall pc (path ++ sfx) /\ Forall qc qt /\ Forall qc f
    /\ (~ In 35 app -> ~ In 63 app -> cut_ref u = (app ++ path ++ sfx, qt, f))
    /\ query_decodes (o_query o) qt
    /\ (forall t, spec_anchor (o_anchor o) = Some t -> unquote_text f = Some t)
    /\ (els <> [] -> exists s ts, (sfx = s \/ sfx = 47 :: s)
                                  /\ spec_elements els = Some ts /\ decode_segments s = Some ts).
Proof. exact gen_route_url_decodes. Qed.
Print Assumptions C17_gen_route_url_decodes.

Theorem C17_gen_route_url_pct : forall c e xs rs n els o kw u,
  assoc n xs = None ->
  wf_query (o_query o) -> wf_anchor (o_anchor o) ->
  join_elements_c c els = join_elements els ->
  gen_route_url c e xs rs n els o kw = Ok u ->
  exists app rest, parse_app e o = Ok app /\ u = app ++ rest /\ pct_ok rest = true.
Proof. exact gen_route_url_pct. Qed.
Print Assumptions C17_gen_route_url_pct.

(* totality: when the spec says a URL is due, one is produced (and the path form with it) *)
Theorem C17_route_url_total : forall c e rs n els o kw,
  must_route e rs n els o kw = true -> exists u, route_url c e rs n els o kw = Ok u.
Proof. exact route_url_total. Qed.
Print Assumptions C17_route_url_total.

Theorem C17_gen_route_url_total : forall c e xs rs n els o kw,
  assoc n xs = None -> must_route e rs n els o kw = true -> exists u, gen_route_url c e xs rs n els o kw = Ok u.
Proof. exact gen_route_url_total. Qed.
Print Assumptions C17_gen_route_url_total.

Theorem C17_route_path_total : forall c e rs n els o kw,
  o_app_url o = None -> must_route e rs n els o kw = true ->
  exists u p, route_url c e rs n els o kw = Ok u /\ route_path c e rs n els o kw = Ok p /\ u = host_part e o ++ p.
Proof. exact route_path_total. Qed.
Print Assumptions C17_route_path_total.

Theorem C17_resource_url_x_total : forall c e rs names els o vroot,
  must_resource e rs names els o vroot None = true -> exists u, resource_url_x c e rs names els o vroot None = Ok u.
Proof. exact resource_url_x_total. Qed.
Print Assumptions C17_resource_url_x_total.

Theorem C17_static_url_x_total : forall e rs regs path o kw sub s rname,
  find_reg_x regs path = Some (sub, RRoute s rname) ->
  must_static e rs regs path o kw = true -> exists u, static_url_x e rs regs path o kw = Ok u.
Proof. exact static_url_x_total. Qed.
Print Assumptions C17_static_url_x_total.

Theorem C17_current_route_url_total : forall c e rs rname matched md gt els o kw n,
  (match rname with Some x => Some x | None => matched end) = Some n ->
  must_route e rs n els (match o_query o with Some _ => o | None => set_query o (QPairs gt) end) (dupdate md kw) = true ->
  exists u, current_route_url c e rs rname matched md gt els o kw = Ok u.
Proof. exact current_route_url_total. Qed.
Print Assumptions C17_current_route_url_total.

(* ================= round 6 ================= *)
(* the URL with extra elements is the URL without them with [/]<quoted elements> inserted after the route's path: no segment
   nobody supplied; the elements decode back *)
Theorem C17_route_url_elements_extend : forall c e rs n els o kw u0 u,
  els <> [] -> join_elements_c c els = join_elements els ->
  route_url c e rs n [] o kw = Ok u0 -> route_url c e rs n els o kw = Ok u ->
  exists ap path qs fr s ts,
    u0 = ap ++ path ++ qs ++ fr
    /\ u = ap ++ path ++ (if endswith_char 47 path then s else 47 :: s) ++ qs ++ fr
    /\ join_elements els = Ok s /\ spec_elements els = Some ts /\ decode_segments s = Some ts.
Proof. exact route_url_elements_extend. Qed.
Print Assumptions C17_route_url_elements_extend.

Theorem C17_resource_url_elements_extend : forall c e names els o u0 u,
  els <> [] -> join_elements_c c els = join_elements els ->
  resource_url c e names [] o = Ok u0 -> resource_url c e names els o = Ok u ->
  exists ap vp qs fr s ts,
    u0 = ap ++ vp ++ qs ++ fr /\ u = ap ++ vp ++ s ++ qs ++ fr
    /\ join_elements els = Ok s /\ spec_elements els = Some ts /\ decode_segments s = Some ts.
Proof. exact resource_url_elements_extend. Qed.
Print Assumptions C17_resource_url_elements_extend.

(* the joiner of extra elements and the joiner of resource paths differ (on a single empty element): they may not be shared *)
Theorem C17_join_elements_is_not_join_path_tuple : exists els, join_path_tuple els <> join_elements els.
Proof. exact join_elements_is_not_join_path_tuple. Qed.
Print Assumptions C17_join_elements_is_not_join_path_tuple.

(* configuration time: the registration add_static_view(name, spec) leaves behind is the one found for every asset below
   that spec, unless an earlier registration's spec is a prefix of the asset path too *)
Theorem C17_static_add_finds : forall regs name spec is_url sub,
  (forall g, In g regs -> strip_prefix (c17_reg_spec g) (c17_norm_spec spec ++ sub) = None) ->
  find_reg_x (c17_static_add regs name spec is_url) (c17_norm_spec spec ++ sub)
  = Some (sub, if is_url then RExt (c17_norm_spec spec) (c17_add_slash name)
               else RRoute (c17_norm_spec spec) ([95; 95] ++ c17_add_slash name)).
Proof. exact c17_static_add_finds. Qed.
Print Assumptions C17_static_add_finds.

(* the path route.generate produces, percent-decoded as a whole, reads literal, value, literal, .., star value for the
   values the caller supplied (bytes = UTF-8 text, other objects str(v), a star sequence joined with '/') *)
Theorem C17_generate_decodes_text : forall p kw u t,
  generate p kw = Ok u -> spec_path_text p kw = Some t -> unquote_text u = Some t.
Proof. exact generate_decodes_text. Qed.
Print Assumptions C17_generate_decodes_text.

(* ================= proof-only round ================= *)
(* the regenerated function forms pyramid.url.route_path / static_path / current_route_path are the function forms
   route_url / static_url / current_route_url minus scheme://authority *)
Theorem C17_gen_fn_paths_are_urls_minus_authority :
  (forall c e xs rs n els o kw u,
     assoc n xs = None -> o_app_url o = None -> gen_fn_route_url c e xs rs n els o kw = Ok u ->
     exists p, gen_fn_route_path c e xs rs n els o kw = Ok p /\ u = host_part e o ++ p)
  /\ (forall e rs regs path o kw sub s rname u,
        find_reg_x regs path = Some (sub, RRoute s rname) -> o_app_url o = None ->
        gen_fn_static_url e rs regs path o kw = Ok u ->
        exists p, gen_fn_static_path e rs regs path o kw = Ok p /\ u = host_part e o ++ p)
  /\ (forall c e xs rs rname matched md gt els o kw u,
        (forall n, assoc n xs = None) -> o_app_url o = None ->
        gen_fn_current_route_url c e xs rs rname matched md gt els o kw = Ok u ->
        exists p, gen_fn_current_route_path c e xs rs rname matched md gt els o kw = Ok p /\ u = host_part e o ++ p).
Proof. exact gen_fn_paths_are_urls_minus_authority. Qed.
Print Assumptions C17_gen_fn_paths_are_urls_minus_authority.

(* static_path = static_url minus scheme://authority for the _x model (registrations as [reg]), route registrations *)
Theorem C17_static_x_route_path_minus_authority : forall e rs regs path o kw sub s rname u,
  find_reg_x regs path = Some (sub, RRoute s rname) ->
  o_app_url o = None -> static_url_x e rs regs path o kw = Ok u ->
  exists p, static_path_x e rs regs path o kw = Ok p /\ u = host_part e o ++ p.
Proof. exact static_x_route_path_minus_authority. Qed.
Print Assumptions C17_static_x_route_path_minus_authority.

(* totality of static_url for an asset registered under a URL (the URL has to be splittable: see the Example
   static_url_x_external_needs_splittable_url in Proofs/C17_more.v) *)
Theorem C17_static_url_x_external_total : forall e rs regs path o kw sub s url,
  find_reg_x regs path = Some (sub, RExt s url) ->
  (exists pr, urlparse [] url = Ok pr) ->
  must_static e rs regs path o kw = true -> exists u, static_url_x e rs regs path o kw = Ok u.
Proof. exact static_url_x_external_total. Qed.
Print Assumptions C17_static_url_x_external_total.

(* ================= third proof-only round ================= *)
(* the virtual path tuple the resource adapter hands to a route (resource_url(.., route_name=..): the remainder value)
   consists of encodable texts whenever the lineage names do -- with or without a virtual root header *)
Theorem C17_resource_adapter_tuple_ok : forall names vroot vp vpt,
  forallb text_ok names = true -> resource_adapter names vroot = Ok (vp, vpt) ->
  forallb text_ok vpt = true /\ kwval_ok (KSeq vpt []) = true.
Proof. exact resource_adapter_tuple_ok. Qed.
Print Assumptions C17_resource_adapter_tuple_ok.
