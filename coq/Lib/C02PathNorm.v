(* Further lemmas about Lib/PathNorm.split_path_info used by C02 (and C07):
   stripping slashes is irrelevant, the stack law for concatenation, and
   "'..' never climbs above the root". *)
From Coq Require Import List NArith Bool Lia.
Import ListNotations.
Require Import Verif.Lib.Wire Verif.Lib.Text Verif.Lib.PathNorm.
Open Scope N_scope.

Definition dotdot : text := [dot; dot].

Lemma resolve_app acc a b : resolve acc (a ++ b) = resolve (resolve acc a) b.
Proof. unfold resolve. apply fold_left_app. Qed.

Lemma resolve_cons acc s r : resolve acc (s :: r) = resolve (spi_step acc s) r.
Proof. reflexivity. Qed.

Lemma resolve_empty_seg acc r : resolve acc ([] :: r) = resolve acc r.
Proof. reflexivity. Qed.

(* ---- split_on and concatenation *)
Lemma split_on_cons_sep c s : split_on c (c :: s) = [] :: split_on c s.
Proof. simpl. rewrite N.eqb_refl. reflexivity. Qed.

Lemma split_on_app c a b :
  split_on c (a ++ c :: b) = split_on c a ++ split_on c b.
Proof.
  induction a as [|x a IH]; simpl.
  - rewrite N.eqb_refl. reflexivity.
  - destruct (N.eqb x c); [rewrite IH; reflexivity|].
    rewrite IH. pose proof (split_on_nonempty c a) as Hn.
    destruct (split_on c a) as [|h t]; [contradiction|]. reflexivity.
Qed.

Lemma split_on_snoc c s : split_on c (s ++ [c]) = split_on c s ++ [[]].
Proof. rewrite split_on_app. reflexivity. Qed.

(* ---- stripping *)
Lemma lstrip_decomp c s : exists k, s = repeat c k ++ lstrip_char c s.
Proof.
  induction s as [|x s IH]; [exists O; reflexivity|]. simpl.
  destruct (N.eqb_spec x c) as [->|Hne].
  - destruct IH as [k Hk]. exists (S k). simpl. f_equal. exact Hk.
  - exists O. reflexivity.
Qed.

Lemma rev_repeat {A} (a : A) k : rev (repeat a k) = repeat a k.
Proof.
  induction k as [|k IH]; [reflexivity|]. simpl. rewrite IH.
  clear IH. induction k as [|k IH]; [reflexivity|]. simpl. f_equal. exact IH.
Qed.

Lemma rstrip_decomp c s : exists k, s = rstrip_char c s ++ repeat c k.
Proof.
  unfold rstrip_char. destruct (lstrip_decomp c (rev s)) as [k Hk]. exists k.
  rewrite <- (rev_involutive s) at 1. rewrite Hk at 1. rewrite rev_app_distr, rev_repeat. reflexivity.
Qed.

Lemma resolve_split_lead c acc k s :
  c = slash -> resolve acc (split_on c (repeat c k ++ s)) = resolve acc (split_on c s).
Proof.
  intros ->. induction k as [|k IH]; [reflexivity|].
  simpl repeat. change ((slash :: repeat slash k) ++ s) with (slash :: (repeat slash k ++ s)).
  rewrite split_on_cons_sep, resolve_empty_seg. exact IH.
Qed.

Lemma resolve_split_trail acc k s :
  resolve acc (split_on slash (s ++ repeat slash k)) = resolve acc (split_on slash s).
Proof.
  revert s. induction k as [|k IH]; intros s; [rewrite app_nil_r; reflexivity|].
  change (repeat slash (S k)) with ([slash] ++ repeat slash k).
  rewrite app_assoc, IH, split_on_snoc, resolve_app. reflexivity.
Qed.

(* the two strips of split_path_info do not matter: empty segments are skipped anyway *)
Theorem spi_no_strip p : split_path_info p = rev (resolve [] (split_on slash p)).
Proof.
  unfold split_path_info, strip_char. f_equal.
  destruct (lstrip_decomp slash p) as [k Hk].
  destruct (rstrip_decomp slash (lstrip_char slash p)) as [j Hj].
  rewrite Hk at 2. rewrite resolve_split_lead by reflexivity.
  rewrite Hj at 2. rewrite resolve_split_trail. reflexivity.
Qed.

(* the normalised stack after reading [a] then "/" then [b] *)
Theorem spi_app a b :
  split_path_info (a ++ slash :: b) = rev (resolve (rev (split_path_info a)) (split_on slash b)).
Proof.
  rewrite !spi_no_strip, split_on_app, resolve_app, rev_involutive. reflexivity.
Qed.

(* on an empty stack '..' does nothing: a path cannot climb above the root *)
Lemma resolve_dotdot_root k segs : resolve [] (repeat dotdot k ++ segs) = resolve [] segs.
Proof. induction k as [|k IH]; [reflexivity|]. simpl. exact IH. Qed.

Theorem spi_never_above_root p :
  split_path_info (slash :: dot :: dot :: slash :: p) = split_path_info (slash :: p).
Proof.
  rewrite !spi_no_strip.
  rewrite !split_on_cons_sep, !resolve_empty_seg.
  change (dot :: dot :: slash :: p) with ([dot; dot] ++ slash :: p).
  rewrite split_on_app, resolve_app. reflexivity.
Qed.

(* any number of leading "/.." is absorbed *)
Fixpoint updirs (k : nat) (p : text) : text :=
  match k with O => p | S k' => slash :: dot :: dot :: updirs k' p end.

Theorem spi_updirs k p : split_path_info (updirs k (slash :: p)) = split_path_info (slash :: p).
Proof.
  induction k as [|k IH]; [reflexivity|]. simpl updirs.
  assert (Hq : exists q, updirs k (slash :: p) = slash :: q).
  { destruct k; simpl; eauto. }
  destruct Hq as [q Hq]. rewrite Hq in *. rewrite spi_never_above_root. exact IH.
Qed.

(* a normalised prefix is a barrier only as deep as it is long: reading
   normal segments pushes them *)
Lemma resolve_normal_push acc segs :
  Forall normal_seg segs -> resolve acc segs = rev segs ++ acc.
Proof. apply resolve_normal_id. Qed.

(* the result never contains '..', '.', '' or a slash *)
Lemma spi_no_dotdot p : ~ In dotdot (split_path_info p).
Proof.
  intros H. pose proof (spi_normal p) as Hn. rewrite Forall_forall in Hn.
  destruct (Hn _ H) as (_ & _ & H3 & _). apply H3. reflexivity.
Qed.
