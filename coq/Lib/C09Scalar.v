(* C09 -- what the decoders can produce (sixth round).
   decode (strict UTF-8) and decode_replace (errors='replace') yield Unicode scalar values only; the lenient base64
   decoder yields bytes; unquote(str) maps scalar text to scalar text; and the general round trips
   decode_replace (encode s) = s and unquote_str (quote_str safe s) = s for EVERY scalar text (not only ASCII). *)
From Coq Require Import List NArith ZArith Bool Lia ZifyBool ZifyN.
Import ListNotations.
Require Import Verif.Lib.Wire Verif.Lib.Text Verif.Lib.Percent Verif.Lib.Utf8 Verif.Lib.C09Base Verif.Lib.C09BaseP.
Ltac Zify.zify_post_hook ::= Z.div_mod_to_equations.
Open Scope N_scope.

Lemma fffd_scalar : valid_scalar fffd = true.
Proof. reflexivity. Qed.

(* ------------------------------------------------------------------ strict decoding *)
Lemma decode_scalar_n n : forall bs t, (length bs <= n)%nat -> decode bs = Some t -> forallb valid_scalar t = true.
Proof.
  induction n as [|n IH]; intros bs t Hl; destruct bs as [|b0 r0]; simpl length in Hl; try lia;
    try (intros E; inversion E; reflexivity).
  cbn [decode].
  destruct (b0 <? 128) eqn:E0.
  { destruct (decode r0) as [t0|] eqn:D; simpl; intros E; inversion E; subst. cbn [forallb].
    rewrite (IH r0 t0) by (auto; lia). unfold valid_scalar. lia. }
  destruct (inr 194 223 b0) eqn:E1.
  { destruct r0 as [|b1 r1]; [discriminate|]. destruct (cont b1) eqn:C1; [|discriminate].
    destruct (decode r1) as [t0|] eqn:D; simpl; intros E; inversion E; subst. cbn [forallb].
    rewrite (IH r1 t0) by (auto; simpl in Hl; lia). unfold valid_scalar, inr, cont in *. lia. }
  destruct (inr 224 239 b0) eqn:E2.
  { destruct r0 as [|b1 [|b2 r2]]; try discriminate.
    destruct (inr (if b0 =? 224 then 160 else 128) (if b0 =? 237 then 159 else 191) b1 && cont b2) eqn:C; [|discriminate].
    destruct (decode r2) as [t0|] eqn:D; simpl; intros E; inversion E; subst. cbn [forallb].
    rewrite (IH r2 t0) by (auto; simpl in Hl; lia). unfold valid_scalar, inr, cont in *.
    destruct (b0 =? 224) eqn:Ha; destruct (b0 =? 237) eqn:Hb; lia. }
  destruct (inr 240 244 b0) eqn:E3; [|discriminate].
  destruct r0 as [|b1 [|b2 [|b3 r3]]]; try discriminate.
  destruct (inr (if b0 =? 240 then 144 else 128) (if b0 =? 244 then 143 else 191) b1 && cont b2 && cont b3) eqn:C; [|discriminate].
  destruct (decode r3) as [t0|] eqn:D; simpl; intros E; inversion E; subst. cbn [forallb].
  rewrite (IH r3 t0) by (auto; simpl in Hl; lia). unfold valid_scalar, inr, cont in *.
  destruct (b0 =? 240) eqn:Ha; destruct (b0 =? 244) eqn:Hb; lia.
Qed.

Theorem decode_scalar bs t : decode bs = Some t -> forallb valid_scalar t = true.
Proof. apply (decode_scalar_n (length bs)). lia. Qed.

(* ------------------------------------------------------------------ decoding with replacement *)
Lemma decode_replace_scalar_n n : forall bs, (length bs <= n)%nat -> forallb valid_scalar (decode_replace bs) = true.
Proof.
  induction n as [|n IH]; intros bs Hl; destruct bs as [|b0 r0]; simpl length in Hl; try lia; try reflexivity.
  assert (IH0 : forallb valid_scalar (decode_replace r0) = true) by (apply IH; lia).
  cbn [decode_replace].
  destruct (b0 <? 128) eqn:E0.
  { cbn [forallb]. rewrite IH0. unfold valid_scalar. lia. }
  destruct (inr 194 223 b0) eqn:E1.
  { destruct r0 as [|b1 r1]; [reflexivity|]. destruct (cont b1) eqn:C1; cbn [forallb].
    - rewrite (IH r1) by (simpl in Hl; lia). unfold valid_scalar, inr, cont in *. lia.
    - rewrite IH0. reflexivity. }
  destruct (inr 224 239 b0) eqn:E2.
  { cbv zeta. destruct r0 as [|b1 r1]; [reflexivity|].
    destruct (inr (if b0 =? 224 then 160 else 128) (if b0 =? 237 then 159 else 191) b1) eqn:C1.
    - destruct r1 as [|b2 r2]; [reflexivity|]. destruct (cont b2) eqn:C2; cbn [forallb].
      + rewrite (IH r2) by (simpl in Hl; lia). unfold valid_scalar, inr, cont in *.
        destruct (b0 =? 224) eqn:Ha; destruct (b0 =? 237) eqn:Hb; lia.
      + rewrite (IH (b2 :: r2)) by (simpl in Hl |- *; lia). reflexivity.
    - cbn [forallb]. rewrite IH0. reflexivity. }
  destruct (inr 240 244 b0) eqn:E3.
  { cbv zeta. destruct r0 as [|b1 r1]; [reflexivity|].
    destruct (inr (if b0 =? 240 then 144 else 128) (if b0 =? 244 then 143 else 191) b1) eqn:C1.
    - destruct r1 as [|b2 r2]; [reflexivity|]. destruct (cont b2) eqn:C2.
      + destruct r2 as [|b3 r3]; [reflexivity|]. destruct (cont b3) eqn:C3; cbn [forallb].
        * rewrite (IH r3) by (simpl in Hl; lia). unfold valid_scalar, inr, cont in *.
          destruct (b0 =? 240) eqn:Ha; destruct (b0 =? 244) eqn:Hb; lia.
        * rewrite (IH (b3 :: r3)) by (simpl in Hl |- *; lia). reflexivity.
      + cbn [forallb]. rewrite (IH (b2 :: r2)) by (simpl in Hl |- *; lia). reflexivity.
    - cbn [forallb]. rewrite IH0. reflexivity. }
  cbn [forallb]. rewrite IH0. reflexivity.
Qed.

Theorem decode_replace_scalar bs : forallb valid_scalar (decode_replace bs) = true.
Proof. apply (decode_replace_scalar_n (length bs)). lia. Qed.

(* ------------------------------------------------------------------ unquote(str) keeps text scalar *)
Lemma flush_run_scalar run : forallb valid_scalar (flush_run run) = true.
Proof. unfold flush_run. destruct run; [reflexivity|apply decode_replace_scalar]. Qed.

Lemma unquote_go_scalar s : forallb valid_scalar s = true -> forall run,
  forallb valid_scalar (unquote_go s run) = true.
Proof.
  induction s as [|c s IH]; cbn [unquote_go forallb]; intros Hs run; [apply flush_run_scalar|].
  apply andb_true_iff in Hs as [Hc Hs].
  destruct (c <? 128); [apply IH; assumption|].
  rewrite forallb_app. cbn [forallb]. rewrite flush_run_scalar, Hc, (IH Hs). reflexivity.
Qed.

Theorem unquote_str_scalar s : forallb valid_scalar s = true -> forallb valid_scalar (unquote_str s) = true.
Proof. intros Hs. apply unquote_go_scalar. assumption. Qed.

(* ------------------------------------------------------------------ lenient base64 yields bytes *)
Lemma b64val_lt c v : b64val c = Some v -> v < 64.
Proof.
  unfold b64val. intros E.
  destruct ((65 <=? c) && (c <=? 90)) eqn:A; [inversion E; lia|].
  destruct ((97 <=? c) && (c <=? 122)) eqn:B; [inversion E; lia|].
  destruct ((48 <=? c) && (c <=? 57)) eqn:C; [inversion E; lia|].
  destruct (c =? 43); [inversion E; lia|]. destruct (c =? 47); [inversion E; lia|discriminate].
Qed.

Definition b64_inv (qp left : N) : Prop :=
  qp <= 3 /\ (qp = 1 -> left < 64) /\ (qp = 2 -> left < 16) /\ (qp = 3 -> left < 4).

Lemma b64dec_bytes s : forall qp left pads bs,
  b64_inv qp left -> b64dec s qp left pads = Some bs -> Forall (fun b => b < 256) bs.
Proof.
  induction s as [|c r IH]; intros qp left pads bs I; cbn [b64dec].
  - destruct (qp =? 0); intros E; inversion E; constructor.
  - destruct (c =? 61).
    + destruct (2 <=? qp).
      * destruct (4 <=? qp + (pads + 1)); [intros E; inversion E; constructor|apply IH; exact I].
      * apply IH; exact I.
    + destruct (b64val c) as [v|] eqn:V; [|apply IH; exact I].
      pose proof (b64val_lt c v V) as Hv. destruct I as (I0 & I1 & I2 & I3).
      destruct (qp =? 0) eqn:Q0.
      { apply IH. unfold b64_inv. repeat split; intros; try lia. }
      destruct (qp =? 1) eqn:Q1.
      { destruct (b64dec r 2 (v mod 16) 0) as [t|] eqn:D; simpl; intros E; inversion E; subst.
        constructor; [lia|]. apply (IH 2 (v mod 16) 0 t); [|exact D]. unfold b64_inv. repeat split; intros; try lia. }
      destruct (qp =? 2) eqn:Q2.
      { destruct (b64dec r 3 (v mod 4) 0) as [t|] eqn:D; simpl; intros E; inversion E; subst.
        constructor; [lia|]. apply (IH 3 (v mod 4) 0 t); [|exact D]. unfold b64_inv. repeat split; intros; try lia. }
      destruct (b64dec r 0 0 0) as [t|] eqn:D; simpl; intros E; inversion E; subst.
      constructor; [lia|]. apply (IH 0 0 0 t); [|exact D]. unfold b64_inv. repeat split; intros; try lia.
Qed.

Theorem b64decode_bytes s bs : b64decode s = Some bs -> Forall (fun b => b < 256) bs.
Proof. apply b64dec_bytes. unfold b64_inv. repeat split; intros; lia. Qed.

(* ------------------------------------------------------------------ the general round trips *)
Lemma decode_replace_encode1 c rest :
  valid_scalar c = true -> decode_replace (encode1 c ++ rest) = c :: decode_replace rest.
Proof.
  intros Hv. unfold valid_scalar in Hv. unfold encode1.
  destruct (c <? 128) eqn:H1.
  - cbn [app decode_replace]. rewrite H1. reflexivity.
  - destruct (c <? 2048) eqn:H2.
    + cbn [app decode_replace].
      assert (E0: (192 + c / 64 <? 128) = false) by lia. rewrite E0.
      assert (E1: inr 194 223 (192 + c / 64) = true) by (unfold inr; lia). rewrite E1.
      assert (E2: cont (128 + c mod 64) = true) by (unfold cont; lia). rewrite E2.
      assert (E3: (192 + c / 64 - 192) * 64 + (128 + c mod 64 - 128) = c) by lia. rewrite E3. reflexivity.
    + destruct (c <? 65536) eqn:H3.
      * cbn [app decode_replace].
        assert (E0: (224 + c / 4096 <? 128) = false) by lia. rewrite E0.
        assert (E1: inr 194 223 (224 + c / 4096) = false) by (unfold inr; lia). rewrite E1.
        assert (E1': inr 224 239 (224 + c / 4096) = true) by (unfold inr; lia). rewrite E1'. cbv zeta.
        assert (E2: inr (if 224 + c / 4096 =? 224 then 160 else 128) (if 224 + c / 4096 =? 237 then 159 else 191)
                        (128 + (c / 64) mod 64) = true).
        { unfold inr. destruct (224 + c / 4096 =? 224) eqn:Ha; destruct (224 + c / 4096 =? 237) eqn:Hb; lia. }
        rewrite E2.
        assert (E2': cont (128 + c mod 64) = true) by (unfold cont; lia). rewrite E2'.
        assert (E3: (224 + c / 4096 - 224) * 4096 + (128 + (c / 64) mod 64 - 128) * 64 + (128 + c mod 64 - 128) = c) by lia.
        rewrite E3. reflexivity.
      * cbn [app decode_replace].
        assert (E0: (240 + c / 262144 <? 128) = false) by lia. rewrite E0.
        assert (E1: inr 194 223 (240 + c / 262144) = false) by (unfold inr; lia). rewrite E1.
        assert (E1': inr 224 239 (240 + c / 262144) = false) by (unfold inr; lia). rewrite E1'.
        assert (E1'': inr 240 244 (240 + c / 262144) = true) by (unfold inr; lia). rewrite E1''. cbv zeta.
        assert (E2: inr (if 240 + c / 262144 =? 240 then 144 else 128) (if 240 + c / 262144 =? 244 then 143 else 191)
                        (128 + (c / 4096) mod 64) = true).
        { unfold inr. destruct (240 + c / 262144 =? 240) eqn:Ha; destruct (240 + c / 262144 =? 244) eqn:Hb; lia. }
        rewrite E2.
        assert (E2': cont (128 + (c / 64) mod 64) = true) by (unfold cont; lia). rewrite E2'.
        assert (E2'': cont (128 + c mod 64) = true) by (unfold cont; lia). rewrite E2''.
        assert (E3: (240 + c / 262144 - 240) * 262144 + (128 + (c / 4096) mod 64 - 128) * 4096
                    + (128 + (c / 64) mod 64 - 128) * 64 + (128 + c mod 64 - 128) = c) by lia.
        rewrite E3. reflexivity.
Qed.

Theorem decode_replace_encode s : forallb valid_scalar s = true -> decode_replace (encode s) = s.
Proof.
  induction s as [|c s IH]; intros Hs; [reflexivity|]. cbn [forallb] in Hs. apply andb_true_iff in Hs as [Hc Hs].
  unfold encode. cbn [flat_map]. rewrite decode_replace_encode1 by assumption. fold (encode s). rewrite IH by assumption.
  reflexivity.
Qed.

Lemma encode1_lt256 c : valid_scalar c = true -> Forall (fun b => b < 256) (encode1 c).
Proof.
  unfold valid_scalar, encode1. intros Hv.
  destruct (c <? 128) eqn:E1; [repeat constructor; lia|].
  destruct (c <? 2048) eqn:E2; [repeat constructor; lia|].
  destruct (c <? 65536) eqn:E3; repeat constructor; lia.
Qed.

Lemma encode_lt256 t : forallb valid_scalar t = true -> Forall (fun b => b < 256) (encode t).
Proof.
  induction t as [|c t IH]; simpl; intros Hv; [constructor|].
  apply andb_true_iff in Hv as [Hc Ht]. unfold encode. simpl. apply Forall_app. split.
  - apply encode1_lt256. assumption.
  - apply IH. assumption.
Qed.

(* urllib.parse: unquote(quote(s)) = s for every str of scalar values (any safe set of ASCII characters without '%') *)
Theorem unquote_quote_str_scalar safe s :
  is_ascii safe = true -> is_safe safe 37 = false -> forallb valid_scalar s = true ->
  unquote_str (quote_str safe s) = s.
Proof.
  intros Hsafe H37 Hs. unfold unquote_str, quote_str.
  pose proof (encode_lt256 s Hs) as Hb.
  rewrite unquote_go_ascii by (apply quote_ascii; assumption).
  rewrite app_nil_r. unfold flush_run.
  destruct (rev (quote safe (encode s))) eqn:E.
  - assert (Q : quote safe (encode s) = []) by (rewrite <- (rev_involutive (quote safe (encode s))), E; reflexivity).
    destruct s as [|c s]; [reflexivity|]. exfalso.
    cbn [forallb] in Hs. apply andb_true_iff in Hs as [Hc _].
    unfold encode in Q. cbn [flat_map] in Q. unfold encode1 in Q.
    destruct (c <? 128); [|destruct (c <? 2048); [|destruct (c <? 65536)]];
      cbn [app] in Q; unfold quote in Q; cbn [flat_map] in Q; unfold quote1 at 1 in Q;
      match type of Q with context [is_safe safe ?b] => destruct (is_safe safe b) end; discriminate.
  - rewrite <- E, rev_involutive, unquote_quote by assumption. apply decode_replace_encode. assumption.
Qed.
