(* Types of the regenerated introspectable tables (Gen/Facts_C20.v). *)
From Coq Require Import List NArith.
Require Import Verif.Lib.Wire.
Inductive form := FArg (p : text) | FNorm (f p : text) | FConst | FOther.
Record site := mkSite {
  s_file : text; s_func : text; s_var : text; s_category : text;
  s_params : list text; s_keys : list (text * form) }.
