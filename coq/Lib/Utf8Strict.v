(* Strictness of the UTF-8 decoder of Lib/Utf8.v: whatever it accepts is the
   unique encoding of a sequence of Unicode scalar values (no overlong forms,
   no surrogates, nothing above U+10FFFF, no truncation). *)
From Coq Require Import List NArith ZArith Bool Lia ZifyBool ZifyN.
Import ListNotations.
Require Import Verif.Lib.Wire Verif.Lib.Utf8.
Ltac Zify.zify_post_hook ::= Z.div_mod_to_equations.
Open Scope N_scope.

Lemma encode_cons c cs : encode (c :: cs) = encode1 c ++ encode cs.
Proof. reflexivity. Qed.

Lemma decode_strict_n : forall (n : nat) bs cs,
  (length bs <= n)%nat -> decode bs = Some cs ->
  encode cs = bs /\ forallb valid_scalar cs = true.
Proof.
  induction n as [|n IH]; intros bs cs Hlen H.
  - destruct bs; [|simpl in Hlen; lia]. simpl in H. inversion H; subst. split; reflexivity.
  - destruct bs as [|b0 r0]; [simpl in H; inversion H; subst; split; reflexivity|].
    cbn [decode] in H.
    destruct (b0 <? 128) eqn:E0.
    { destruct (decode r0) as [cs0|] eqn:D; simpl in H; [|discriminate]. inversion H; subst cs.
      destruct (IH r0 cs0 ltac:(simpl in Hlen; lia) D) as [I1 I2].
      split.
      - rewrite encode_cons, I1. unfold encode1. rewrite E0. reflexivity.
      - cbn [forallb]. rewrite I2. unfold valid_scalar. assert (X : (b0 <? 55296) = true) by lia. rewrite X. reflexivity. }
    destruct (inr 194 223 b0) eqn:E1.
    { destruct r0 as [|b1 r1]; [discriminate|].
      destruct (cont b1) eqn:C1; [|discriminate].
      destruct (decode r1) as [cs0|] eqn:D; simpl in H; [|discriminate]. inversion H; subst cs.
      destruct (IH r1 cs0 ltac:(simpl in Hlen; lia) D) as [I1 I2].
      unfold inr, cont in *.
      set (c := (b0 - 192) * 64 + (b1 - 128)).
      assert (Hc1 : (c <? 128) = false) by (unfold c; lia).
      assert (Hc2 : (c <? 2048) = true) by (unfold c; lia).
      split.
      - rewrite encode_cons, I1. fold c. unfold encode1. rewrite Hc1, Hc2. cbn [app].
        f_equal; [unfold c; lia|]. f_equal. unfold c; lia.
      - cbn [forallb]. fold c. rewrite I2. unfold valid_scalar.
        assert (X : (c <? 55296) = true) by (unfold c; lia). rewrite X. reflexivity. }
    destruct (inr 224 239 b0) eqn:E2.
    { destruct r0 as [|b1 [|b2 r2]]; try discriminate.
      destruct (inr (if b0 =? 224 then 160 else 128) (if b0 =? 237 then 159 else 191) b1 && cont b2) eqn:C; [|discriminate].
      destruct (decode r2) as [cs0|] eqn:D; simpl in H; [|discriminate]. inversion H; subst cs.
      destruct (IH r2 cs0 ltac:(simpl in Hlen; lia) D) as [I1 I2].
      unfold inr, cont in *.
      set (c := (b0 - 224) * 4096 + (b1 - 128) * 64 + (b2 - 128)).
      assert (Hb : 128 <= b1 <= 191 /\ 128 <= b2 <= 191 /\ 224 <= b0 <= 239
                   /\ (b0 = 224 -> 160 <= b1) /\ (b0 = 237 -> b1 <= 159)).
      { destruct (b0 =? 224) eqn:Ea; destruct (b0 =? 237) eqn:Eb; lia. }
      assert (Hc1 : (c <? 128) = false) by (unfold c; lia).
      assert (Hc2 : (c <? 2048) = false) by (unfold c; lia).
      assert (Hc3 : (c <? 65536) = true) by (unfold c; lia).
      split.
      - rewrite encode_cons, I1. fold c. unfold encode1. rewrite Hc1, Hc2, Hc3. cbn [app].
        f_equal; [unfold c; lia|]. f_equal; [unfold c; lia|]. f_equal. unfold c; lia.
      - cbn [forallb]. fold c. rewrite I2. unfold valid_scalar.
        assert (X : (c <? 55296) || (57343 <? c) && (c <? 1114112) = true) by (unfold c; lia).
        rewrite X. reflexivity. }
    destruct (inr 240 244 b0) eqn:E3; [|discriminate].
    destruct r0 as [|b1 [|b2 [|b3 r3]]]; try discriminate.
    destruct (inr (if b0 =? 240 then 144 else 128) (if b0 =? 244 then 143 else 191) b1 && cont b2 && cont b3) eqn:C; [|discriminate].
    destruct (decode r3) as [cs0|] eqn:D; simpl in H; [|discriminate]. inversion H; subst cs.
    destruct (IH r3 cs0 ltac:(simpl in Hlen; lia) D) as [I1 I2].
    unfold inr, cont in *.
    set (c := (b0 - 240) * 262144 + (b1 - 128) * 4096 + (b2 - 128) * 64 + (b3 - 128)).
    assert (Hb : 128 <= b1 <= 191 /\ 128 <= b2 <= 191 /\ 128 <= b3 <= 191 /\ 240 <= b0 <= 244
                 /\ (b0 = 240 -> 144 <= b1) /\ (b0 = 244 -> b1 <= 143)).
    { destruct (b0 =? 240) eqn:Ea; destruct (b0 =? 244) eqn:Eb; lia. }
    assert (Hc1 : (c <? 128) = false) by (unfold c; lia).
    assert (Hc2 : (c <? 2048) = false) by (unfold c; lia).
    assert (Hc3 : (c <? 65536) = false) by (unfold c; lia).
    split.
    + rewrite encode_cons, I1. fold c. unfold encode1. rewrite Hc1, Hc2, Hc3. cbn [app].
      f_equal; [unfold c; lia|]. f_equal; [unfold c; lia|]. f_equal; [unfold c; lia|]. f_equal. unfold c; lia.
    + cbn [forallb]. fold c. rewrite I2. unfold valid_scalar.
      assert (X : (c <? 55296) || (57343 <? c) && (c <? 1114112) = true) by (unfold c; lia).
      rewrite X. reflexivity.
Qed.

(* the decoder accepts exactly the canonical encodings of scalar-value sequences *)
Theorem decode_strict bs cs :
  decode bs = Some cs -> encode cs = bs /\ forallb valid_scalar cs = true.
Proof. apply (decode_strict_n (length bs)). lia. Qed.

Corollary decode_iff_encode bs cs :
  decode bs = Some cs <-> (forallb valid_scalar cs = true /\ encode cs = bs).
Proof.
  split.
  - intros H. destruct (decode_strict _ _ H). auto.
  - intros [Hv <-]. apply decode_encode. assumption.
Qed.

(* two different byte strings never decode to the same text (no overlong aliases) *)
Corollary decode_injective a b cs : decode a = Some cs -> decode b = Some cs -> a = b.
Proof. intros Ha Hb. destruct (decode_strict _ _ Ha) as [<- _]. destruct (decode_strict _ _ Hb) as [<- _]. reflexivity. Qed.
