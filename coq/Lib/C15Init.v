(* C15 -- the instruction language of the plumbing AROUND the view-lookup core, into which the facts
   extractor translates Registry.__init__ (what a re-initialisation of a live registry does to the lock,
   the lookup cache and the adapter registry) and pyramid.view._call_view (which candidate of the list
   returned by _find_views answers a request).  Types only; the semantics is in Model/C15.v. *)
From Coq Require Import List NArith.
Import ListNotations.
Require Import Verif.Lib.C15Prog.

(* Registry.__init__ *)
Inductive init_instr :=
| INewLock                     (* self._lock = threading.Lock() *)
| IClear (m : clear_mode)      (* self._clear_view_lookup_cache() *)
| IResetAdapters.              (* Components.__init__(self, ...): every registration is dropped *)

(* _call_view: the loop over the candidate list.  What one candidate does with the request at hand is an
   oracle ([cand_result]); the control flow around it is translated. *)
Inductive cand_result :=
| CAnswer (a : N)              (* the callable returned a response (tag a; the refusal of the permission check
                                  is a tag of its own) *)
| CMismatch.                   (* it raised PredicateMismatch *)

Inductive cv_outcome :=
| CVResponse (a : N)           (* return response *)
| CVNone                       (* the function falls through: returns None *)
| CVRaiseMismatch.             (* raise pme *)
