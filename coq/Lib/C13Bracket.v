(* C13 part (a): statement language for the push/pop skeleton of the functions
   that touch the thread-local manager, a nondeterministic big-step semantics in
   which every opaque call may return or raise (and leaves the stack alone), and
   a verified path-summary analysis [analyse].

   World: the manager's stack as a list of frame tags (top first).  [Pop] on an
   empty stack is a no-op (ThreadLocalManager.pop tests [if self.stack]).
   [Mark m] is a silent instruction that records (m, current stack) in the
   trace; the translator puts one before every call the theorems speak about. *)
From Coq Require Import List NArith Bool Arith Lia.
Import ListNotations.

Inductive kind := KN | KRet | KExc.
Definition kind_eqb (a b : kind) : bool :=
  match a, b with KN, KN | KRet, KRet | KExc, KExc => true | _, _ => false end.

Inductive stmt :=
| Skip
| Push (t : N)
| Pop
| Call
| Mark (m : N)
| Return
| Raise
| Seq (a b : stmt)
| TryFinally (a b : stmt)
| TryExcept (all : bool) (a h : stmt)   (* all = a bare / BaseException handler exists: nothing escapes *)
| If (a b : stmt)
| Loop (a : stmt)
| Scope (a : stmt).                      (* body of a called procedure: [return] ends here *)

Definition stack := list N.
Definition event := (N * stack)%type.

Definition fin_kind (k k2 : kind) : kind := match k2 with KN => k | _ => k2 end.
Definition scope_kind (k : kind) : kind := match k with KRet => KN | _ => k end.

Inductive exec : stmt -> stack -> kind -> stack -> list event -> Prop :=
| E_Skip s : exec Skip s KN s []
| E_Push t s : exec (Push t) s KN (t :: s) []
| E_Pop s : exec Pop s KN (tl s) []
| E_CallOk s : exec Call s KN s []
| E_CallExc s : exec Call s KExc s []
| E_Mark m s : exec (Mark m) s KN s [(m, s)]
| E_Return s : exec Return s KRet s []
| E_Raise s : exec Raise s KExc s []
| E_SeqN a b s s1 t1 k s2 t2 :
    exec a s KN s1 t1 -> exec b s1 k s2 t2 -> exec (Seq a b) s k s2 (t1 ++ t2)
| E_SeqX a b s k s1 t1 : exec a s k s1 t1 -> k <> KN -> exec (Seq a b) s k s1 t1
| E_Fin a b s k s1 t1 k2 s2 t2 :
    exec a s k s1 t1 -> exec b s1 k2 s2 t2 ->
    exec (TryFinally a b) s (fin_kind k k2) s2 (t1 ++ t2)
| E_ExcH all a h s s1 t1 k s2 t2 :
    exec a s KExc s1 t1 -> exec h s1 k s2 t2 -> exec (TryExcept all a h) s k s2 (t1 ++ t2)
| E_ExcNo all a h s k s1 t1 : exec a s k s1 t1 -> k <> KExc -> exec (TryExcept all a h) s k s1 t1
| E_ExcEsc a h s s1 t1 : exec a s KExc s1 t1 -> exec (TryExcept false a h) s KExc s1 t1
| E_IfL a b s k s1 t1 : exec a s k s1 t1 -> exec (If a b) s k s1 t1
| E_IfR a b s k s1 t1 : exec b s k s1 t1 -> exec (If a b) s k s1 t1
| E_Loop0 a s : exec (Loop a) s KN s []
| E_LoopS a s s1 t1 k s2 t2 :
    exec a s KN s1 t1 -> exec (Loop a) s1 k s2 t2 -> exec (Loop a) s k s2 (t1 ++ t2)
| E_LoopX a s k s1 t1 : exec a s k s1 t1 -> k <> KN -> exec (Loop a) s k s1 t1
| E_Scope a s k s1 t1 : exec a s k s1 t1 -> exec (Scope a) s (scope_kind k) s1 t1.

(* ---- abstract effects: pop [n] frames of the initial stack, then push [l] *)
Definition eff := (nat * list N)%type.
Definition eid : eff := (0, []).
Definition app_eff (e : eff) (s : stack) : stack := snd e ++ skipn (fst e) s.
Definition comp (a b : eff) : eff :=
  (fst a + (fst b - length (snd a)), snd b ++ skipn (fst b) (snd a)).

Definition aevent := (N * eff)%type.
Definition summ := (kind * eff * list aevent)%type.
Definition shift (a : eff) (ev : aevent) : aevent := (fst ev, comp a (snd ev)).
Definition conc_ev (s : stack) (ev : aevent) : event := (fst ev, app_eff (snd ev) s).
Definition conc (s : stack) (su : summ) : kind * stack * list event :=
  match su with (k, e, tr) => (k, app_eff e s, map (conc_ev s) tr) end.

Definition eff_eqb (a b : eff) : bool :=
  Nat.eqb (fst a) (fst b) && (if list_eq_dec N.eq_dec (snd a) (snd b) then true else false).
Definition is_ident (su : summ) : bool :=
  match su with (k, e, tr) => eff_eqb e eid && match tr with [] => true | _ => false end end.
Definition loop_ok (su : summ) : bool :=
  match su with (KN, _, _) => is_ident su | _ => true end.
Definition not_normal (su : summ) : bool := match su with (k, _, _) => negb (kind_eqb k KN) end.

Definition seq_summ (su : summ) (B : list summ) : list summ :=
  match su with
  | (KN, e, tr) => map (fun sb => match sb with (k2, e2, tr2) => (k2, comp e e2, tr ++ map (shift e) tr2) end) B
  | _ => [su]
  end.
Definition fin_summ (su : summ) (B : list summ) : list summ :=
  match su with
  | (k, e, tr) => map (fun sb => match sb with (k2, e2, tr2) => (fin_kind k k2, comp e e2, tr ++ map (shift e) tr2) end) B
  end.
Definition exc_summ (all : bool) (su : summ) (H : list summ) : list summ :=
  match su with
  | (KExc, e, tr) =>
      (if all then [] else [su]) ++
      map (fun sb => match sb with (k2, e2, tr2) => (k2, comp e e2, tr ++ map (shift e) tr2) end) H
  | _ => [su]
  end.

(* duplicate path summaries are dropped at every composition step (otherwise a run of n optional calls has
   2^n identical normal summaries); membership, which is all soundness needs, is unchanged *)
Definition summ_eq_dec (a b : summ) : {a = b} + {a <> b}.
Proof.
  repeat decide equality; try apply N.eq_dec; try apply Nat.eq_dec.
Defined.
Definition dd (l : list summ) : list summ := nodup summ_eq_dec l.
Lemma dd_In su l : In su l -> In su (dd l).
Proof. intros H. apply nodup_In. exact H. Qed.

Fixpoint analyse (st : stmt) : option (list summ) :=
  match st with
  | Skip => Some [(KN, eid, [])]
  | Push t => Some [(KN, (0, [t]), [])]
  | Pop => Some [(KN, (1, []), [])]
  | Call => Some [(KN, eid, []); (KExc, eid, [])]
  | Mark m => Some [(KN, eid, [(m, eid)])]
  | Return => Some [(KRet, eid, [])]
  | Raise => Some [(KExc, eid, [])]
  | Seq a b =>
      match analyse a, analyse b with
      | Some A, Some B => Some (dd (flat_map (fun su => seq_summ su B) A))
      | _, _ => None end
  | TryFinally a b =>
      match analyse a, analyse b with
      | Some A, Some B => Some (dd (flat_map (fun su => fin_summ su B) A))
      | _, _ => None end
  | TryExcept all a h =>
      match analyse a, analyse h with
      | Some A, Some H => Some (dd (flat_map (fun su => exc_summ all su H) A))
      | _, _ => None end
  | If a b => match analyse a, analyse b with Some A, Some B => Some (dd (A ++ B)) | _, _ => None end
  | Loop a =>
      match analyse a with
      | Some A => if forallb loop_ok A then Some ((KN, eid, []) :: filter not_normal A) else None
      | None => None end
  | Scope a =>
      match analyse a with
      | Some A => Some (map (fun su => match su with (k, e, tr) => (scope_kind k, e, tr) end) A)
      | None => None end
  end.

(* ---- soundness *)
Lemma skipn_skipn' {A} (x y : nat) (l : list A) : skipn x (skipn y l) = skipn (y + x) l.
Proof.
  revert l; induction y as [|y IH]; intros l; simpl; [reflexivity|].
  destruct l as [|a l]; [rewrite skipn_nil; reflexivity|apply IH].
Qed.

Lemma comp_ok a b s : app_eff b (app_eff a s) = app_eff (comp a b) s.
Proof.
  unfold app_eff, comp; simpl. rewrite skipn_app, skipn_skipn', app_assoc. reflexivity.
Qed.

Lemma app_eid s : app_eff eid s = s.
Proof. reflexivity. Qed.

Lemma conc_shift a s tr :
  map (conc_ev (app_eff a s)) tr = map (conc_ev s) (map (shift a) tr).
Proof.
  rewrite map_map. apply map_ext. intros [m e]. unfold conc_ev, shift; simpl.
  rewrite comp_ok. reflexivity.
Qed.

Lemma eff_eqb_eq a b : eff_eqb a b = true -> a = b.
Proof.
  destruct a as [n l], b as [n' l']. unfold eff_eqb; simpl. intros H.
  apply andb_true_iff in H. destruct H as [H1 H2]. apply Nat.eqb_eq in H1.
  destruct (list_eq_dec N.eq_dec l l'); [subst; reflexivity|discriminate].
Qed.

Lemma is_ident_conc su s : is_ident su = true -> conc s su = (fst (fst su), s, []).
Proof.
  destruct su as [[k e] tr]. simpl. intros H. apply andb_true_iff in H. destruct H as [H1 H2].
  apply eff_eqb_eq in H1. subst e. destruct tr; [reflexivity|discriminate].
Qed.

(* composing a normal prefix summary with a continuation summary *)
Lemma conc_comp s k1 e1 tr1 s1 t1 k2 e2 tr2 k s2 t2 :
  conc s (k1, e1, tr1) = (k1, s1, t1) ->
  conc s1 (k2, e2, tr2) = (k, s2, t2) ->
  conc s (k, comp e1 e2, tr1 ++ map (shift e1) tr2) = (k, s2, t1 ++ t2).
Proof.
  simpl. intros H1 H2. injection H1 as <- <-. injection H2 as <- <- <-.
  rewrite comp_ok, map_app, <- conc_shift. reflexivity.
Qed.

Theorem analyse_sound st s k s' tr :
  exec st s k s' tr -> forall L, analyse st = Some L ->
  exists su, In su L /\ conc s su = (k, s', tr).
Proof.
  induction 1; intros L HL; simpl in HL.
  - injection HL as <-. eexists; split; [left; reflexivity|reflexivity].
  - injection HL as <-. eexists; split; [left; reflexivity|reflexivity].
  - injection HL as <-. eexists; split; [left; reflexivity|]. simpl. unfold app_eff; simpl.
    destruct s; reflexivity.
  - injection HL as <-. eexists; split; [left; reflexivity|reflexivity].
  - injection HL as <-. eexists; split; [right; left; reflexivity|reflexivity].
  - injection HL as <-. eexists; split; [left; reflexivity|reflexivity].
  - injection HL as <-. eexists; split; [left; reflexivity|reflexivity].
  - injection HL as <-. eexists; split; [left; reflexivity|reflexivity].
  - (* SeqN *)
    destruct (analyse a) as [A|]; [|discriminate]. destruct (analyse b) as [B|]; [|discriminate].
    injection HL as <-.
    destruct (IHexec1 A eq_refl) as [[[k1 e1] tr1] [I1 C1]].
    destruct (IHexec2 B eq_refl) as [[[k2 e2] tr2] [I2 C2]].
    assert (k1 = KN) by (simpl in C1; congruence). subst k1.
    assert (k2 = k) by (simpl in C2; congruence). subst k2.
    exists (k, comp e1 e2, tr1 ++ map (shift e1) tr2). split.
    + apply dd_In. apply in_flat_map. exists (KN, e1, tr1). split; [exact I1|]. simpl.
      apply in_map_iff. exists (k, e2, tr2). split; [reflexivity|exact I2].
    + eapply conc_comp; eassumption.
  - (* SeqX *)
    destruct (analyse a) as [A|]; [|discriminate]. destruct (analyse b) as [B|]; [|discriminate].
    injection HL as <-.
    destruct (IHexec A eq_refl) as [[[k1 e1] tr1] [I1 C1]].
    assert (k1 = k) by (simpl in C1; congruence). subst k1.
    exists (k, e1, tr1). split; [|exact C1].
    apply dd_In. apply in_flat_map. exists (k, e1, tr1). split; [exact I1|].
    destruct k; [congruence| |]; simpl; auto.
  - (* Fin *)
    destruct (analyse a) as [A|]; [|discriminate]. destruct (analyse b) as [B|]; [|discriminate].
    injection HL as <-.
    destruct (IHexec1 A eq_refl) as [[[k1 e1] tr1] [I1 C1]].
    destruct (IHexec2 B eq_refl) as [[[k2' e2] tr2] [I2 C2]].
    assert (k1 = k) by (simpl in C1; congruence). subst k1.
    assert (k2' = k2) by (simpl in C2; congruence). subst k2'.
    exists (fin_kind k k2, comp e1 e2, tr1 ++ map (shift e1) tr2). split.
    + apply dd_In. apply in_flat_map. exists (k, e1, tr1). split; [exact I1|]. simpl.
      apply in_map_iff. exists (k2, e2, tr2). split; [reflexivity|exact I2].
    + simpl in C1, C2. injection C1 as <- <-. injection C2 as <- <-.
      simpl. rewrite comp_ok, map_app, <- conc_shift. reflexivity.
  - (* ExcH *)
    destruct (analyse a) as [A|]; [|discriminate]. destruct (analyse h) as [Hh|]; [|discriminate].
    injection HL as <-.
    destruct (IHexec1 A eq_refl) as [[[k1 e1] tr1] [I1 C1]].
    destruct (IHexec2 Hh eq_refl) as [[[k2 e2] tr2] [I2 C2]].
    assert (k1 = KExc) by (simpl in C1; congruence). subst k1.
    assert (k2 = k) by (simpl in C2; congruence). subst k2.
    exists (k, comp e1 e2, tr1 ++ map (shift e1) tr2). split.
    + apply dd_In. apply in_flat_map. exists (KExc, e1, tr1). split; [exact I1|]. simpl.
      apply in_or_app. right.
      apply in_map_iff. exists (k, e2, tr2). split; [reflexivity|exact I2].
    + eapply conc_comp; eassumption.
  - (* ExcNo *)
    destruct (analyse a) as [A|]; [|discriminate]. destruct (analyse h) as [Hh|]; [|discriminate].
    injection HL as <-.
    destruct (IHexec A eq_refl) as [[[k1 e1] tr1] [I1 C1]].
    assert (k1 = k) by (simpl in C1; congruence). subst k1.
    exists (k, e1, tr1). split; [|exact C1].
    apply dd_In. apply in_flat_map. exists (k, e1, tr1). split; [exact I1|].
    destruct k; [| |congruence]; simpl; auto.
  - (* ExcEsc *)
    destruct (analyse a) as [A|]; [|discriminate]. destruct (analyse h) as [Hh|]; [|discriminate].
    injection HL as <-.
    destruct (IHexec A eq_refl) as [[[k1 e1] tr1] [I1 C1]].
    assert (k1 = KExc) by (simpl in C1; congruence). subst k1.
    exists (KExc, e1, tr1). split; [|exact C1].
    apply dd_In. apply in_flat_map. exists (KExc, e1, tr1). split; [exact I1|]. simpl. left. reflexivity.
  - (* IfL *)
    destruct (analyse a) as [A|]; [|discriminate]. destruct (analyse b) as [B|]; [|discriminate].
    injection HL as <-. destruct (IHexec A eq_refl) as [su [I C]].
    exists su. split; [apply dd_In; apply in_or_app; auto|exact C].
  - (* IfR *)
    destruct (analyse a) as [A|]; [|discriminate]. destruct (analyse b) as [B|]; [|discriminate].
    injection HL as <-. destruct (IHexec B eq_refl) as [su [I C]].
    exists su. split; [apply dd_In; apply in_or_app; auto|exact C].
  - (* Loop0 *)
    destruct (analyse a) as [A|]; [|discriminate].
    destruct (forallb loop_ok A); [|discriminate]. injection HL as <-.
    eexists; split; [left; reflexivity|reflexivity].
  - (* LoopS *)
    pose proof HL as HL'.
    destruct (analyse a) as [A|] eqn:EA; [|discriminate].
    destruct (forallb loop_ok A) eqn:EF; [|discriminate].
    destruct (IHexec1 A eq_refl) as [[[k1 e1] tr1] [I1 C1]].
    assert (k1 = KN) by (simpl in C1; congruence). subst k1.
    rewrite forallb_forall in EF. pose proof (EF _ I1) as Hid. simpl in Hid.
    pose proof (is_ident_conc (KN, e1, tr1) s Hid) as Hc. simpl fst in Hc.
    rewrite Hc in C1. injection C1 as <- <-.
    apply IHexec2. simpl. rewrite EA.
    assert (forallb loop_ok A = true) as -> by (apply forallb_forall; exact EF).
    exact HL'.
  - (* LoopX *)
    destruct (analyse a) as [A|] eqn:EA; [|discriminate].
    destruct (forallb loop_ok A); [|discriminate]. injection HL as <-.
    destruct (IHexec A eq_refl) as [[[k1 e1] tr1] [I1 C1]].
    assert (k1 = k) by (simpl in C1; congruence). subst k1.
    exists (k, e1, tr1). split; [|exact C1]. right.
    apply filter_In. split; [exact I1|]. destruct k; simpl; congruence.
  - (* Scope *)
    destruct (analyse a) as [A|]; [|discriminate]. injection HL as <-.
    destruct (IHexec A eq_refl) as [[[k1 e1] tr1] [I1 C1]].
    assert (k1 = k) by (simpl in C1; congruence). subst k1.
    exists (scope_kind k, e1, tr1). split.
    + apply in_map_iff. exists (k, e1, tr1). split; [reflexivity|exact I1].
    + simpl in *. congruence.
Qed.

(* ---- reflective use: a boolean check on every path summary *)
Definition all_paths (c : summ -> bool) (st : stmt) : bool :=
  match analyse st with Some L => forallb c L | None => false end.

Theorem all_paths_sound c st : all_paths c st = true ->
  forall s k s' tr, exec st s k s' tr -> exists su, c su = true /\ conc s su = (k, s', tr).
Proof.
  unfold all_paths. destruct (analyse st) as [L|] eqn:E; [|discriminate].
  intros HB s k s' tr HE. destruct (analyse_sound _ _ _ _ _ HE L E) as [su [I C]].
  exists su. split; [|exact C]. rewrite forallb_forall in HB. exact (HB _ I).
Qed.

(* existence of paths: the analysis is not vacuous *)
Definition some_path (c : summ -> bool) (st : stmt) : bool :=
  match analyse st with Some L => existsb c L | None => false end.

(* derived sugar used by the translator *)
Definition With (enter exit body : stmt) : stmt := Seq enter (TryFinally body exit).
