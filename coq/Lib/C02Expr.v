(* Tiny expression language for the values of the four dictionaries returned by
   ResourceTreeTraverser.__call__ (src/pyramid/traversal.py).  The facts
   extractor translates each value expression of the source (e.g.
   [vpath_tuple[: vroot_idx + i + 1]], [segment[2:]]) into a term of this
   language; the model evaluates it, so the model's [traversed], [subpath],
   [view_name] ... are whatever the source computes now. *)
From Coq Require Import List NArith ZArith Bool Lia.
Import ListNotations.
Require Import Verif.Lib.Wire.

(* integer expressions over the loop variables *)
Inductive iexp :=
| IConst (z : Z)
| IVarI            (* i *)
| IVrootIdx        (* vroot_idx *)
| IAdd (a b : iexp)
| ISub (a b : iexp).

(* tuple-of-segments expressions *)
Inductive texp :=
| TVpath           (* vpath_tuple *)
| TSubpath         (* subpath (from the match dictionary, or ()) *)
| TVrootTuple      (* vroot_tuple *)
| TEmpty           (* () *)
| TSliceFrom (t : texp) (lo : iexp)     (* t[lo:] *)
| TSliceTo (t : texp) (hi : iexp).      (* t[:hi] *)

(* string expressions *)
Inductive sexp :=
| SSegment                 (* segment *)
| SSegFrom (lo : Z)        (* segment[lo:] *)
| SConst (t : text).       (* a literal *)

(* resource expressions *)
Inductive rexp := ROb | RVroot | RRoot.

Record retdict := mkRet {
  r_context : rexp; r_view_name : sexp; r_subpath : texp; r_traversed : texp;
  r_virtual_root : rexp; r_virtual_root_path : texp; r_root : rexp }.

(* how [vpath_tuple] is computed inside the loop branch:
   VJoined   = split_path_info(vpath)                  (vroot text ++ path text, then normalise)
   VSeparate = vroot_tuple + split_path_info(path)     (normalise the request path on its own) *)
Inductive vpath_mode := VJoined | VSeparate.

(* Python slice bound normalisation for a sequence of length [len] *)
Definition norm_idx (z : Z) (len : nat) : nat :=
  if (z <? 0)%Z then Z.to_nat (Z.max 0 (z + Z.of_nat len)) else Z.to_nat z.

Definition py_from {A} (z : Z) (l : list A) : list A := skipn (norm_idx z (length l)) l.
Definition py_to {A} (z : Z) (l : list A) : list A := firstn (norm_idx z (length l)) l.

Record env (R : Type) := mkEnv {
  e_vpath : list text; e_subpath : list text; e_vroot_tuple : list text;
  e_i : Z; e_vroot_idx : Z; e_segment : text;
  e_ob : R; e_vroot : R; e_root : R }.
Arguments mkEnv {R}. Arguments e_vpath {R}. Arguments e_subpath {R}. Arguments e_vroot_tuple {R}.
Arguments e_i {R}. Arguments e_vroot_idx {R}. Arguments e_segment {R}.
Arguments e_ob {R}. Arguments e_vroot {R}. Arguments e_root {R}.

Section Eval.
Context {R : Type}.
Variable E : env R.

Fixpoint ieval (e : iexp) : Z :=
  match e with
  | IConst z => z
  | IVarI => e_i E
  | IVrootIdx => e_vroot_idx E
  | IAdd a b => (ieval a + ieval b)%Z
  | ISub a b => (ieval a - ieval b)%Z
  end.

Fixpoint teval (t : texp) : list text :=
  match t with
  | TVpath => e_vpath E
  | TSubpath => e_subpath E
  | TVrootTuple => e_vroot_tuple E
  | TEmpty => []
  | TSliceFrom t lo => py_from (ieval lo) (teval t)
  | TSliceTo t hi => py_to (ieval hi) (teval t)
  end.

Definition seval (s : sexp) : text :=
  match s with
  | SSegment => e_segment E
  | SSegFrom lo => py_from lo (e_segment E)
  | SConst t => t
  end.

Definition reval (r : rexp) : R :=
  match r with ROb => e_ob E | RVroot => e_vroot E | RRoot => e_root E end.
End Eval.

Lemma norm_idx_nat n len : norm_idx (Z.of_nat n) len = n.
Proof. unfold norm_idx. destruct (Z.ltb_spec (Z.of_nat n) 0); [lia|apply Nat2Z.id]. Qed.

Lemma py_from_nat {A} n (l : list A) : py_from (Z.of_nat n) l = skipn n l.
Proof. unfold py_from. rewrite norm_idx_nat. reflexivity. Qed.

Lemma py_to_nat {A} n (l : list A) : py_to (Z.of_nat n) l = firstn n l.
Proof. unfold py_to. rewrite norm_idx_nat. reflexivity. Qed.
