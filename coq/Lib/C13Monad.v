(* C13 part (b): the world and the exception/state monad of the pipeline interpreter, the combinators the
   translator harness/c13/translate_b.py maps Python statements to, and the record of primitives (leaves) the
   translated router functions are parametric in.  Definitions only. *)
From Coq Require Import List NArith Bool.
Import ListNotations.
Local Open Scope N_scope.

Record pev := mkEv { e_pt : N; e_lvl : N; e_depth : N; e_cur : bool; e_aux : N }.

(* world: thread-local stack (frames named by the level of their request), event log,
   the current request's callback deques and callback counters *)
Record state := mkSt { stk : list N; log : list pev; rq : list N; fq : list N; nr : N; nf : N }.
Inductive res := Ok (v : N) | Ex (k : N).
Definition M := state -> state * res.

Definition ret (v : N) : M := fun st => (st, Ok v).
Definition raise (k : N) : M := fun st => (st, Ex k).
Definition bind (m : M) (f : N -> M) : M :=
  fun st => match m st with (st', Ok v) => f v st' | (st', Ex k) => (st', Ex k) end.
Definition seq (m n : M) : M := bind m (fun _ => n).
(* try: m  except Exception as k: h k *)
Definition catch (m : M) (h : N -> M) : M :=
  fun st => match m st with (st', Ex k) => h k st' | r => r end.
(* try: m  finally: f     (an exception of f replaces the outcome of m) *)
Definition finally (m f : M) : M :=
  fun st => match m st with
            | (st', r) => match f st' with (st'', Ok _) => (st'', r) | (st'', Ex k) => (st'', Ex k) end
            end.
Definition upd_stk (f : list N -> list N) : M :=
  fun st => (mkSt (f (stk st)) (log st) (rq st) (fq st) (nr st) (nf st), Ok 0).
Definition push (l : N) : M := upd_stk (cons l).
Definition pop : M := upd_stk (@tl N).                  (* ThreadLocalManager.pop: no-op when empty *)
(* RequestContext / invoke_exception_view:  push; try: m finally: pop *)
Definition frame (l : N) (m : M) : M := seq (push l) (finally m pop).

(* Python truth of a value handed back by a primitive *)
Definition truthy (v : N) : bool := negb (N.eqb v 0).
(* while test: body   -- fuelled; running out of fuel is the explicit error 99 *)
Fixpoint while_ (fuel : nat) (test body : M) : M :=
  fun st => match fuel with
  | O => (st, Ex 99)
  | S fuel' =>
      match test st with
      | (st1, Ok v) =>
          if truthy v then
            match body st1 with
            | (st2, Ok _) => while_ fuel' test body st2
            | r => r
            end
          else (st1, Ok 0)
      | r => r
      end
  end.
Definition while_fuelled (fuel : state -> nat) (test body : M) : M :=
  fun st => while_ (fuel st) test body st.

(* the leaves of the translated functions (harness/c13/translate_b.py PRIM tables say which source expression
   is which field).  Theorems "generated = reference" hold for EVERY value of this record. *)
Record prims := mkPrims {
  p_handle_tweens : M;            (* Router.invoke_request: self.handle_request(request) (the tween chain) *)
  p_handle_orig : M;              (*                       self.orig_handle_request(request) *)
  p_resp_pending : M;             (* truth value of request.response_callbacks *)
  p_resp_popleft : M;             (* callbacks.popleft() on the response deque: the callback *)
  p_resp_call : N -> M;           (* callback(self, response) *)
  p_resp_fuel : state -> nat;     (* bound on the iterations of the response-callback loop *)
  p_fin_pending : M;
  p_fin_popleft : M;
  p_fin_call : N -> M;
  p_fin_fuel : state -> nat;
  p_has_listeners : M;            (* truth value of registry.has_listeners *)
  p_notify_newresponse : M;       (* registry.notify(NewResponse(request, response)) *)
  p_has_extensions : M;           (* truth value of `self.request_extensions is not None` *)
  p_setup : M;                    (* request factory / request extensions / attribute glue before the scope *)
  p_push : M;                     (* manager.push({'registry': registry, 'request': request}) *)
  p_pop : M;                      (* manager.pop() *)
  p_handler : M;                  (* excview_tween: handler(request), the rest of the tween chain *)
  p_is_notfound : N -> bool;      (* isinstance(e, HTTPNotFound) (PredicateMismatch is a subclass) *)
  (* Router.handle_request *)
  p_notify_newrequest : M;        (* notify(NewRequest(request)) *)
  p_has_mapper : M;               (* truth value of `self.routes_mapper is not None` *)
  p_routes_mapper : M;            (* routes_mapper(request): info['route'], None (= 0) when no route matched *)
  p_root_factory : M;             (* self.root_factory(request) *)
  p_route_factory : M;            (* (route.factory or self.root_factory)(request) *)
  p_notify_beforetraversal : M;
  p_traverser : M;                (* traverser(request) *)
  p_notify_contextfound : M;
  p_call_view : M;                (* _call_view(registry, request, context, ..): the response, None = 0 *)
  p_exc_notfound : N;             (* the exception HTTPNotFound(..) *)
  (* ViewMethodsMixin.invoke_exception_view *)
  p_call_exception_view : N -> M; (* _call_view(.., view_classifier=IExceptionViewClassifier, ..) for exception k *)
}.
