(* traversal.split_path_info (src/pyramid/traversal.py): strip '/', split on
   '/', drop '' and '.', let '..' pop the previous segment (never above root). *)
From Coq Require Import List NArith Bool Lia.
Import ListNotations.
Require Import Verif.Lib.Wire Verif.Lib.Text.
Open Scope N_scope.

Definition slash : N := 47.
Definition dot : N := 46.

Definition is_dot (s : text) := text_eqb s [dot].
Definition is_dotdot (s : text) := text_eqb s [dot; dot].

(* clean is kept reversed *)
Definition spi_step (clean_rev : list text) (seg : text) : list text :=
  match seg with
  | [] => clean_rev
  | _ => if is_dot seg then clean_rev
         else if is_dotdot seg then tl clean_rev
         else seg :: clean_rev
  end.

Definition resolve (clean_rev : list text) (segs : list text) : list text :=
  fold_left spi_step segs clean_rev.

Definition split_path_info (p : text) : list text :=
  rev (resolve [] (split_on slash (strip_char slash p))).

Definition normal_seg (s : text) : Prop :=
  s <> [] /\ s <> [dot] /\ s <> [dot; dot] /\ ~ In slash s.

Definition normal_segb (s : text) : bool :=
  negb (text_eqb s []) && negb (is_dot s) && negb (is_dotdot s) && negb (memN slash s).

Lemma normal_segb_spec s : normal_segb s = true <-> normal_seg s.
Proof.
  unfold normal_segb, normal_seg, is_dot, is_dotdot.
  rewrite !andb_true_iff, !negb_true_iff, !text_eqb_neq.
  split.
  - intros [[[H1 H2] H3] H4]. repeat split; auto. intros Hin. apply memN_In in Hin. congruence.
  - intros (H1 & H2 & H3 & H4). repeat split; auto.
    destruct (memN slash s) eqn:E; [apply memN_In in E; contradiction|reflexivity].
Qed.

Lemma spi_step_normal acc seg :
  ~ In slash seg -> Forall normal_seg acc -> Forall normal_seg (spi_step acc seg).
Proof.
  intros Hns Hacc. unfold spi_step. destruct seg as [|x seg]; [assumption|].
  destruct (is_dot (x :: seg)) eqn:Hd; [assumption|].
  destruct (is_dotdot (x :: seg)) eqn:Hdd.
  - destruct acc; simpl; [constructor|inversion Hacc; assumption].
  - constructor; [|assumption]. unfold normal_seg. repeat split; try assumption.
    + discriminate.
    + intros E. unfold is_dot in Hd. rewrite E in Hd. simpl in Hd. discriminate.
    + intros E. unfold is_dotdot in Hdd. rewrite E in Hdd. simpl in Hdd. discriminate.
Qed.

Lemma resolve_normal segs acc :
  Forall (fun s => ~ In slash s) segs -> Forall normal_seg acc -> Forall normal_seg (resolve acc segs).
Proof.
  unfold resolve. revert acc. induction segs as [|s segs IH]; intros acc Hs Hacc; simpl; [assumption|].
  inversion Hs; subst. apply IH; [assumption|apply spi_step_normal; assumption].
Qed.

(* every output segment is non-empty, not '.', not '..' and slash-free: in
   particular '..' never survives, so nothing can climb above the root *)
Theorem spi_normal p : Forall normal_seg (split_path_info p).
Proof.
  unfold split_path_info. apply Forall_rev.
  apply resolve_normal; [apply split_on_no_sep|constructor].
Qed.

Lemma resolve_normal_id segs acc :
  Forall normal_seg segs -> resolve acc segs = rev segs ++ acc.
Proof.
  unfold resolve. revert acc. induction segs as [|s segs IH]; intros acc H; simpl; [reflexivity|].
  inversion H as [|? ? Hs Hr]; subst. rewrite IH by assumption.
  destruct Hs as (H1 & H2 & H3 & H4). unfold spi_step.
  destruct s as [|x s]; [congruence|].
  destruct (is_dot (x :: s)) eqn:Hd; [apply text_eqb_eq in Hd; congruence|].
  destruct (is_dotdot (x :: s)) eqn:Hdd; [apply text_eqb_eq in Hdd; congruence|].
  rewrite <- app_assoc. reflexivity.
Qed.

(* a path made of normal segments is returned unchanged *)
Lemma lstrip_nohead c s : (match s with x :: _ => x <> c | [] => True end) -> lstrip_char c s = s.
Proof. destruct s as [|x r]; simpl; [reflexivity|]. intros H. destruct (N.eqb_spec x c); [contradiction|reflexivity]. Qed.

Lemma join_normal_head segs :
  segs <> [] -> Forall normal_seg segs ->
  match join [slash] segs with x :: _ => x <> slash | [] => False end.
Proof.
  intros Hn Hf. destruct segs as [|s r]; [contradiction|].
  inversion Hf as [|? ? Hs _]; subst. destruct Hs as (H1 & _ & _ & H4).
  destruct s as [|x s]; [congruence|].
  destruct r; simpl; intros ->; apply H4; left; reflexivity.
Qed.

Lemma join_last_normal segs :
  segs <> [] -> Forall normal_seg segs ->
  match rev (join [slash] segs) with x :: _ => x <> slash | [] => False end.
Proof.
  induction segs as [|s r IH]; intros Hn Hf; [contradiction|].
  inversion Hf as [|? ? Hs Hr]; subst.
  destruct r as [|s2 r].
  - simpl. destruct Hs as (H1 & _ & _ & H4).
    destruct (rev s) as [|x t] eqn:E.
    + apply (f_equal (@rev N)) in E. rewrite rev_involutive in E. simpl in E. congruence.
    + intros ->. apply H4. apply in_rev. rewrite E. left. reflexivity.
  - change (join [slash] (s :: s2 :: r)) with (s ++ [slash] ++ join [slash] (s2 :: r)).
    rewrite !rev_app_distr.
    specialize (IH ltac:(discriminate) Hr).
    destruct (rev (join [slash] (s2 :: r))) as [|x t]; [contradiction|]. simpl. exact IH.
Qed.

Theorem spi_normal_id segs :
  Forall normal_seg segs -> split_path_info (join [slash] segs) = segs.
Proof.
  intros Hf. destruct segs as [|s r].
  - reflexivity.
  - unfold split_path_info, strip_char, rstrip_char.
    pose proof (join_normal_head (s :: r) ltac:(discriminate) Hf) as Hh.
    pose proof (join_last_normal (s :: r) ltac:(discriminate) Hf) as Hl.
    rewrite (lstrip_nohead slash (join [slash] (s :: r))).
    2:{ destruct (join [slash] (s :: r)); [contradiction|assumption]. }
    rewrite (lstrip_nohead slash (rev _)).
    2:{ destruct (rev (join [slash] (s :: r))); [contradiction|assumption]. }
    rewrite rev_involutive.
    rewrite split_join.
    + rewrite resolve_normal_id by assumption. rewrite app_nil_r. apply rev_involutive.
    + discriminate.
    + eapply Forall_impl; [|exact Hf]. intros a (_ & _ & _ & H). exact H.
Qed.

(* idempotence: normalising a normalised path changes nothing *)
Corollary spi_idempotent p :
  split_path_info (join [slash] (split_path_info p)) = split_path_info p.
Proof. apply spi_normal_id. apply spi_normal. Qed.
