(* Lemmas about Lib/C09Base.v: number formatting round trips, base64 round trip,
   unquote . quote on ASCII, small list facts. *)
From Coq Require Import List NArith ZArith Bool Lia ZifyBool ZifyN.
Import ListNotations.
Require Import Verif.Lib.Wire Verif.Lib.Text Verif.Lib.Percent Verif.Lib.Utf8 Verif.Lib.C09Base.
Ltac Zify.zify_post_hook ::= Z.div_mod_to_equations.
Open Scope N_scope.

(* ---------------------------------------------------------------- digits *)
Definition dstep (base : N) (x d : N) : N := x * base + d.

Fixpoint dl_acc (base : N) (fuel : nat) (n : N) (acc : list N) : list N :=
  match fuel with
  | O => acc
  | S f => let acc' := (n mod base) :: acc in
           if n / base =? 0 then acc' else dl_acc base f (n / base) acc'
  end.

Lemma digits_acc_dl base f : forall n acc,
  digits_acc base f n (map lhex acc) = map lhex (dl_acc base f n acc).
Proof.
  induction f as [|f IH]; intros n acc; simpl; [reflexivity|].
  destruct (n / base =? 0); [reflexivity|]. rewrite <- IH. reflexivity.
Qed.

Lemma dl_acc_value base f : 2 <= base -> forall n acc,
  n < base ^ N.of_nat f ->
  fold_left (dstep base) (dl_acc base f n acc) 0 = fold_left (dstep base) acc n.
Proof.
  intros Hb. induction f as [|f IH]; intros n acc Hn.
  - simpl in *. assert (n = 0) by lia. subst. reflexivity.
  - rewrite Nat2N.inj_succ, N.pow_succ_r' in Hn. cbn [dl_acc].
    destruct (N.eqb_spec (n / base) 0) as [E|E].
    + cbn [fold_left]. unfold dstep at 2. f_equal.
      apply N.div_small_iff in E; [|lia]. rewrite N.mod_small by assumption. reflexivity.
    + rewrite IH.
      * cbn [fold_left]. unfold dstep at 2. f_equal.
        rewrite (N.div_mod n base) at 3 by lia. rewrite (N.mul_comm base). reflexivity.
      * apply N.div_lt_upper_bound; lia.
Qed.

Lemma dl_acc_digits base f : 2 <= base -> forall n acc,
  Forall (fun d => d < base) acc -> Forall (fun d => d < base) (dl_acc base f n acc).
Proof.
  intros Hb. induction f as [|f IH]; intros n acc Ha; simpl; [assumption|].
  assert (Hm : n mod base < base) by (apply N.mod_lt; lia).
  destruct (n / base =? 0); [constructor; assumption|]. apply IH. constructor; assumption.
Qed.

Lemma dl_acc_length base f : 2 <= base -> forall k n acc,
  n < base ^ N.of_nat k -> (1 <= k)%nat ->
  (length (dl_acc base f n acc) <= k + length acc)%nat.
Proof.
  intros Hb. induction f as [|f IH]; intros k n acc Hn Hk; simpl; [lia|].
  destruct (N.eqb_spec (n / base) 0) as [E|E]; [simpl; lia|].
  destruct k as [|k]; [lia|]. rewrite Nat2N.inj_succ, N.pow_succ_r' in Hn.
  destruct k as [|k].
  - simpl in Hn. exfalso. apply E. apply N.div_small. lia.
  - specialize (IH (S k) (n / base) (n mod base :: acc)). simpl in IH. simpl.
    assert (n / base < base ^ N.of_nat (S k)) by (apply N.div_lt_upper_bound; lia).
    specialize (IH H). lia.
Qed.

Lemma dl_acc_keeps base f : forall n acc, acc <> [] -> dl_acc base f n acc <> [].
Proof.
  induction f as [|f IH]; intros n acc Ha; simpl; [assumption|].
  destruct (n / base =? 0); [discriminate|]. apply IH. discriminate.
Qed.

Lemma dl_acc_nonempty base f n acc : dl_acc base (S f) n acc <> [].
Proof.
  simpl. destruct (n / base =? 0); [discriminate|]. apply dl_acc_keeps. discriminate.
Qed.

Lemma size_nat_bound n : n < 2 ^ N.of_nat (N.size_nat n).
Proof.
  destruct n as [|p]; [reflexivity|]. simpl.
  induction p as [p IH|p IH|]; simpl Pos.size_nat; try rewrite Nat2N.inj_succ, N.pow_succ_r'; lia.
Qed.

Lemma fuel_enough base n : 2 <= base -> n < base ^ N.of_nat (S (N.size_nat n)).
Proof.
  intros Hb. pose proof (size_nat_bound n) as H.
  assert (2 ^ N.of_nat (N.size_nat n) <= base ^ N.of_nat (N.size_nat n)) by (apply N.pow_le_mono_l; lia).
  rewrite Nat2N.inj_succ, N.pow_succ_r'. nia.
Qed.

Definition dlist (base n : N) : list N := dl_acc base (S (N.size_nat n)) n [].

Lemma digits_of_dlist base n : digits_of base n = map lhex (dlist base n).
Proof. unfold digits_of, dlist. rewrite <- digits_acc_dl. reflexivity. Qed.

Lemma dlist_value base n : 2 <= base -> fold_left (dstep base) (dlist base n) 0 = n.
Proof. intros Hb. unfold dlist. rewrite dl_acc_value; auto. apply fuel_enough; auto. Qed.

Lemma dlist_digits base n : 2 <= base -> Forall (fun d => d < base) (dlist base n).
Proof. intros Hb. apply dl_acc_digits; auto. Qed.

Lemma dlist_nonempty base n : dlist base n <> [].
Proof. apply dl_acc_nonempty. Qed.

Lemma dlist_length base n k : 2 <= base -> n < base ^ N.of_nat k -> (1 <= k)%nat -> (length (dlist base n) <= k)%nat.
Proof.
  intros Hb Hn Hk. unfold dlist.
  pose proof (dl_acc_length base (S (N.size_nat n)) Hb k n [] Hn Hk). simpl in *. lia.
Qed.

(* ---------------------------------------------------------------- scanning what was printed *)
Lemma digit_val_lhex base d : base <= 16 -> d < base -> digit_val base (lhex d) = Some d.
Proof.
  intros Hb Hd. unfold digit_val, lhex. destruct (d <? 10) eqn:E.
  - assert (E1 : (48 <=? 48 + d) && (48 + d <=? 57) = true) by lia. rewrite E1.
    replace (48 + d - 48) with d by lia. assert (E2 : (d <? base) = true) by lia. rewrite E2. reflexivity.
  - assert (E1 : (48 <=? 87 + d) && (87 + d <=? 57) = false) by lia. rewrite E1.
    assert (E3 : (97 <=? 87 + d) && (87 + d <=? 122) = true) by lia. rewrite E3.
    replace (87 + d - 87) with d by lia. assert (E2 : (d <? base) = true) by lia. rewrite E2. reflexivity.
Qed.

Lemma lhex_range d : d < 16 -> (48 <= lhex d <= 57) \/ (97 <= lhex d <= 102).
Proof. intros Hd. unfold lhex. destruct (d <? 10) eqn:E; lia. Qed.

Lemma scan_lhex base ds : base <= 16 -> Forall (fun d => d < base) ds -> forall a,
  scan_digits base (map lhex ds) a false = Some (fold_left (dstep base) ds a, []).
Proof.
  intros Hb Hf. induction Hf as [|d ds Hd _ IH]; intros a; [reflexivity|].
  cbn [map scan_digits]. pose proof (lhex_range d ltac:(lia)) as R.
  assert (E : (lhex d =? 95) = false) by lia. rewrite E.
  rewrite digit_val_lhex by assumption. rewrite IH. reflexivity.
Qed.

Lemma sign_skip c r : c <> 43 -> c <> 45 -> strip_sign (c :: r) = (false, c :: r).
Proof.
  intros H1 H2. unfold strip_sign. destruct c as [|p]; [reflexivity|].
  do 7 (try destruct p as [p|p|]; try reflexivity); contradiction.
Qed.

Lemma prefix_skip base c x r : x <> 120 -> x <> 88 -> strip_0x base (c :: x :: r) = c :: x :: r.
Proof.
  intros H1 H2. assert (X : (x =? 120) || (x =? 88) = false) by lia.
  unfold strip_0x. destruct (base =? 16); [|reflexivity].
  destruct c as [|p]; [reflexivity|].
  do 7 (try destruct p as [p|p|]; try reflexivity). rewrite X. reflexivity.
Qed.

Lemma prefix_skip1 base c : strip_0x base [c] = [c].
Proof.
  unfold strip_0x. destruct (base =? 16); [|reflexivity].
  destruct c as [|p]; [reflexivity|]. do 7 (try destruct p as [p|p|]; try reflexivity).
Qed.

(* int(s, base) of lower-case digits (leading zeros allowed) is their value *)
Lemma int_body_digits base neg ds :
  (base = 10 \/ base = 16) -> ds <> [] -> Forall (fun d => d < base) ds ->
  int_body base neg (map lhex ds)
  = Some (if neg then Z.opp (Z.of_N (fold_left (dstep base) ds 0)) else Z.of_N (fold_left (dstep base) ds 0)).
Proof.
  intros Hb Hne Hf. assert (Hb16 : base <= 16) by lia.
  assert (Hall : Forall (fun d => d < 16) ds) by (eapply Forall_impl; [|exact Hf]; simpl; intros; lia).
  unfold int_body. destruct ds as [|d ds]; [contradiction|]. clear Hne.
  inversion Hf as [|? ? Hd Hds]; subst. inversion Hall as [|? ? Hd16 Hds16]; subst.
  assert (Hp : strip_0x base (map lhex (d :: ds)) = map lhex (d :: ds)).
  { destruct ds as [|d2 ds2]; cbn [map]; [apply prefix_skip1|].
    inversion Hds16 as [|? ? Hd2 _]; subst. pose proof (lhex_range d2 Hd2) as R2.
    apply prefix_skip; lia. }
  rewrite Hp. cbn [map]. unfold is_digit. rewrite digit_val_lhex by assumption. cbn [negb].
  change (lhex d :: map lhex ds) with (map lhex (d :: ds)). rewrite scan_lhex by assumption.
  reflexivity.
Qed.

Lemma to_ascii_lhex tr ds : Forall (fun d => d < 16) ds -> map (to_ascii tr) (map lhex ds) = map lhex ds.
Proof.
  intros Hall. rewrite map_map. apply map_ext_in. intros d Hd. rewrite Forall_forall in Hall.
  pose proof (lhex_range d (Hall d Hd)). unfold to_ascii. assert (E : (lhex d <? 127) = true) by lia.
  rewrite E. reflexivity.
Qed.

Lemma py_int_digits tr base ds :
  (base = 10 \/ base = 16) -> ds <> [] -> Forall (fun d => d < base) ds ->
  py_int tr base (map lhex ds) = Some (Z.of_N (fold_left (dstep base) ds 0)).
Proof.
  intros Hb Hne Hf.
  assert (Hall : Forall (fun d => d < 16) ds) by (eapply Forall_impl; [|exact Hf]; simpl; intros; lia).
  unfold py_int. rewrite to_ascii_lhex by assumption.
  destruct ds as [|d ds]; [contradiction|]. inversion Hall as [|? ? Hd16 _]; subst.
  pose proof (lhex_range d Hd16) as R.
  cbn [map skip_ws]. assert (W : is_ws (lhex d) = false) by (unfold is_ws; lia). rewrite W.
  rewrite sign_skip by lia. change (lhex d :: map lhex ds) with (map lhex (d :: ds)).
  rewrite int_body_digits; auto.
Qed.

Lemma py_int_neg_digits tr base ds :
  (base = 10 \/ base = 16) -> ds <> [] -> Forall (fun d => d < base) ds ->
  py_int tr base (45 :: map lhex ds) = Some (Z.opp (Z.of_N (fold_left (dstep base) ds 0))).
Proof.
  intros Hb Hne Hf.
  assert (Hall : Forall (fun d => d < 16) ds) by (eapply Forall_impl; [|exact Hf]; simpl; intros; lia).
  unfold py_int. cbn [map]. rewrite to_ascii_lhex by assumption.
  change (to_ascii tr 45) with 45. cbn [skip_ws]. change (is_ws 45) with false. cbv iota.
  change (strip_sign (45 :: map lhex ds)) with (true, map lhex ds). cbv beta iota zeta.
  rewrite int_body_digits; auto.
Qed.

Lemma py_int_digits_of tr base n : (base = 10 \/ base = 16) -> py_int tr base (digits_of base n) = Some (Z.of_N n).
Proof.
  intros Hb. rewrite digits_of_dlist. rewrite py_int_digits; auto.
  - rewrite dlist_value by lia. reflexivity.
  - apply dlist_nonempty.
  - apply dlist_digits. lia.
Qed.

Lemma py_int_dec_of_Z tr z : py_int tr 10 (dec_of_Z z) = Some z.
Proof.
  destruct z as [|p|p]; unfold dec_of_Z, dec_of_N.
  - rewrite py_int_digits_of by auto. reflexivity.
  - rewrite py_int_digits_of by auto. simpl. reflexivity.
  - rewrite digits_of_dlist, py_int_neg_digits; auto.
    + rewrite dlist_value by lia. reflexivity.
    + apply dlist_nonempty.
    + apply dlist_digits. lia.
Qed.

Lemma dec_of_Z_ascii z : is_ascii (dec_of_Z z) = true.
Proof.
  assert (A : forall n, is_ascii (dec_of_N n) = true).
  { intros n. unfold dec_of_N. rewrite digits_of_dlist. unfold is_ascii. apply forallb_forall.
    intros c Hc. apply in_map_iff in Hc as (d & <- & Hd).
    pose proof (dlist_digits 10 n ltac:(lia)) as F. rewrite Forall_forall in F. specialize (F d Hd).
    pose proof (lhex_range d ltac:(lia)). lia. }
  destruct z as [|p|p]; unfold dec_of_Z; try apply A; simpl; apply A.
Qed.

Lemma hex_pad_length w n : n < 16 ^ N.of_nat w -> (1 <= w)%nat -> length (hex_pad w n) = w.
Proof.
  intros Hn Hw. unfold hex_pad. rewrite app_length, repeat_length, digits_of_dlist, map_length.
  pose proof (dlist_length 16 n w ltac:(lia) Hn Hw). lia.
Qed.

Lemma py_int_hex_pad tr w n : py_int tr 16 (hex_pad w n) = Some (Z.of_N n).
Proof.
  unfold hex_pad. rewrite digits_of_dlist.
  replace (repeat 48 (w - length (map lhex (dlist 16 n))) ++ map lhex (dlist 16 n))
    with (map lhex (repeat 0 (w - length (map lhex (dlist 16 n))) ++ dlist 16 n)).
  2:{ rewrite map_app. f_equal. generalize (w - length (map lhex (dlist 16 n)))%nat. intros k.
      induction k; simpl; [reflexivity|]. rewrite IHk. reflexivity. }
  rewrite py_int_digits; auto.
  - rewrite fold_left_app.
    assert (Z0 : forall k, fold_left (dstep 16) (repeat 0 k) 0 = 0).
    { induction k; simpl; auto. }
    rewrite Z0, dlist_value by lia. reflexivity.
  - intros E. apply app_eq_nil in E. destruct E as [_ E]. revert E. apply dlist_nonempty.
  - apply Forall_app. split; [|apply dlist_digits; lia].
    apply Forall_forall. intros x Hx. apply repeat_spec in Hx. lia.
Qed.

(* ---------------------------------------------------------------- small list facts *)
Lemma split1_app c a b : ~ In c a -> split1 c (a ++ c :: b) = Some (a, b).
Proof.
  induction a as [|x a IH]; simpl; intros H.
  - rewrite N.eqb_refl. reflexivity.
  - destruct (N.eqb_spec x c) as [->|Hne]; [exfalso; auto|]. rewrite IH by tauto. reflexivity.
Qed.

Lemma split1_none c a : ~ In c a -> split1 c a = None.
Proof.
  induction a as [|x a IH]; simpl; intros H; [reflexivity|].
  destruct (N.eqb_spec x c) as [->|Hne]; [exfalso; auto|]. rewrite IH by tauto. reflexivity.
Qed.

Lemma lstrip_head c x s : x <> c -> lstrip_char c (x :: s) = x :: s.
Proof. intros H. simpl. destruct (N.eqb_spec x c); [contradiction|reflexivity]. Qed.

Lemma strip_ends c x s y : x <> c -> y <> c -> strip_char c (x :: s ++ [y]) = x :: s ++ [y].
Proof.
  intros Hx Hy. unfold strip_char, rstrip_char. rewrite lstrip_head by assumption.
  assert (E : rev (x :: s ++ [y]) = y :: rev (x :: s)).
  { change (x :: s ++ [y]) with ((x :: s) ++ [y]). rewrite rev_app_distr. reflexivity. }
  rewrite E, lstrip_head by assumption. rewrite <- E. apply rev_involutive.
Qed.

Lemma firstn_app_exact {A} (a b : list A) n : length a = n -> firstn n (a ++ b) = a.
Proof. intros <-. rewrite firstn_app, Nat.sub_diag, firstn_all. simpl. apply app_nil_r. Qed.

Lemma skipn_app_exact {A} (a b : list A) n : length a = n -> skipn n (a ++ b) = b.
Proof. intros <-. rewrite skipn_app, Nat.sub_diag, skipn_all. reflexivity. Qed.

(* ---------------------------------------------------------------- unquote . quote on ASCII *)
Lemma decode_replace_ascii s : is_ascii s = true -> decode_replace s = s.
Proof.
  induction s as [|c s IH]; simpl; intros H; [reflexivity|].
  apply andb_true_iff in H as [Hc Hs]. rewrite Hc, IH by assumption. reflexivity.
Qed.

Lemma unquote_go_ascii s : is_ascii s = true -> forall run,
  unquote_go s run = flush_run (rev s ++ run).
Proof.
  induction s as [|c s IH]; simpl; intros H run; [reflexivity|].
  apply andb_true_iff in H as [Hc Hs]. rewrite Hc, IH by assumption.
  rewrite <- app_assoc. reflexivity.
Qed.

Lemma encode_ascii s : is_ascii s = true -> encode s = s.
Proof.
  induction s as [|c s IH]; simpl; intros H; [reflexivity|].
  apply andb_true_iff in H as [Hc Hs]. unfold encode in *. simpl. unfold encode1 at 1. rewrite Hc.
  simpl. rewrite IH by assumption. reflexivity.
Qed.

Lemma ascii_bytes s : is_ascii s = true -> Forall (fun b => b < 256) s.
Proof.
  intros H. apply Forall_forall. intros x Hx. unfold is_ascii in H. rewrite forallb_forall in H.
  specialize (H x Hx). lia.
Qed.

Lemma is_safe_ascii safe c : is_ascii safe = true -> is_safe safe c = true -> c < 128.
Proof.
  intros Hs H. unfold is_safe in H. apply orb_true_iff in H as [H|H].
  - unfold always_safe, is_alnum in H. lia.
  - apply memN_In in H. unfold is_ascii in Hs. rewrite forallb_forall in Hs. specialize (Hs c H). lia.
Qed.

Lemma quote_ascii safe bs : is_ascii safe = true -> Forall (fun b => b < 256) bs -> is_ascii (quote safe bs) = true.
Proof.
  intros Hs Hb. unfold is_ascii. apply forallb_forall. intros c Hc.
  destruct (quote_charset safe bs c Hb Hc) as [->|[H|H]]; [reflexivity| |].
  - unfold is_hex_upper in H. lia.
  - pose proof (is_safe_ascii safe c Hs H). lia.
Qed.

Theorem unquote_quote_str safe s :
  is_ascii safe = true -> is_safe safe 37 = false -> is_ascii s = true ->
  unquote_str (quote_str safe s) = s.
Proof.
  intros Hsafe H37 Hs. unfold unquote_str, quote_str. rewrite encode_ascii by assumption.
  pose proof (ascii_bytes s Hs) as Hb.
  rewrite unquote_go_ascii by (apply quote_ascii; assumption).
  rewrite app_nil_r. unfold flush_run.
  destruct (rev (quote safe s)) eqn:E.
  - assert (Q : quote safe s = []) by (rewrite <- (rev_involutive (quote safe s)), E; reflexivity).
    destruct s as [|c s]; [reflexivity|]. exfalso. unfold quote in Q. simpl in Q. unfold quote1 in Q.
    destruct (is_safe safe c); discriminate.
  - rewrite <- E, rev_involutive, unquote_quote by assumption. apply decode_replace_ascii. assumption.
Qed.

(* ---------------------------------------------------------------- base64 round trip *)
Lemma b64val_char v : v < 64 -> b64val (b64char v) = Some v /\ (b64char v =? 61) = false /\ b64char v < 128.
Proof.
  intros Hv. unfold b64char.
  destruct (v <? 26) eqn:E1; [unfold b64val|destruct (v <? 52) eqn:E2; [unfold b64val|destruct (v <? 62) eqn:E3; [unfold b64val|]]].
  - assert (A : (65 <=? 65 + v) && (65 + v <=? 90) = true) by lia. rewrite A. repeat split; try lia. f_equal. lia.
  - assert (A : (65 <=? 71 + v) && (71 + v <=? 90) = false) by lia. rewrite A.
    assert (B : (97 <=? 71 + v) && (71 + v <=? 122) = true) by lia. rewrite B. repeat split; try lia. f_equal. lia.
  - assert (A : (65 <=? v - 4) && (v - 4 <=? 90) = false) by lia. rewrite A.
    assert (B : (97 <=? v - 4) && (v - 4 <=? 122) = false) by lia. rewrite B.
    assert (C : (48 <=? v - 4) && (v - 4 <=? 57) = true) by lia. rewrite C. repeat split; try lia. f_equal. lia.
  - assert (V : v = 62 \/ v = 63) by lia. destruct V as [->| ->]; repeat split; reflexivity.
Qed.

Lemma b64dec_char c r qp left pads v :
  (c =? 61) = false -> b64val c = Some v ->
  b64dec (c :: r) qp left pads =
  if qp =? 0 then b64dec r 1 v 0
  else if qp =? 1 then option_map (cons (left * 4 + v / 16)) (b64dec r 2 (v mod 16) 0)
  else if qp =? 2 then option_map (cons (left * 16 + v / 4)) (b64dec r 3 (v mod 4) 0)
  else option_map (cons (left * 64 + v)) (b64dec r 0 0 0).
Proof. intros E1 E2. cbn [b64dec]. rewrite E1, E2. reflexivity. Qed.

Lemma b64dec_pad r qp left pads :
  b64dec (61 :: r) qp left pads =
  if 2 <=? qp then (if 4 <=? qp + (pads + 1) then Some [] else b64dec r qp left (pads + 1))
  else b64dec r qp left pads.
Proof. reflexivity. Qed.

Lemma b64dec_v v r qp left pads : v < 64 ->
  b64dec (b64char v :: r) qp left pads =
  if qp =? 0 then b64dec r 1 v 0
  else if qp =? 1 then option_map (cons (left * 4 + v / 16)) (b64dec r 2 (v mod 16) 0)
  else if qp =? 2 then option_map (cons (left * 16 + v / 4)) (b64dec r 3 (v mod 4) 0)
  else option_map (cons (left * 64 + v)) (b64dec r 0 0 0).
Proof. intros Hv. destruct (b64val_char v Hv) as (A & B & _). apply b64dec_char; assumption. Qed.

Lemma b64_three_ways bs :
  (Forall (fun b => b < 256) bs -> b64decode (b64encode bs) = Some bs)
  /\ (forall a, Forall (fun b => b < 256) (a :: bs) -> b64decode (b64encode (a :: bs)) = Some (a :: bs))
  /\ (forall a b, Forall (fun b => b < 256) (a :: b :: bs) -> b64decode (b64encode (a :: b :: bs)) = Some (a :: b :: bs)).
Proof.
  unfold b64decode. induction bs as [|c bs (IH0 & IH1 & IH2)].
  - split; [reflexivity|]. split.
    + intros a Ha. inversion Ha as [|? ? A _]; subst. cbn [b64encode].
      rewrite b64dec_v by lia. change (0 =? 0) with true. cbv iota.
      rewrite b64dec_v by lia. change (1 =? 0) with false. change (1 =? 1) with true. cbv iota.
      rewrite b64dec_pad. change (2 <=? 2) with true. change (4 <=? 2 + (0 + 1)) with false. cbv iota.
      rewrite b64dec_pad. change (2 <=? 2) with true. change (4 <=? 2 + (0 + 1 + 1)) with true. cbv iota.
      cbn [option_map]. f_equal. f_equal. lia.
    + intros a b Ha. inversion Ha as [|? ? A Hb]; subst. inversion Hb as [|? ? B _]; subst. cbn [b64encode].
      rewrite b64dec_v by lia. change (0 =? 0) with true. cbv iota.
      rewrite b64dec_v by lia. change (1 =? 0) with false. change (1 =? 1) with true. cbv iota.
      rewrite b64dec_v by lia. change (2 =? 0) with false. change (2 =? 1) with false. change (2 =? 2) with true. cbv iota.
      rewrite b64dec_pad. change (2 <=? 3) with true. change (4 <=? 3 + (0 + 1)) with true. cbv iota.
      cbn [option_map]. f_equal. f_equal; [lia|]. f_equal. lia.
  - split; [intros Hf; apply IH1; exact Hf|]. split; [intros a Hf; apply IH2; exact Hf|].
    intros a b Ha. inversion Ha as [|? ? A Hb]; subst. inversion Hb as [|? ? B Hc]; subst.
    inversion Hc as [|? ? C Hbs]; subst.
    change (b64encode (a :: b :: c :: bs)) with
      (b64char (a / 4) :: b64char ((a mod 4) * 16 + b / 16) :: b64char ((b mod 16) * 4 + c / 64)
         :: b64char (c mod 64) :: b64encode bs).
    rewrite b64dec_v by lia. change (0 =? 0) with true. cbv iota.
    rewrite b64dec_v by lia. change (1 =? 0) with false. change (1 =? 1) with true. cbv iota.
    rewrite b64dec_v by lia. change (2 =? 0) with false. change (2 =? 1) with false. change (2 =? 2) with true. cbv iota.
    rewrite b64dec_v by lia. change (3 =? 0) with false. change (3 =? 1) with false. change (3 =? 2) with false. cbv iota.
    rewrite (IH0 Hbs). cbn [option_map]. f_equal. f_equal; [lia|]. f_equal; [lia|]. f_equal. lia.
Qed.

Theorem b64decode_encode bs : Forall (fun b => b < 256) bs -> b64decode (b64encode bs) = Some bs.
Proof. apply b64_three_ways. Qed.

Lemma b64encode_ascii_three bs :
  (Forall (fun b => b < 256) bs -> is_ascii (b64encode bs) = true)
  /\ (forall a, Forall (fun b => b < 256) (a :: bs) -> is_ascii (b64encode (a :: bs)) = true)
  /\ (forall a b, Forall (fun b => b < 256) (a :: b :: bs) -> is_ascii (b64encode (a :: b :: bs)) = true).
Proof.
  assert (K : forall v, v < 64 -> (b64char v <? 128) = true).
  { intros v Hv. destruct (b64val_char v Hv) as (_ & _ & L). lia. }
  induction bs as [|c bs (IH0 & IH1 & IH2)].
  - split; [reflexivity|]. split.
    + intros a Ha. inversion Ha as [|? ? A _]; subst. cbn [b64encode is_ascii forallb].
      rewrite !K by lia. reflexivity.
    + intros a b Ha. inversion Ha as [|? ? A Hb]; subst. inversion Hb as [|? ? B _]; subst.
      cbn [b64encode is_ascii forallb]. rewrite !K by lia. reflexivity.
  - split; [intros Hf; apply IH1; exact Hf|]. split; [intros a Hf; apply IH2; exact Hf|].
    intros a b Ha. inversion Ha as [|? ? A Hb]; subst. inversion Hb as [|? ? B Hc]; subst.
    inversion Hc as [|? ? C Hbs]; subst.
    change (b64encode (a :: b :: c :: bs)) with
      (b64char (a / 4) :: b64char ((a mod 4) * 16 + b / 16) :: b64char ((b mod 16) * 4 + c / 64)
         :: b64char (c mod 64) :: b64encode bs).
    unfold is_ascii in *. cbn [forallb]. rewrite !K by lia. rewrite (IH0 Hbs). reflexivity.
Qed.

Lemma b64encode_ascii bs : Forall (fun b => b < 256) bs -> is_ascii (b64encode bs) = true.
Proof. apply b64encode_ascii_three. Qed.
