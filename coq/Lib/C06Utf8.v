(* Strict UTF-8 decoding only yields Unicode scalar values (no surrogates, nothing above U+10FFFF). *)
From Coq Require Import List NArith ZArith Bool Lia ZifyBool ZifyN.
Require Import Verif.Lib.Wire Verif.Lib.Utf8.
Import ListNotations.
Ltac Zify.zify_post_hook ::= Z.div_mod_to_equations.
Open Scope N_scope.

Lemma decode_valid_n (n : nat) : forall bs t,
  (length bs <= n)%nat -> decode bs = Some t -> forallb valid_scalar t = true.
Proof.
  induction n as [|n IH]; intros bs t Hl H.
  - destruct bs; [inversion H; reflexivity|simpl in Hl; lia].
  - destruct bs as [|b0 r0]; [inversion H; reflexivity|]. cbn [decode] in H. cbn [length] in Hl.
    destruct (b0 <? 128) eqn:E0.
    { destruct (decode r0) as [t0|] eqn:Ed; [|discriminate]. cbn [option_map] in H. inversion H; subst t.
      cbn [forallb]. rewrite (IH r0 t0) by (auto; lia). unfold valid_scalar. lia. }
    destruct (inr 194 223 b0) eqn:E1.
    { destruct r0 as [|b1 r1]; [discriminate|]. destruct (cont b1) eqn:Ec; [|discriminate].
      destruct (decode r1) as [t0|] eqn:Ed; [|discriminate]. cbn [option_map] in H. inversion H; subst t.
      cbn [forallb]. cbn [length] in Hl. rewrite (IH r1 t0) by (auto; lia).
      unfold valid_scalar, inr, cont in *. lia. }
    destruct (inr 224 239 b0) eqn:E2.
    { destruct r0 as [|b1 [|b2 r2]]; try discriminate.
      destruct (inr (if b0 =? 224 then 160 else 128) (if b0 =? 237 then 159 else 191) b1 && cont b2) eqn:Ec; [|discriminate].
      destruct (decode r2) as [t0|] eqn:Ed; [|discriminate]. cbn [option_map] in H. inversion H; subst t.
      cbn [forallb]. cbn [length] in Hl. rewrite (IH r2 t0) by (auto; lia).
      unfold valid_scalar, inr, cont in *.
      destruct (b0 =? 224) eqn:Ea; destruct (b0 =? 237) eqn:Eb; lia. }
    destruct (inr 240 244 b0) eqn:E3; [|discriminate].
    destruct r0 as [|b1 [|b2 [|b3 r3]]]; try discriminate.
    destruct (inr (if b0 =? 240 then 144 else 128) (if b0 =? 244 then 143 else 191) b1 && cont b2 && cont b3) eqn:Ec; [|discriminate].
    destruct (decode r3) as [t0|] eqn:Ed; [|discriminate]. cbn [option_map] in H. inversion H; subst t.
    cbn [forallb]. cbn [length] in Hl. rewrite (IH r3 t0) by (auto; lia).
    unfold valid_scalar, inr, cont in *.
    destruct (b0 =? 240) eqn:Ea; destruct (b0 =? 244) eqn:Eb; lia.
Qed.

Theorem decode_valid bs t : decode bs = Some t -> forallb valid_scalar t = true.
Proof. apply (decode_valid_n (length bs)). apply le_n. Qed.
