(* urllib.parse.quote (bytes input) / unquote_to_bytes on byte lists.
   [always_safe] is CPython's _ALWAYS_SAFE (letters, digits, "_.-~"): a stdlib
   fact, validated by the correspondence runs over all 256 bytes. *)
From Coq Require Import List NArith ZArith Bool Lia ZifyBool ZifyN.
Import ListNotations.
Require Import Verif.Lib.Wire.
Ltac Zify.zify_post_hook ::= Z.div_mod_to_equations.
Open Scope N_scope.

Definition is_alnum (b : N) : bool :=
  ((48 <=? b) && (b <=? 57)) || ((65 <=? b) && (b <=? 90)) || ((97 <=? b) && (b <=? 122)).
Definition always_safe (b : N) : bool :=
  is_alnum b || (b =? 95) || (b =? 46) || (b =? 45) || (b =? 126).
Definition is_safe (safe : list N) (b : N) : bool := always_safe b || memN b safe.

Definition hexdigit (n : N) : N := if n <? 10 then 48 + n else 55 + n.   (* upper case *)
Definition hexval (c : N) : option N :=
  if (48 <=? c) && (c <=? 57) then Some (c - 48)
  else if (65 <=? c) && (c <=? 70) then Some (c - 55)
  else if (97 <=? c) && (c <=? 102) then Some (c - 87)
  else None.

Definition quote1 (safe : list N) (b : N) : list N :=
  if is_safe safe b then [b] else [37; hexdigit (b / 16); hexdigit (b mod 16)].
Definition quote (safe : list N) (bs : list N) : list N := flat_map (quote1 safe) bs.

(* lenient: a '%' not followed by two hex digits stays literal *)
Fixpoint unquote (s : list N) : list N :=
  match s with
  | [] => []
  | c :: r =>
      if c =? 37 then
        match r with
        | h :: l :: r2 =>
            match hexval h, hexval l with
            | Some a, Some b => (a * 16 + b) :: unquote r2
            | _, _ => c :: unquote r
            end
        | _ => c :: unquote r
        end
      else c :: unquote r
  end.

Lemma hexval_hexdigit n : n < 16 -> hexval (hexdigit n) = Some n.
Proof.
  intros H. unfold hexval, hexdigit.
  destruct (n <? 10) eqn:E.
  - assert (E1 : (48 <=? 48 + n) && (48 + n <=? 57) = true) by lia. rewrite E1. f_equal. lia.
  - assert (E1 : (48 <=? 55 + n) && (55 + n <=? 57) = false) by lia. rewrite E1.
    assert (E2 : (65 <=? 55 + n) && (55 + n <=? 70) = true) by lia. rewrite E2. f_equal. lia.
Qed.

Lemma unquote_quote1 safe b rest :
  b < 256 -> is_safe safe 37 = false ->
  unquote (quote1 safe b ++ rest) = b :: unquote rest.
Proof.
  intros Hb H37. unfold quote1. destruct (is_safe safe b) eqn:E.
  - simpl. destruct (N.eqb_spec b 37) as [->|Hne]; [congruence|reflexivity].
  - cbn [app unquote]. rewrite N.eqb_refl.
    rewrite !hexval_hexdigit by lia. f_equal. lia.
Qed.

(* decoding a quoted byte string gives the bytes back, whatever the safe set,
   as long as '%' itself is not declared safe *)
Theorem unquote_quote safe bs :
  Forall (fun b => b < 256) bs -> is_safe safe 37 = false ->
  unquote (quote safe bs) = bs.
Proof.
  intros Hf H37. induction Hf as [|b r Hb _ IH]; [reflexivity|].
  unfold quote. simpl flat_map. rewrite unquote_quote1 by assumption.
  fold (quote safe r). rewrite IH. reflexivity.
Qed.

Lemma quote_app safe a b : quote safe (a ++ b) = quote safe a ++ quote safe b.
Proof. unfold quote. apply flat_map_app. Qed.

Definition is_hex_upper (c : N) : bool := ((48 <=? c) && (c <=? 57)) || ((65 <=? c) && (c <=? 70)).

Lemma hexdigit_is_hex n : n < 16 -> is_hex_upper (hexdigit n) = true.
Proof. intros H. unfold is_hex_upper, hexdigit. destruct (n <? 10) eqn:E; lia. Qed.

(* every output character is '%', an upper-case hex digit, or a safe byte *)
Theorem quote_charset safe bs c :
  Forall (fun b => b < 256) bs -> In c (quote safe bs) ->
  c = 37 \/ is_hex_upper c = true \/ is_safe safe c = true.
Proof.
  intros Hf. unfold quote. rewrite in_flat_map. intros (b & Hb & Hc).
  rewrite Forall_forall in Hf. specialize (Hf b Hb).
  unfold quote1 in Hc. destruct (is_safe safe b) eqn:E.
  - destruct Hc as [<-|[]]. auto.
  - destruct Hc as [<-|[<-|[<-|[]]]]; [auto| |]; right; left; apply hexdigit_is_hex; lia.
Qed.

(* a byte that is not safe never appears raw in the output (unless it is '%' or a hex digit) *)
Corollary quote_no_char safe bs c :
  Forall (fun b => b < 256) bs -> is_safe safe c = false -> c <> 37 -> is_hex_upper c = false ->
  ~ In c (quote safe bs).
Proof.
  intros Hf H1 H2 H3 Hin. destruct (quote_charset safe bs c Hf Hin) as [H|[H|H]]; congruence.
Qed.
