(* Stable insertion sort by a boolean "less or equal" test (= Python's
   sorted / list.sort with a key whose comparison is [leb]), groupby on
   consecutive equal keys (= itertools.groupby), and the lemmas C04 needs:
   sort_perm, sort_sorted, sort_stable, uniqueness of a sorted permutation. *)
From Coq Require Import List Bool ZArith NArith Lia Permutation Sorted.
Import ListNotations.

Section Sort.
  Context {A : Type}.
  Variable leb : A -> A -> bool.

  (* x goes in front of the first y with x <= y : equal keys keep input order *)
  Fixpoint insert (x : A) (l : list A) : list A :=
    match l with
    | [] => [x]
    | y :: r => if leb x y then x :: y :: r else y :: insert x r
    end.

  Fixpoint sort (l : list A) : list A :=
    match l with
    | [] => []
    | x :: r => insert x (sort r)
    end.

  Lemma insert_perm x l : Permutation (insert x l) (x :: l).
  Proof.
    induction l as [|y r IH]; simpl; [reflexivity|].
    destruct (leb x y); [reflexivity|].
    rewrite IH. apply perm_swap.
  Qed.

  Lemma sort_perm l : Permutation (sort l) l.
  Proof.
    induction l as [|x r IH]; simpl; [reflexivity|].
    rewrite insert_perm. constructor. exact IH.
  Qed.

  Lemma sort_In x l : In x (sort l) <-> In x l.
  Proof.
    split; apply Permutation_in; [apply sort_perm | symmetry; apply sort_perm].
  Qed.

  Lemma sort_length l : length (sort l) = length l.
  Proof. apply Permutation_length, sort_perm. Qed.

  Lemma sort_nil l : sort l = [] <-> l = [].
  Proof.
    split; intros H.
    - destruct l; [reflexivity|]. apply (f_equal (@length A)) in H. rewrite sort_length in H. discriminate.
    - subst. reflexivity.
  Qed.

  Hypothesis leb_total : forall x y, leb x y = true \/ leb y x = true.
  Hypothesis leb_trans : forall x y z, leb x y = true -> leb y z = true -> leb x z = true.

  Definition le (x y : A) : Prop := leb x y = true.

  Lemma insert_sorted x l : StronglySorted le l -> StronglySorted le (insert x l).
  Proof.
    induction 1 as [|y r Hs IH Hall]; simpl; [repeat constructor|].
    destruct (leb x y) eqn:E.
    - constructor; [constructor; assumption|].
      constructor; [exact E|].
      eapply Forall_impl; [|exact Hall]. intros z Hz. eapply leb_trans; eassumption.
    - constructor; [exact IH|].
      assert (Hyx : le y x) by (destruct (leb_total x y) as [H|H]; [congruence|exact H]).
      rewrite Forall_forall. intros z Hz.
      apply (Permutation_in _ (insert_perm x r)) in Hz. destruct Hz as [<-|Hz]; [exact Hyx|].
      rewrite Forall_forall in Hall. auto.
  Qed.

  Lemma sort_sorted l : StronglySorted le (sort l).
  Proof. induction l as [|x r IH]; simpl; [constructor|]. apply insert_sorted, IH. Qed.

  (* the head of a sorted list is below every element of the input *)
  Lemma sort_head_min l h t : sort l = h :: t -> forall x, In x l -> le h x.
  Proof.
    intros E x Hx. pose proof (sort_sorted l) as S. rewrite E in S.
    apply sort_In in Hx. rewrite E in Hx. inversion S as [|? ? _ Hall]; subst.
    destruct Hx as [<-|Hx].
    - destruct (leb_total h h); assumption.
    - rewrite Forall_forall in Hall. auto.
  Qed.
End Sort.

(* ---- stability: elements selected by any predicate compatible with the
   order's equivalence keep their relative input order *)
Section Stable.
  Context {A : Type}.
  Variable leb : A -> A -> bool.

  Lemma insert_filter_in (p : A -> bool) x l :
    p x = true ->
    (forall y, In y l -> p y = true -> leb x y = true) ->
    filter p (insert leb x l) = x :: filter p l.
  Proof.
    intros Hx H. induction l as [|y r IH]; simpl; [rewrite Hx; reflexivity|].
    destruct (leb x y) eqn:E.
    - simpl. rewrite Hx. reflexivity.
    - simpl. destruct (p y) eqn:Py.
      + specialize (H y (or_introl eq_refl) Py). congruence.
      + apply IH. intros z Hz. apply H. right. exact Hz.
  Qed.

  Lemma insert_filter_out (p : A -> bool) x l :
    p x = false -> filter p (insert leb x l) = filter p l.
  Proof.
    intros Hx. induction l as [|y r IH]; simpl; [rewrite Hx; reflexivity|].
    destruct (leb x y); simpl; [rewrite Hx; reflexivity|]. rewrite IH. reflexivity.
  Qed.

  (* p selects one equivalence class of the order: any two selected elements are
     mutually <= .  Then sorting keeps the selected elements in input order. *)
  Theorem sort_stable (p : A -> bool) l :
    (forall x y, p x = true -> p y = true -> leb x y = true) ->
    filter p (sort leb l) = filter p l.
  Proof.
    intros Hp. induction l as [|x r IH]; simpl; [reflexivity|].
    destruct (p x) eqn:Px.
    - rewrite insert_filter_in; [rewrite IH; reflexivity|exact Px|].
      intros y _ Py. apply Hp; assumption.
    - rewrite insert_filter_out by assumption. exact IH.
  Qed.
End Stable.

(* ---- a sorted permutation is unique when keys are injective on the list *)
Section Unique.
  Context {A : Type}.
  Variable key : A -> N.

  Definition key_le (x y : A) : Prop := (key x <= key y)%N.

  Lemma sorted_perm_unique l1 l2 :
    NoDup (map key l1) ->
    StronglySorted key_le l1 -> StronglySorted key_le l2 ->
    Permutation l1 l2 -> l1 = l2.
  Proof.
    revert l2. induction l1 as [|x r IH]; intros l2 Hnd S1 S2 P.
    - apply Permutation_nil in P. subst. reflexivity.
    - destruct l2 as [|y r2]; [apply Permutation_sym, Permutation_nil in P; discriminate|].
      inversion S1 as [|? ? S1' H1]; subst. inversion S2 as [|? ? S2' H2]; subst.
      rewrite Forall_forall in H1, H2.
      assert (Hxy : x = y).
      { assert (In y (x :: r)) as Hy by (eapply Permutation_in; [symmetry; exact P|left; reflexivity]).
        assert (In x (y :: r2)) as Hx by (eapply Permutation_in; [exact P|left; reflexivity]).
        destruct Hy as [->|Hy]; [reflexivity|]. destruct Hx as [->|Hx]; [reflexivity|].
        pose proof (H1 _ Hy) as A1. pose proof (H2 _ Hx) as A2. unfold key_le in *.
        assert (key x = key y) as K by lia.
        simpl in Hnd. inversion Hnd as [|? ? Hnin _]; subst.
        exfalso. apply Hnin. rewrite K. apply in_map. exact Hy. }
      subst y. f_equal. apply IH; auto.
      + simpl in Hnd. inversion Hnd; assumption.
      + eapply Permutation_cons_inv. exact P.
  Qed.
End Unique.

(* ---- itertools.groupby: maximal runs of consecutive elements with equal key *)
Section Groupby.
  Context {A : Type}.
  Variable key : A -> Z.

  Fixpoint groupby (l : list A) : list (Z * list A) :=
    match l with
    | [] => []
    | x :: r =>
        match groupby r with
        | (k, g) :: gs => if Z.eqb (key x) k then (k, x :: g) :: gs else (key x, [x]) :: (k, g) :: gs
        | [] => [(key x, [x])]
        end
    end.

  Lemma groupby_concat l : concat (map snd (groupby l)) = l.
  Proof.
    induction l as [|x r IH]; simpl; [reflexivity|].
    destruct (groupby r) as [|[k g] gs] eqn:E; simpl in *.
    - rewrite <- IH. reflexivity.
    - destruct (Z.eqb (key x) k); simpl; rewrite <- IH; reflexivity.
  Qed.

  Lemma groupby_keys l : Forall (fun kg => snd kg <> [] /\ Forall (fun x => key x = fst kg) (snd kg)) (groupby l).
  Proof.
    induction l as [|x r IH]; simpl; [constructor|].
    destruct (groupby r) as [|[k g] gs] eqn:E.
    - repeat constructor. simpl. discriminate.
    - destruct (Z.eqb (key x) k) eqn:K.
      + apply Z.eqb_eq in K. inversion IH as [|? ? [Hne Hall] Hrest]; subst. simpl in *.
        constructor; [|exact Hrest]. simpl. split; [discriminate|]. constructor; auto.
      + constructor; [|exact IH]. simpl. split; [discriminate|]. repeat constructor.
  Qed.

  (* on input sorted by key the group keys are strictly increasing *)
  Lemma groupby_sorted_keys l :
    StronglySorted (fun x y => (key x <= key y)%Z) l ->
    StronglySorted Z.lt (map fst (groupby l)).
  Proof.
    induction 1 as [|x r Hs IH Hall]; simpl; [constructor|].
    pose proof (groupby_keys r) as GK. pose proof (groupby_concat r) as GC.
    destruct (groupby r) as [|[k g] gs] eqn:E; simpl in *.
    - repeat constructor.
    - apply Forall_inv in GK. destruct GK as [Hne Hk]. simpl in *.
      destruct g as [|y g']; [congruence|]. apply Forall_inv in Hk. rename Hk into Hy.
      assert (In y r) as Hyr by (rewrite <- GC; simpl; left; reflexivity).
      rewrite Forall_forall in Hall. specialize (Hall _ Hyr).
      rewrite <- Hy in *.
      destruct (Z.eqb (key x) (key y)) eqn:K; simpl.
      + exact IH.
      + apply Z.eqb_neq in K. constructor; [exact IH|].
        inversion IH as [|? ? _ Hlt]; subst.
        constructor; [lia|]. eapply Forall_impl; [|exact Hlt]. simpl. intros; lia.
  Qed.
End Groupby.
