(* posixpath.join / posixpath.normpath on [text], and the lexical resolution of
   an absolute POSIX path into components (what the operating system does with
   a path when no symbolic links are involved).

   Python (Lib/posixpath.py, 3.12):

     def join(a, *p):                     def normpath(path):
         path = a                             if not path: return '.'
         for b in p:                          initial_slashes = path.startswith('/')
             if b.startswith('/'):            if initial_slashes and path.startswith('//') \
                 path = b                           and not path.startswith('///'):
             elif not path or \                   initial_slashes = 2
                  path.endswith('/'):         for comp in path.split('/'):
                 path += b                        if comp in ('', '.'): continue
             else:                                if (comp != '..' or (not initial_slashes and not new_comps)
                 path += '/' + b                        or (new_comps and new_comps[-1] == '..')):
         return path                                  new_comps.append(comp)
                                                  elif new_comps: new_comps.pop()
                                              path = '/'.join(new_comps)
                                              if initial_slashes: path = '/'*initial_slashes + path
                                              return path or '.'
   The behaviour of the real functions is validated by the C16 correspondence run. *)
From Coq Require Import List NArith PeanoNat Bool Lia.
Import ListNotations.
Require Import Verif.Lib.Wire Verif.Lib.Text Verif.Lib.PathNorm.
Open Scope N_scope.

Definition ends_with (c : N) (s : text) : bool :=
  match rev s with x :: _ => N.eqb x c | [] => false end.

(* one step of os.path.join *)
Definition pjoin (a b : text) : text :=
  if startswith [slash] b then b
  else match a with
       | [] => b
       | _ => if ends_with slash a then a ++ b else a ++ [slash] ++ b
       end.

Definition pjoin_all (a : text) (ps : list text) : text := fold_left pjoin ps a.

Definition initial_slashes (p : text) : nat :=
  if startswith [slash; slash] p && negb (startswith [slash; slash; slash] p) then 2%nat
  else if startswith [slash] p then 1%nat else 0%nat.

(* new_comps is kept reversed *)
Definition np_step (init : nat) (acc : list text) (c : text) : list text :=
  match c with
  | [] => acc
  | _ =>
    if is_dot c then acc
    else if negb (is_dotdot c)
            || (Nat.eqb init 0 && match acc with [] => true | _ => false end)
            || match acc with h :: _ => is_dotdot h | [] => false end
         then c :: acc
         else tl acc
  end.

Definition np_comps (init : nat) (p : text) : list text :=
  rev (fold_left (np_step init) (split_on slash p) []).

Definition normpath (p : text) : text :=
  match p with
  | [] => [dot]
  | _ =>
    let init := initial_slashes p in
    match repeat slash init ++ join [slash] (np_comps init p) with
    | [] => [dot]
    | s => s
    end
  end.

(* lexical resolution of an absolute path: '' and '.' are skipped, '..' goes to
   the parent (the parent of the root is the root) *)
Definition os_resolve (p : text) : list text := rev (resolve [] (split_on slash p)).

Definition path_of (init : nat) (comps : list text) : text :=
  repeat slash init ++ join [slash] comps.

(* ------------------------------------------------------------------ lemmas *)

Lemma fold_left_app_step {A B} (f : A -> B -> A) l1 l2 a :
  fold_left f (l1 ++ l2) a = fold_left f l2 (fold_left f l1 a).
Proof. apply fold_left_app. Qed.

Lemma split_on_app c a b : split_on c (a ++ c :: b) = split_on c a ++ split_on c b.
Proof.
  induction a as [|x a IH]; simpl.
  - rewrite N.eqb_refl. reflexivity.
  - destruct (N.eqb x c); [rewrite IH; reflexivity|].
    rewrite IH. pose proof (split_on_nonempty c a) as Hn.
    destruct (split_on c a) as [|h t]; [contradiction|]. reflexivity.
Qed.

(* appending slash-free text only changes the last piece *)
Lemma split_on_app_nosep c a e :
  ~ In c e -> split_on c (a ++ e) = removelast (split_on c a) ++ [last (split_on c a) [] ++ e].
Proof.
  intros He. induction a as [|x a IH]; simpl.
  - rewrite split_on_nosep_id by assumption. reflexivity.
  - destruct (N.eqb x c) eqn:E.
    + rewrite IH. pose proof (split_on_nonempty c a) as Hn.
      destruct (split_on c a) as [|h t]; [contradiction|]. reflexivity.
    + rewrite IH. pose proof (split_on_nonempty c a) as Hn.
      destruct (split_on c a) as [|h t] eqn:Es; [contradiction|].
      destruct t as [|h2 t]; reflexivity.
Qed.

Lemma split_join_normal segs :
  segs <> [] -> Forall normal_seg segs -> split_on slash (join [slash] segs) = segs.
Proof.
  intros Hn Hf. apply split_join; [assumption|].
  eapply Forall_impl; [|exact Hf]. intros a (_ & _ & _ & H). exact H.
Qed.

Lemma split_repeat_slash n rest :
  split_on slash (repeat slash n ++ rest) = repeat [] n ++ split_on slash rest.
Proof.
  induction n as [|n IH]; [reflexivity|].
  change (repeat slash (S n) ++ rest) with (slash :: (repeat slash n ++ rest)).
  cbn [split_on]. rewrite N.eqb_refl, IH. reflexivity.
Qed.

Lemma resolve_app acc l1 l2 : resolve acc (l1 ++ l2) = resolve (resolve acc l1) l2.
Proof. unfold resolve. apply fold_left_app. Qed.

Lemma resolve_empties acc n : resolve acc (repeat [] n) = acc.
Proof. induction n as [|n IH]; simpl; [reflexivity|exact IH]. Qed.

Lemma join_app_normal (a b : list text) :
  a <> [] -> b <> [] -> join [slash] (a ++ b) = join [slash] a ++ [slash] ++ join [slash] b.
Proof.
  induction a as [|x a IH]; intros Ha Hb; [contradiction|].
  destruct a as [|y a].
  - simpl. destruct b; [contradiction|]. reflexivity.
  - change ((x :: y :: a) ++ b) with (x :: (y :: a) ++ b).
    change (join [slash] (x :: (y :: a) ++ b)) with (x ++ [slash] ++ join [slash] ((y :: a) ++ b)).
    rewrite IH by (assumption || discriminate).
    change (join [slash] (x :: y :: a)) with (x ++ [slash] ++ join [slash] (y :: a)).
    rewrite <- !app_assoc. reflexivity.
Qed.

(* os_resolve of a rendered absolute path *)
Lemma os_resolve_path_of init comps :
  Forall normal_seg comps -> os_resolve (path_of init comps) = comps.
Proof.
  intros Hf. unfold os_resolve, path_of. rewrite split_repeat_slash, resolve_app, resolve_empties.
  destruct comps as [|c r].
  - reflexivity.
  - rewrite split_join_normal by (discriminate || assumption).
    rewrite resolve_normal_id by assumption. rewrite app_nil_r. apply rev_involutive.
Qed.

(* np_step on a normal component appends it *)
Lemma np_fold_normal init segs acc :
  Forall normal_seg segs -> fold_left (np_step init) segs acc = rev segs ++ acc.
Proof.
  revert acc. induction segs as [|s segs IH]; intros acc H; simpl; [reflexivity|].
  inversion H as [|? ? Hs Hr]; subst. rewrite IH by assumption.
  destruct Hs as (H1 & H2 & H3 & H4). unfold np_step.
  destruct s as [|x s]; [congruence|].
  destruct (is_dot (x :: s)) eqn:Hd; [apply text_eqb_eq in Hd; congruence|].
  destruct (is_dotdot (x :: s)) eqn:Hdd; [apply text_eqb_eq in Hdd; congruence|].
  simpl. rewrite <- app_assoc. reflexivity.
Qed.

Lemma np_fold_empties init n acc : fold_left (np_step init) (repeat [] n) acc = acc.
Proof. induction n as [|n IH]; simpl; [reflexivity|exact IH]. Qed.

Lemma startswith_repeat_slash_S n rest : startswith [slash] (repeat slash (S n) ++ rest) = true.
Proof. reflexivity. Qed.

Lemma path_of_nonempty init comps : (0 < init)%nat -> path_of init comps <> [].
Proof. intros H. destruct init; [lia|]. discriminate. Qed.

Lemma join_normal_nohead segs :
  Forall normal_seg segs -> startswith [slash] (join [slash] segs) = false.
Proof.
  intros Hf. destruct segs as [|s r]; [reflexivity|].
  pose proof (join_normal_head (s :: r) ltac:(discriminate) Hf) as Hh.
  destruct (join [slash] (s :: r)) as [|x t]; [contradiction|].
  cbn [startswith]. destruct (N.eqb_spec slash x); [congruence|reflexivity].
Qed.

Lemma initial_slashes_prefix init s :
  (init = 1 \/ init = 2)%nat -> startswith [slash] s = false ->
  initial_slashes (repeat slash init ++ s) = init.
Proof.
  intros Hi Hs. unfold initial_slashes. destruct s as [|y s'].
  - destruct Hi as [-> | ->]; reflexivity.
  - cbn [startswith] in Hs.
    destruct Hi as [-> | ->].
    + change (repeat slash 1 ++ y :: s') with (slash :: y :: s').
      cbn [startswith]. rewrite !N.eqb_refl.
      destruct (N.eqb_spec slash y); [discriminate Hs|reflexivity].
    + change (repeat slash 2 ++ y :: s') with (slash :: slash :: y :: s').
      cbn [startswith]. rewrite !N.eqb_refl.
      destruct (N.eqb_spec slash y); [discriminate Hs|reflexivity].
Qed.

Lemma initial_slashes_path_of init comps :
  (init = 1 \/ init = 2)%nat -> Forall normal_seg comps ->
  initial_slashes (path_of init comps) = init.
Proof.
  intros Hi Hf. unfold path_of. apply initial_slashes_prefix; [assumption|].
  apply join_normal_nohead; assumption.
Qed.

(* a rendered absolute path is a fixed point of normpath *)
Lemma normpath_path_of init comps :
  (init = 1 \/ init = 2)%nat -> Forall normal_seg comps ->
  normpath (path_of init comps) = path_of init comps.
Proof.
  intros Hi Hf. unfold normpath.
  assert (Hne : path_of init comps <> []) by (apply path_of_nonempty; lia).
  destruct (path_of init comps) as [|x t] eqn:E; [congruence|]. rewrite <- E.
  rewrite initial_slashes_path_of by assumption.
  assert (Hc : np_comps init (path_of init comps) = comps).
  { unfold np_comps, path_of. rewrite split_repeat_slash, fold_left_app, np_fold_empties.
    destruct comps as [|c r]; [reflexivity|].
    rewrite split_join_normal by (discriminate || assumption).
    rewrite np_fold_normal by assumption. rewrite app_nil_r. apply rev_involutive. }
  rewrite Hc. fold (path_of init comps). rewrite E. reflexivity.
Qed.

(* ---- normpath of an arbitrary absolute path is a rendered path *)
Definition abs_step (acc : list text) (c : text) : list text := np_step 1 acc c.

Lemma np_step_abs_normal init acc c :
  (0 < init)%nat -> ~ In slash c -> Forall normal_seg acc -> Forall normal_seg (np_step init acc c).
Proof.
  intros Hi Hc Hacc. unfold np_step. destruct c as [|x c]; [assumption|].
  destruct (is_dot (x :: c)) eqn:Hd; [assumption|].
  destruct (is_dotdot (x :: c)) eqn:Hdd; simpl.
  - replace (Nat.eqb init 0) with false by (symmetry; apply Nat.eqb_neq; lia). simpl.
    destruct acc as [|h acc']; simpl; [constructor|].
    inversion Hacc as [|? ? Hh Hr]; subst.
    destruct (is_dotdot h) eqn:Hh2.
    + apply text_eqb_eq in Hh2. destruct Hh as (_ & _ & Hx & _). congruence.
    + assumption.
  - constructor; [|assumption]. repeat split; try assumption.
    + discriminate.
    + intros E. unfold is_dot in Hd. rewrite E in Hd. simpl in Hd. discriminate.
    + intros E. unfold is_dotdot in Hdd. rewrite E in Hdd. simpl in Hdd. discriminate.
Qed.

Lemma np_fold_abs_normal init segs acc :
  (0 < init)%nat -> Forall (fun s => ~ In slash s) segs -> Forall normal_seg acc ->
  Forall normal_seg (fold_left (np_step init) segs acc).
Proof.
  intros Hi. revert acc. induction segs as [|s segs IH]; intros acc Hs Hacc; simpl; [assumption|].
  inversion Hs; subst. apply IH; [assumption|apply np_step_abs_normal; assumption].
Qed.

Lemma initial_slashes_abs p : startswith [slash] p = true -> (initial_slashes p = 1 \/ initial_slashes p = 2)%nat.
Proof.
  intros H. unfold initial_slashes.
  destruct (startswith [slash; slash] p && negb (startswith [slash; slash; slash] p)); [right; reflexivity|].
  rewrite H. left; reflexivity.
Qed.

Theorem normpath_abs p :
  startswith [slash] p = true ->
  exists init comps, (init = 1 \/ init = 2)%nat /\ Forall normal_seg comps /\ normpath p = path_of init comps.
Proof.
  intros Hp. destruct (initial_slashes_abs p Hp) as [Hi|Hi].
  - exists 1%nat, (np_comps 1 p). split; [left; reflexivity|]. split.
    + unfold np_comps. apply Forall_rev. apply np_fold_abs_normal; [lia|apply split_on_no_sep|constructor].
    + unfold normpath. destruct p as [|x t]; [discriminate|]. rewrite Hi. reflexivity.
  - exists 2%nat, (np_comps 2 p). split; [right; reflexivity|]. split.
    + unfold np_comps. apply Forall_rev. apply np_fold_abs_normal; [lia|apply split_on_no_sep|constructor].
    + unfold normpath. destruct p as [|x t]; [discriminate|]. rewrite Hi. reflexivity.
Qed.

Lemma ends_with_app_last c a x : ends_with c (a ++ [x]) = N.eqb x c.
Proof. unfold ends_with. rewrite rev_app_distr. reflexivity. Qed.

Lemma ends_with_path_of init comps :
  (init = 1 \/ init = 2)%nat -> Forall normal_seg comps ->
  ends_with slash (path_of init comps) = match comps with [] => true | _ => false end.
Proof.
  intros Hi Hc. destruct comps as [|c r].
  - unfold path_of. simpl join. rewrite app_nil_r. destruct Hi as [-> | ->]; reflexivity.
  - unfold ends_with, path_of. rewrite rev_app_distr.
    pose proof (join_last_normal (c :: r) ltac:(discriminate) Hc) as Hl.
    destruct (rev (join [slash] (c :: r))) as [|y l]; [contradiction|].
    cbn [app]. destruct (N.eqb_spec y slash); [contradiction|reflexivity].
Qed.

Lemma normpath_trailing_slash init comps :
  (init = 1 \/ init = 2)%nat -> Forall normal_seg comps -> comps <> [] ->
  normpath (path_of init comps ++ [slash]) = path_of init comps.
Proof.
  intros Hi Hc Hne. unfold normpath.
  destruct (path_of init comps ++ [slash]) as [|y l] eqn:E3.
  { destruct (path_of init comps); discriminate. }
  rewrite <- E3.
  assert (Hinit : initial_slashes (path_of init comps ++ [slash]) = init).
  { unfold path_of. rewrite <- app_assoc. apply initial_slashes_prefix; [assumption|].
    pose proof (join_normal_nohead comps Hc) as Hh.
    destruct comps as [|c cr]; [contradiction|].
    pose proof (join_normal_head (c :: cr) ltac:(discriminate) Hc) as Hh2.
    destruct (join [slash] (c :: cr)) as [|z zs]; [contradiction|].
    exact Hh. }
  rewrite Hinit.
  assert (Hcm : np_comps init (path_of init comps ++ [slash]) = comps).
  { unfold np_comps. rewrite split_on_app. cbn [split_on].
    rewrite fold_left_app. cbn [fold_left np_step].
    unfold path_of. rewrite split_repeat_slash, fold_left_app, np_fold_empties.
    rewrite split_join_normal by assumption.
    rewrite np_fold_normal by assumption. rewrite app_nil_r. apply rev_involutive. }
  rewrite Hcm. fold (path_of init comps).
  assert (Hpne : path_of init comps <> []) by (apply path_of_nonempty; lia).
  destruct (path_of init comps) as [|q qs]; [congruence|reflexivity].
Qed.

(* join of a rendered docroot with a relative path of normal segments *)
Lemma pjoin_path_of init comps t :
  (init = 1 \/ init = 2)%nat -> Forall normal_seg comps -> Forall normal_seg t -> t <> [] ->
  pjoin (path_of init comps) (join [slash] t) = path_of init (comps ++ t).
Proof.
  intros Hi Hc Ht Hne. unfold pjoin. rewrite join_normal_nohead by assumption.
  assert (Hpne : path_of init comps <> []) by (apply path_of_nonempty; lia).
  rewrite ends_with_path_of by assumption.
  destruct (path_of init comps) as [|x0 r0] eqn:E; [congruence|]. rewrite <- E.
  destruct comps as [|c r].
  - unfold path_of. simpl join. rewrite app_nil_r. reflexivity.
  - unfold path_of. rewrite join_app_normal by (assumption || discriminate).
    rewrite <- !app_assoc. reflexivity.
Qed.

Lemma pjoin_path_of_empty init comps :
  (init = 1 \/ init = 2)%nat -> Forall normal_seg comps ->
  normpath (pjoin (path_of init comps) []) = path_of init comps.
Proof.
  intros Hi Hc. unfold pjoin. cbn [startswith].
  assert (Hpne : path_of init comps <> []) by (apply path_of_nonempty; lia).
  rewrite ends_with_path_of by assumption.
  destruct (path_of init comps) as [|x0 r0] eqn:E; [congruence|]. rewrite <- E.
  destruct comps as [|c r].
  - rewrite app_nil_r. apply normpath_path_of; assumption.
  - cbn [app]. apply normpath_trailing_slash; [assumption|assumption|discriminate].
Qed.

(* the central containment fact: whatever absolute docroot is configured, the
   normalised join of its normal form with normal segments is the docroot's
   components followed by exactly those segments *)
Theorem normpath_join_path_of init comps t :
  (init = 1 \/ init = 2)%nat -> Forall normal_seg comps -> Forall normal_seg t ->
  normpath (pjoin (path_of init comps) (join [slash] t)) = path_of init (comps ++ t).
Proof.
  intros Hi Hc Ht. destruct t as [|s t'].
  - rewrite app_nil_r. apply pjoin_path_of_empty; assumption.
  - rewrite pjoin_path_of by (assumption || discriminate).
    apply normpath_path_of; [assumption|]. apply Forall_app; split; assumption.
Qed.

Theorem normpath_under r t :
  startswith [slash] r = true -> Forall normal_seg t ->
  exists comps, Forall normal_seg comps /\ os_resolve (normpath r) = comps /\
    os_resolve (normpath (pjoin (normpath r) (join [slash] t))) = comps ++ t.
Proof.
  intros Hr Ht. destruct (normpath_abs r Hr) as (init & comps & Hi & Hc & E).
  exists comps. split; [assumption|]. rewrite E. split; [apply os_resolve_path_of; assumption|].
  rewrite normpath_join_path_of by assumption.
  apply os_resolve_path_of. apply Forall_app; split; assumption.
Qed.
