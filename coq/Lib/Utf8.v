From Coq Require Import List NArith ZArith Bool Lia ZifyBool ZifyN.
Require Import Verif.Lib.Wire.
Import ListNotations.
Ltac Zify.zify_post_hook ::= Z.div_mod_to_equations.
Open Scope N_scope.

Definition valid_scalar (c : N) : bool :=
  (c <? 55296) || ((57343 <? c) && (c <? 1114112)).

Definition encode1 (c : N) : list N :=
  if c <? 128 then [c]
  else if c <? 2048 then [192 + c / 64; 128 + c mod 64]
  else if c <? 65536 then [224 + c / 4096; 128 + (c / 64) mod 64; 128 + c mod 64]
  else [240 + c / 262144; 128 + (c / 4096) mod 64; 128 + (c / 64) mod 64; 128 + c mod 64].

Definition encode (cs : list N) : list N := flat_map encode1 cs.

Definition cont (b : N) : bool := (128 <=? b) && (b <=? 191).
Definition inr (lo hi b : N) : bool := (lo <=? b) && (b <=? hi).

Fixpoint decode (bs : list N) : option (list N) :=
  match bs with
  | [] => Some []
  | b0 :: r0 =>
    if b0 <? 128 then option_map (cons b0) (decode r0)
    else if inr 194 223 b0 then
      match r0 with
      | b1 :: r1 => if cont b1 then option_map (cons ((b0 - 192) * 64 + (b1 - 128))) (decode r1) else None
      | _ => None
      end
    else if inr 224 239 b0 then
      match r0 with
      | b1 :: b2 :: r2 =>
        let lo := if b0 =? 224 then 160 else 128 in
        let hi := if b0 =? 237 then 159 else 191 in
        if inr lo hi b1 && cont b2 then
          option_map (cons ((b0 - 224) * 4096 + (b1 - 128) * 64 + (b2 - 128))) (decode r2)
        else None
      | _ => None
      end
    else if inr 240 244 b0 then
      match r0 with
      | b1 :: b2 :: b3 :: r3 =>
        let lo := if b0 =? 240 then 144 else 128 in
        let hi := if b0 =? 244 then 143 else 191 in
        if inr lo hi b1 && cont b2 && cont b3 then
          option_map (cons ((b0 - 240) * 262144 + (b1 - 128) * 4096 + (b2 - 128) * 64 + (b3 - 128))) (decode r3)
        else None
      | _ => None
      end
    else None
  end.

Lemma decode_encode1 c rest :
  valid_scalar c = true ->
  decode (encode1 c ++ rest) = option_map (cons c) (decode rest).
Proof.
  intros Hv. unfold valid_scalar in Hv. unfold encode1.
  destruct (c <? 128) eqn:H1.
  - simpl. rewrite H1. reflexivity.
  - destruct (c <? 2048) eqn:H2.
    + cbn [app decode].
      assert (E0: (192 + c / 64 <? 128) = false) by lia. rewrite E0.
      assert (E1: inr 194 223 (192 + c / 64) = true) by (unfold inr; lia). rewrite E1.
      assert (E2: cont (128 + c mod 64) = true) by (unfold cont; lia). rewrite E2.
      assert (E3: (192 + c / 64 - 192) * 64 + (128 + c mod 64 - 128) = c) by lia. rewrite E3. reflexivity.
    + destruct (c <? 65536) eqn:H3.
      * cbn [app decode].
        assert (E0: (224 + c / 4096 <? 128) = false) by lia. rewrite E0.
        assert (E1: inr 194 223 (224 + c / 4096) = false) by (unfold inr; lia). rewrite E1.
        assert (E1': inr 224 239 (224 + c / 4096) = true) by (unfold inr; lia). rewrite E1'.
        assert (E2: inr (if 224 + c / 4096 =? 224 then 160 else 128) (if 224 + c / 4096 =? 237 then 159 else 191) (128 + (c / 64) mod 64) && cont (128 + c mod 64) = true).
        { unfold inr, cont. destruct (224 + c / 4096 =? 224) eqn:Ha; destruct (224 + c / 4096 =? 237) eqn:Hb; lia. }
        rewrite E2.
        assert (E3: (224 + c / 4096 - 224) * 4096 + (128 + (c / 64) mod 64 - 128) * 64 + (128 + c mod 64 - 128) = c) by lia.
        rewrite E3. reflexivity.
      * cbn [app decode].
        assert (E0: (240 + c / 262144 <? 128) = false) by lia. rewrite E0.
        assert (E1: inr 194 223 (240 + c / 262144) = false) by (unfold inr; lia). rewrite E1.
        assert (E1': inr 224 239 (240 + c / 262144) = false) by (unfold inr; lia). rewrite E1'.
        assert (E1'': inr 240 244 (240 + c / 262144) = true) by (unfold inr; lia). rewrite E1''.
        assert (E2: inr (if 240 + c / 262144 =? 240 then 144 else 128) (if 240 + c / 262144 =? 244 then 143 else 191) (128 + (c / 4096) mod 64) && cont (128 + (c / 64) mod 64) && cont (128 + c mod 64) = true).
        { unfold inr, cont. destruct (240 + c / 262144 =? 240) eqn:Ha; destruct (240 + c / 262144 =? 244) eqn:Hb; lia. }
        rewrite E2.
        assert (E3: (240 + c / 262144 - 240) * 262144 + (128 + (c / 4096) mod 64 - 128) * 4096 + (128 + (c / 64) mod 64 - 128) * 64 + (128 + c mod 64 - 128) = c) by lia.
        rewrite E3. reflexivity.
Qed.

Theorem decode_encode cs :
  forallb valid_scalar cs = true -> decode (encode cs) = Some cs.
Proof.
  induction cs as [|c cs IH]; intros H; [reflexivity|].
  simpl in H. apply andb_true_iff in H as [Hc Hcs].
  unfold encode; simpl flat_map. rewrite decode_encode1 by assumption.
  fold (encode cs). rewrite IH by assumption. reflexivity.
Qed.
