(* Types shared by the regenerated facts of C07 and its model. *)
(* How ResourceURL.__init__ (src/pyramid/traversal.py) decides whether the
   physical path lies under the virtual root:
   UrlStringPrefix = str.startswith on the QUOTED physical path against the raw
                     header value, element count by split('/')   (unrepaired)
   UrlTupleCompare = split_path_info(decode_path_info(header)) compared with the
                     physical path tuple                         (repaired)     *)
Inductive url_mode := UrlStringPrefix | UrlTupleCompare.
