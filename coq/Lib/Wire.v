(* Generic wire values exchanged between the Python harness and the extracted
   model.  One OCaml driver serves every property: it parses a line into a
   [val], calls the property's [run : val -> val] and prints the result.
   All per-property decoding glue therefore lives in Gallina (total functions
   that answer [bad] on an unexpected shape), not in OCaml. *)
From Coq Require Import List NArith ZArith Bool.
Import ListNotations.

Definition text := list N.

Inductive val :=
| VI (z : Z)
| VT (t : text)
| VL (l : list val).

Definition bad : val := VL [VT [98; 97; 100]%N].   (* "bad": malformed input *)

Definition vbool (b : bool) : val := VI (if b then 1 else 0)%Z.
Definition vnat (n : nat) : val := VI (Z.of_nat n).
Definition vN (n : N) : val := VI (Z.of_N n).
Definition vopt {A} (f : A -> val) (o : option A) : val :=
  match o with None => VL [] | Some a => VL [f a] end.
Definition vlist {A} (f : A -> val) (l : list A) : val := VL (map f l).
Definition vtexts (l : list text) : val := VL (map VT l).

Definition get_bool (v : val) : option bool :=
  match v with VI z => Some (negb (Z.eqb z 0)) | _ => None end.
Definition get_Z (v : val) : option Z := match v with VI z => Some z | _ => None end.
Definition get_N (v : val) : option N := match v with VI z => Some (Z.to_N z) | _ => None end.
Definition get_nat (v : val) : option nat := match v with VI z => Some (Z.to_nat z) | _ => None end.
Definition get_text (v : val) : option text := match v with VT t => Some t | _ => None end.
Definition get_list (v : val) : option (list val) := match v with VL l => Some l | _ => None end.

Fixpoint map_opt {A B} (f : A -> option B) (l : list A) : option (list B) :=
  match l with
  | [] => Some []
  | x :: r => match f x, map_opt f r with
              | Some y, Some ys => Some (y :: ys)
              | _, _ => None
              end
  end.

Definition get_list_of {A} (f : val -> option A) (v : val) : option (list A) :=
  match v with VL l => map_opt f l | _ => None end.
Definition get_texts := get_list_of get_text.
Definition get_opt {A} (f : val -> option A) (v : val) : option (option A) :=
  match v with
  | VL [] => Some None
  | VL [x] => match f x with Some a => Some (Some a) | None => None end
  | _ => None
  end.

Definition obind {A B} (o : option A) (f : A -> option B) : option B :=
  match o with Some a => f a | None => None end.
Notation "'olet' x ':=' e 'in' k" := (obind e (fun x => k))
  (at level 200, x pattern, e at level 100, k at level 200, right associativity).

Definition ret_or_bad (o : option val) : val := match o with Some v => v | None => bad end.

(* text helpers shared by all models *)
Fixpoint text_eqb (a b : text) : bool :=
  match a, b with
  | [], [] => true
  | x :: a', y :: b' => N.eqb x y && text_eqb a' b'
  | _, _ => false
  end.

Lemma text_eqb_eq a b : text_eqb a b = true <-> a = b.
Proof.
  revert b; induction a as [|x a IH]; destruct b as [|y b]; simpl; try (split; congruence).
  rewrite andb_true_iff, N.eqb_eq, IH.
  split; [intros [-> ->]; reflexivity | intros H; inversion H; auto].
Qed.

Lemma text_eqb_refl a : text_eqb a a = true.
Proof. apply text_eqb_eq; reflexivity. Qed.

Lemma text_eqb_neq a b : text_eqb a b = false <-> a <> b.
Proof.
  split.
  - intros H E. apply text_eqb_eq in E. congruence.
  - intros H. destruct (text_eqb a b) eqn:E; [apply text_eqb_eq in E; contradiction|reflexivity].
Qed.

Lemma text_eqb_spec a b : reflect (a = b) (text_eqb a b).
Proof. apply iff_reflect. symmetry. apply text_eqb_eq. Qed.

Definition text_eq_dec (a b : text) : {a = b} + {a <> b}.
Proof. destruct (text_eqb_spec a b); [left|right]; assumption. Defined.

Fixpoint mem_text (x : text) (l : list text) : bool :=
  match l with [] => false | y :: r => text_eqb x y || mem_text x r end.

Lemma mem_text_In x l : mem_text x l = true <-> In x l.
Proof.
  induction l as [|y r IH]; simpl; [split; [discriminate|tauto]|].
  rewrite orb_true_iff, text_eqb_eq, IH. split; intros [H|H]; auto.
Qed.

Fixpoint memN (x : N) (l : list N) : bool :=
  match l with [] => false | y :: r => N.eqb x y || memN x r end.

Lemma memN_In x l : memN x l = true <-> In x l.
Proof.
  induction l as [|y r IH]; simpl; [split; [discriminate|tauto]|].
  rewrite orb_true_iff, N.eqb_eq, IH. split; intros [H|H]; auto.
Qed.
