(* Text utilities: Python str.split / join / startswith on [text = list N]. *)
From Coq Require Import List NArith Bool Lia.
Import ListNotations.
Require Import Verif.Lib.Wire.
Open Scope N_scope.

(* Python: s.split(c) for a one-character separator *)
Fixpoint split_on (c : N) (s : text) : list text :=
  match s with
  | [] => [[]]
  | x :: s' =>
      if N.eqb x c then [] :: split_on c s'
      else match split_on c s' with
           | [] => [[x]]   (* impossible: split_on never returns [] *)
           | h :: t => (x :: h) :: t
           end
  end.

(* Python: sep.join(l) *)
Fixpoint join (sep : text) (l : list text) : text :=
  match l with
  | [] => []
  | [x] => x
  | x :: r => x ++ sep ++ join sep r
  end.

Fixpoint startswith (p s : text) : bool :=
  match p, s with
  | [], _ => true
  | x :: p', y :: s' => N.eqb x y && startswith p' s'
  | _ :: _, [] => false
  end.

Fixpoint strip_prefix (p s : text) : option text :=
  match p, s with
  | [], _ => Some s
  | x :: p', y :: s' => if N.eqb x y then strip_prefix p' s' else None
  | _ :: _, [] => None
  end.

Fixpoint lstrip_char (c : N) (s : text) : text :=
  match s with x :: r => if N.eqb x c then lstrip_char c r else s | [] => [] end.
Definition rstrip_char (c : N) (s : text) : text := rev (lstrip_char c (rev s)).
Definition strip_char (c : N) (s : text) : text := rstrip_char c (lstrip_char c s).

Lemma split_on_nonempty c s : split_on c s <> [].
Proof.
  destruct s as [|x s]; simpl; [discriminate|].
  destruct (N.eqb x c); [discriminate|]. destruct (split_on c s); discriminate.
Qed.

Lemma split_on_no_sep c s : Forall (fun seg => ~ In c seg) (split_on c s).
Proof.
  induction s as [|x s IH]; simpl.
  - constructor; [intros []|constructor].
  - destruct (N.eqb_spec x c) as [->|Hne].
    + constructor; [intros []|exact IH].
    + destruct (split_on c s) as [|h t]; [constructor; [simpl; intuition|constructor]|].
      inversion IH; subst. constructor; [simpl; intuition|assumption].
Qed.

Lemma join_split c s : join [c] (split_on c s) = s.
Proof.
  induction s as [|x s IH]; simpl; [reflexivity|].
  destruct (N.eqb_spec x c) as [->|Hne].
  - pose proof (split_on_nonempty c s) as Hn.
    destruct (split_on c s) as [|h t] eqn:E; [contradiction|].
    simpl in *. rewrite IH. reflexivity.
  - pose proof (split_on_nonempty c s) as Hn.
    destruct (split_on c s) as [|h t] eqn:E; [contradiction|].
    destruct t as [|h2 t]; simpl in *; rewrite <- IH; reflexivity.
Qed.

Lemma split_on_nosep_id c s : ~ In c s -> split_on c s = [s].
Proof.
  induction s as [|x s IH]; simpl; intros H; [reflexivity|].
  destruct (N.eqb_spec x c) as [->|Hne]; [exfalso; auto|].
  rewrite IH by tauto. reflexivity.
Qed.

Lemma split_on_app_sep c a b :
  ~ In c a -> split_on c (a ++ c :: b) = a :: split_on c b.
Proof.
  induction a as [|x a IH]; simpl; intros H.
  - rewrite N.eqb_refl. reflexivity.
  - destruct (N.eqb_spec x c) as [->|Hne]; [exfalso; auto|].
    rewrite IH by tauto. reflexivity.
Qed.

(* split inverts join when no element contains the separator *)
Lemma split_join c l :
  l <> [] -> Forall (fun seg => ~ In c seg) l -> split_on c (join [c] l) = l.
Proof.
  induction l as [|x r IH]; intros Hn Hf; [contradiction|].
  inversion Hf as [|? ? Hx Hr]; subst.
  destruct r as [|y r]; simpl.
  - apply split_on_nosep_id; assumption.
  - change (split_on c (x ++ c :: join [c] (y :: r)) = x :: y :: r).
    rewrite split_on_app_sep by assumption. f_equal. apply IH; [discriminate|assumption].
Qed.

Lemma strip_prefix_spec p s r : strip_prefix p s = Some r <-> s = p ++ r.
Proof.
  revert s; induction p as [|x p IH]; intros s; simpl.
  - split; congruence.
  - destruct s as [|y s]; [split; discriminate|].
    destruct (N.eqb_spec x y) as [->|Hne].
    + rewrite IH. split; [intros ->; reflexivity|intros H; injection H; auto].
    + split; [discriminate|intros H; injection H; congruence].
Qed.

Lemma startswith_spec p s : startswith p s = true <-> exists r, s = p ++ r.
Proof.
  revert s; induction p as [|x p IH]; intros s; simpl.
  - split; eauto.
  - destruct s as [|y s]; [split; [discriminate|intros [r H]; discriminate]|].
    rewrite andb_true_iff, N.eqb_eq, IH. split.
    + intros [-> [r ->]]. eauto.
    + intros [r H]. injection H as -> ->. eauto.
Qed.
