(* C15 -- instruction language into which the facts extractor translates
   pyramid.view._find_views, Registry._clear_view_lookup_cache and the
   register action of Configurator.add_view.  Types only; the semantics is in
   Model/C15.v. *)
From Coq Require Import List NArith.
Import ListNotations.

(* (view classifier, request type, context type, view type, view name): one exact-match
   registration position of the adapter registry *)
Definition slot := (N * N * N * N * N)%type.

(* what the cache key of _find_views contains besides (request_iface, context_iface, view_name) *)
Inductive key_mode := KeyTriad | KeyFull.   (* nothing more | also the view classifier *)

Inductive target := Local | Reread.      (* cache[k] = v  |  registry._view_lookup_cache[k] = v *)
Inductive clear_mode := Swap | InPlace.  (* self._view_lookup_cache = {}  |  self._view_lookup_cache.clear() *)

Inductive instr :=
| ReadPtr                      (* cache = registry._view_lookup_cache *)
| Get                          (* views = cache.get(key) *)
| IfMiss (body : list instr)   (* if views is None: body *)
| InitViews                    (* views = [] *)
| QueryAll                     (* the product loop: expands to one Query per slot of the key *)
| Query (s : slot)             (* v = registered(slot); if v is not None: views.append(v) *)
| IfNonEmpty (body : list instr) (* if views: body *)
| Lock                         (* registry._lock.__enter__ *)
| Write (t : target)           (* <target>[key] = views *)
| WriteLoad (t : target)       (* finer atomicity of the same statement: read the dictionary ... *)
| WriteStore (t : target)      (* ... then store it back with the new entry (read-modify-write) *)
| Unlock                       (* registry._lock.__exit__ *)
| Return                       (* return views *)
| RegisterAdapter              (* register_view(...): the adapter registry changes *)
| Clear (m : clear_mode).      (* registry._clear_view_lookup_cache() *)
