(* Python / stdlib behaviour used by the auth-ticket code (C09), on [text = list N]:
   int(s, base) with CPython's leniency, '%08x' / str(int) formatting, base64
   (b64encode, and binascii.a2b_base64 in its lenient default mode), UTF-8 decoding
   with errors='replace', urllib.parse.unquote on str.  Definitions first, lemmas
   below.  Stdlib behaviour is "modelled, validated by correspondence". *)
From Coq Require Import List NArith ZArith Bool Lia ZifyBool ZifyN.
Import ListNotations.
Require Import Verif.Lib.Wire Verif.Lib.Text Verif.Lib.Percent Verif.Lib.Utf8.
Ltac Zify.zify_post_hook ::= Z.div_mod_to_equations.
Open Scope N_scope.

(* ---------------------------------------------------------------- comparisons *)
Inductive cmpop := CLt | CLe | CGt | CGe | CEq | CNe.
Definition cmp_eval (o : cmpop) (a b : Z) : bool :=
  match o with
  | CLt => Z.ltb a b | CLe => Z.leb a b | CGt => Z.ltb b a | CGe => Z.leb b a
  | CEq => Z.eqb a b | CNe => negb (Z.eqb a b)
  end.

(* ---------------------------------------------------------------- int(s, base) *)
Definition is_ws (c : N) : bool := ((9 <=? c) && (c <=? 13)) || (c =? 32).

Definition digit_val (base c : N) : option N :=
  let v := if (48 <=? c) && (c <=? 57) then Some (c - 48)
           else if (97 <=? c) && (c <=? 122) then Some (c - 87)
           else if (65 <=? c) && (c <=? 90) then Some (c - 55)
           else None in
  match v with Some d => if d <? base then Some d else None | None => None end.

Definition is_digit (base c : N) : bool :=
  match digit_val base c with Some _ => true | None => false end.

(* _PyUnicode_TransformDecimalAndSpaceToASCII: code points below 127 unchanged,
   the others through [tr] (a Unicode-database oracle: space -> 32, decimal
   digit -> 48+d, anything else -> 63) *)
Definition to_ascii (tr : N -> N) (c : N) : N := if c <? 127 then c else tr c.

Fixpoint skip_ws (s : text) : text :=
  match s with c :: r => if is_ws c then skip_ws r else s | [] => [] end.

(* the scan loop of PyLong_FromString: consumes digits and single underscores;
   [prev_us]: previous character was '_'.  Returns (value, rest) or None when
   the underscore rules are violated. *)
Fixpoint scan_digits (base : N) (s : text) (acc : N) (prev_us : bool) : option (N * text) :=
  match s with
  | [] => if prev_us then None else Some (acc, [])
  | c :: r =>
      if c =? 95 then (if prev_us then None else scan_digits base r acc true)
      else match digit_val base c with
           | Some d => scan_digits base r (acc * base + d) false
           | None => if prev_us then None else Some (acc, s)
           end
  end.

Definition strip_sign (s : text) : bool * text :=
  match s with
  | 43 :: r => (false, r)
  | 45 :: r => (true, r)
  | _ => (false, s)
  end.

(* base 16 only: an optional 0x / 0X prefix, after which one underscore is allowed *)
Definition strip_0x (base : N) (s : text) : text :=
  if base =? 16 then
    match s with
    | 48 :: x :: r => if (x =? 120) || (x =? 88)
                      then match r with 95 :: r' => r' | _ => r end
                      else s
    | _ => s
    end
  else s.

(* after blanks and sign: optional prefix, digits with single underscores, trailing blanks *)
Definition int_body (base : N) (neg : bool) (s0 : text) : option Z :=
  let s := strip_0x base s0 in
  match s with
  | [] => None
  | c :: _ =>
      if negb (is_digit base c) then None     (* covers a leading underscore, too *)
      else match scan_digits base s 0 false with
           | None => None
           | Some (v, rest) =>
               match skip_ws rest with
               | [] => Some (if neg then (- Z.of_N v)%Z else Z.of_N v)
               | _ => None
               end
           end
  end.

Definition py_int (tr : N -> N) (base : N) (s0 : text) : option Z :=
  let '(neg, s) := strip_sign (skip_ws (map (to_ascii tr) s0)) in int_body base neg s.

(* ---------------------------------------------------------------- formatting *)
Definition lhex (d : N) : N := if d <? 10 then 48 + d else 87 + d.      (* lower case *)

Fixpoint digits_acc (base : N) (fuel : nat) (n : N) (acc : text) : text :=
  match fuel with
  | O => acc
  | S f => let acc' := lhex (n mod base) :: acc in
           if n / base =? 0 then acc' else digits_acc base f (n / base) acc'
  end.
Definition digits_of (base n : N) : text := digits_acc base (S (N.size_nat n)) n [].

Definition dec_of_N (n : N) : text := digits_of 10 n.
Definition dec_of_Z (z : Z) : text :=
  match z with Zneg p => 45 :: dec_of_N (Npos p) | _ => dec_of_N (Z.to_N z) end.

(* format(n, '0<w>x') for n >= 0 *)
Definition hex_pad (w : nat) (n : N) : text :=
  let d := digits_of 16 n in repeat 48 (w - length d) ++ d.

(* ---------------------------------------------------------------- base64 *)
Definition b64char (v : N) : N :=
  if v <? 26 then 65 + v else if v <? 52 then 71 + v else if v <? 62 then v - 4
  else if v =? 62 then 43 else 47.
Definition b64val (c : N) : option N :=
  if (65 <=? c) && (c <=? 90) then Some (c - 65)
  else if (97 <=? c) && (c <=? 122) then Some (c - 71)
  else if (48 <=? c) && (c <=? 57) then Some (c + 4)
  else if c =? 43 then Some 62 else if c =? 47 then Some 63 else None.

Fixpoint b64encode (bs : list N) : text :=
  match bs with
  | [] => []
  | [a] => [b64char (a / 4); b64char ((a mod 4) * 16); 61; 61]
  | [a; b] => [b64char (a / 4); b64char ((a mod 4) * 16 + b / 16); b64char ((b mod 16) * 4); 61]
  | a :: b :: c :: r =>
      b64char (a / 4) :: b64char ((a mod 4) * 16 + b / 16)
        :: b64char ((b mod 16) * 4 + c / 64) :: b64char (c mod 64) :: b64encode r
  end.

(* binascii.a2b_base64, non-strict: characters outside the alphabet are skipped,
   a complete pad sequence ends the input, leftover characters are an error *)
Fixpoint b64dec (s : text) (qp left pads : N) : option (list N) :=
  match s with
  | [] => if qp =? 0 then Some [] else None
  | c :: r =>
      if c =? 61 then
        if 2 <=? qp then
          (if 4 <=? qp + (pads + 1) then Some [] else b64dec r qp left (pads + 1))
        else b64dec r qp left pads
      else match b64val c with
           | None => b64dec r qp left pads
           | Some v =>
               if qp =? 0 then b64dec r 1 v 0
               else if qp =? 1 then option_map (cons (left * 4 + v / 16)) (b64dec r 2 (v mod 16) 0)
               else if qp =? 2 then option_map (cons (left * 16 + v / 4)) (b64dec r 3 (v mod 4) 0)
               else option_map (cons (left * 64 + v)) (b64dec r 0 0 0)
           end
  end.
Definition b64decode (s : text) : option (list N) := b64dec s 0 0 0.

(* ---------------------------------------------------------------- UTF-8, errors='replace' *)
Definition fffd : N := 65533.

(* CPython replaces each maximal invalid subpart by one U+FFFD *)
Fixpoint decode_replace (bs : list N) : list N :=
  match bs with
  | [] => []
  | b0 :: r0 =>
    if b0 <? 128 then b0 :: decode_replace r0
    else if inr 194 223 b0 then
      match r0 with
      | b1 :: r1 => if cont b1 then ((b0 - 192) * 64 + (b1 - 128)) :: decode_replace r1
                    else fffd :: decode_replace r0
      | [] => [fffd]
      end
    else if inr 224 239 b0 then
      let lo := if b0 =? 224 then 160 else 128 in
      let hi := if b0 =? 237 then 159 else 191 in
      match r0 with
      | b1 :: r1 =>
          if inr lo hi b1 then
            match r1 with
            | b2 :: r2 => if cont b2
                          then ((b0 - 224) * 4096 + (b1 - 128) * 64 + (b2 - 128)) :: decode_replace r2
                          else fffd :: decode_replace r1
            | [] => [fffd]
            end
          else fffd :: decode_replace r0
      | [] => [fffd]
      end
    else if inr 240 244 b0 then
      let lo := if b0 =? 240 then 144 else 128 in
      let hi := if b0 =? 244 then 143 else 191 in
      match r0 with
      | b1 :: r1 =>
          if inr lo hi b1 then
            match r1 with
            | b2 :: r2 =>
                if cont b2 then
                  match r2 with
                  | b3 :: r3 =>
                      if cont b3
                      then ((b0 - 240) * 262144 + (b1 - 128) * 4096 + (b2 - 128) * 64 + (b3 - 128))
                             :: decode_replace r3
                      else fffd :: decode_replace r2
                  | [] => [fffd]
                  end
                else fffd :: decode_replace r1
            | [] => [fffd]
            end
          else fffd :: decode_replace r0
      | [] => [fffd]
      end
    else fffd :: decode_replace r0
  end.

(* urllib.parse.unquote(str): every maximal run of ASCII characters is
   percent-decoded to bytes and decoded as UTF-8 with errors='replace';
   non-ASCII characters stay.  [run] holds the current ASCII run, reversed. *)
Definition flush_run (run : text) : text :=
  match run with [] => [] | _ => decode_replace (unquote (rev run)) end.
Fixpoint unquote_go (s : text) (run : text) : text :=
  match s with
  | [] => flush_run run
  | c :: r => if c <? 128 then unquote_go r (c :: run)
              else flush_run run ++ c :: unquote_go r []
  end.
Definition unquote_str (s : text) : text := unquote_go s [].

(* urllib.parse.quote(str or bytes, safe='/') of text that is encoded as UTF-8 first *)
Definition quote_str (safe : list N) (s : text) : text := quote safe (encode s).

(* ---------------------------------------------------------------- small text helpers *)
(* s.split(c, 1) when it has two parts *)
Fixpoint split1 (c : N) (s : text) : option (text * text) :=
  match s with
  | [] => None
  | x :: r => if x =? c then Some ([], r)
              else match split1 c r with Some (a, b) => Some (x :: a, b) | None => None end
  end.

Fixpoint count_char (c : N) (s : text) : nat :=
  match s with [] => O | x :: r => ((if N.eqb x c then 1 else 0) + count_char c r)%nat end.

Definition is_ascii (s : text) : bool := forallb (fun c => c <? 128) s.
Definition is_bytes (s : text) : bool := forallb (fun c => c <? 256) s.

Fixpoint lookup_text {A} (k : text) (l : list (text * A)) : option A :=
  match l with [] => None | (k', v) :: r => if text_eqb k k' then Some v else lookup_text k r end.

(* kinds of userid decoders recognised by the facts extractor:
   int | lambda x: utf_8_decode(x)[0] | lambda x: utf_8_decode(b64decode(x))[0] | lambda x: b64decode(x) *)
(* DUtf8Text: the repaired legacy 'unicode' entry -- the identity on str, UTF-8 decoding on bytes *)
Inductive deckind := DInt | DUtf8 | DB64Utf8 | DB64 | DUtf8Text.
(* kinds of userid encoders: str | lambda x: b64encode(utf_8_encode(x)[0]) | lambda x: b64encode(x) *)
Inductive enckind := EStr | EB64Utf8 | EB64.
